#!/usr/bin/env python3
"""Regenerates MANIFEST.json from the table below (kept next to the checks so the two stay in sync)."""
import json, sys

HIST_NOTE = "Trusts the in-memory object_store (InMemory behind the VStore wrapper) and the arrow readers; tables have a unique uid column plus 1-4 flat scalar columns; concurrency is at commit granularity (stale handles, retries off)."

def hist(text, ref, tech="model-based stateful property testing (proptest histories against a reference table model)", note=HIST_NOTE, cat="exploration"):
    return (tech, text, note, ref, cat)

CHECKS = {
 "C01": hist("A generated prefix history builds a table; a generated victim write is first run fault-free on a store snapshot (learning its N mutating storage calls, commit point and model post-state), then re-run from the snapshot with a crash-before / crash-after / fail-without-effect fault at generated calls k in [0,N]; after each fault a fresh process opens the table under a generated listing order and versions must be dense, old versions unchanged, new versions complete and validated, nothing visible before the commit point, Ok => latest. Conditional-put and rename-if-not-exists handlers, V1/V2 names.", "3 C01", tech="fault injection at every mutating storage call of a generated write + model comparison after recovery", cat="fault_enumeration"),
 "C03": hist("Histories where 55% of the steps run on a stale handle (executed at read version r, committed after the transactions published since r, lance retries off): a committed transaction must leave exactly its model effect (computed at r) applied on the latest model state, indexed and un-indexed scans agree, a failed one leaves the contents unchanged, and no two concurrent committed transactions modify the same row.", "3 C03", tech="stale-handle concurrency histories + model-based serial replay oracle"),
 "C04": hist("Delete / update / merge_insert (both update modes) racing through stale handles over generated overlapping and disjoint row sets: the uid set a committed stale transaction touched (model, at its read version) is disjoint from the sets of every transaction committed since; final table equals the model; failed transactions leave no trace.", "3 C04", tech="stale-handle concurrency histories + affected-row-set disjointness oracle"),
 "C05": hist("Generated histories of up to 12 public write/maintenance operations (incl. stale-handle concurrent ones); after every commit an independent well-formedness bundle (field ids, data-file fields, physical rows, deletion vectors, fragment ids, row id sequences, index fields, validate()) and a full model comparison run on the new version and a sampled old one.", "3 C05"),
 "C06": hist("Every version's model state, deletion count and index (name, uuid) list is fixed at commit time; after every later step (restore, overwrite, compaction, index ops, tags, rebased commits) every version is re-opened, alternating the warm session and a brand-new one, and must read the same.", "3 C06"),
 "C07": hist("Histories with frequent restore(v): the restored latest version equals v's model state, index names and uid->row id map and keeps the stable-row-id flag; over the whole history a row id is never re-bound to another uid; live row ids resolve to current values.", "3 C07"),
 "C12": hist("Generated delete / update / merge_insert (all when-matched / not-matched / by-source settings, full and sub-schema sources, duplicate and NULL keys, indexed or not) against an independent three-valued SQL evaluator: scan == model, rows_updated / MergeStats == model counts, count_rows(filter) and count_deleted_rows consistent, ambiguous merges and WhenMatched::Fail must fail without effect.", "4 C12", tech="model-based property testing with an independent three-valued SQL evaluator"),
 "C13": hist("Histories with compact_files under generated options and distributed compaction (plan -> generated subset/order of tasks -> one or two commits), with scalar indices and stable row ids on/off: contents unchanged (multiset), uid -> (row id, created_at, updated_at) unchanged across each compaction, indexed query panels equal un-indexed ones and the model.", "4 C13"),
 "C14": hist("Histories dominated by add_columns (all-null, SQL copy, SQL arithmetic), Dataset::merge left joins, alter (rename, nullability, lossless and lossy casts), drop and re-add of names, interleaved with writes: every step's full scan equals a model that tracks columns by identity; field ids unique.", "4 C14"),
 "C15": hist("After a generated history the ordered scan with _rowid/_rowaddr is the reference: every reported id/address resolves back to its row, and generated key lists (duplicates, inversions, runs, fragment boundaries, projections) fetched via take / take_rows / take by address / take_scan return the reference rows in request order with multiplicity.", "4 C15", tech="differential property testing: random access vs ordered reference scan (itself checked against the model)"),
 "C16": hist("Generated filters (typed grammar), projections, limit/offset, multi-key order_by and scanner knob settings on generated typed tables: result == independent three-valued evaluator (multiset / expected key window), every knob setting returns the default result, count_rows(filter) == rows returned, strict batches exact.", "4 C16", tech="differential (reference evaluator) + metamorphic (knob independence) property testing"),
 "C17": hist("Stable-row-id tables: the model keeps per uid the creation and last-update version per the documented rules; after every commit the version columns must equal it, and delta(begin,end) for ALL version pairs must return exactly the model's inserted / updated sets.", "4 C17"),
 "C18": hist("Stable-row-id histories incl. stale-handle writers and restores: no duplicate row ids, surviving uids keep their id through updates/upserts/compaction, take_rows(all live ids) returns current values, deleted ids resolve to nothing, ids are never re-bound.", "4 C18"),
 "C19": hist("BTree/Bitmap indices on columns of every scalar type incl. nullable ones and floats with NaN/-0.0, histories with unindexed tails, deletes, updates, compaction remaps, optimize: predicate panels (=,<>,<,<=,>,>=,[NOT] BETWEEN,[NOT] IN,NOT,IS [NOT] NULL) and generated predicate trees return the same uid set with and without the index (and the model's).", "5 C19", tech="metamorphic property testing (use_scalar_index on vs off) + model evaluator"),
 "C21": ("exhaustive small-universe enumeration + random set-program differential testing against an exact finite/co-finite set model",
         "All boolean trees of depth <=2 over <=2 mock index leaves with every exact/at-most/at-least assignment over a 2-id universe are enumerated (complete in thorough), plus sampled depth-4 trees over 3 leaves / 4 ids; RowIdTreeMap/RowIdMask programs are compared step by step with an exact set algebra model on boundary probes.",
         "Mock ScalarIndex honours its declared guarantee by construction; ranges are short so the model stays exact.", "5 C21", "exploration"),
 "C24": hist("create_index / optimize_indices racing (stale handles, both commit orders) with column-rewriting updates, sub-schema merge_insert, compaction: after every commit indexed-column query panels must equal the un-indexed scan and the model that knows the new values.", "5 C24", tech="stale-handle concurrency histories + index-vs-scan metamorphic oracle"),
 "C28": ("round-trip property testing with enumeration of all (type, bit width) pairs", "FSST: generated byte-string arrays (i32/i64 offsets, all byte values, repeats, incompressible data, sizes around the 32 KiB threshold, sliced offsets) with caller-sized buffers: compress errs or decompress reproduces bytes and offsets. Bit-packing: all 124 (T,W) pairs x patterns, unpack(pack(x)) == x.", "fsst uses OS randomness for sampling (compressed bytes vary, round trip must not); only the proptest driver is used, no cargo-fuzz campaign.", "6 C28", "exploration"),
 "C30": ("model-based property testing of range coalescing/splitting + schedule exploration on a paused-clock runtime with a gated store", "Generated sorted range lists (empty, overlapping, contained, adjacent, far) over generated files through FileScheduler and LanceEncodingsIo: one buffer per range with the file's bytes; 1-6 concurrent prioritised requests under generated completion orders, buffer budgets and scheduler drops must all resolve (virtual-time hang detection).", "LANCE_MAX_IOP_SIZE is a process-wide static: only the default is covered in-process; unsorted lists are reported, not asserted.", "7 C30", "exploration"),
 "C31": ("model-based property testing with fault injection into put / put_part / complete", "Generated write/flush sequences below, at and above the multipart threshold ending in shutdown, abort or drop, with an injected failure: after shutdown the object equals the concatenation and the reported size; nothing visible before; nothing left after failure/abort/drop.", "Cases capped at 26 MiB, the 10-part parallelism cap is not reached.", "7 C31", "exploration"),
 "C32": ("round-trip property testing over generated well-formed metadata values", "Manifest (write_manifest/read_manifest on a store), Transaction with all 15 Operation variants, IndexMetadata, DataFile/Fragment/DeletionFile (protobuf and JSON), RowIdSequence (all segment kinds), version sequences, deletion vectors in both file formats around the threshold, MemWAL details, tag/branch JSON: decode(encode(x)) == x incl. order-sensitive comparisons where the type's PartialEq ignores order.", "Values restricted to what the writers can produce (0 = unknown sentinels etc.).", "8 C32", "exploration"),
 "C33": ("round-trip property testing + generated directory layouts on the controlled store and the local file system", "u64 boundary and random versions round-trip through both naming schemes, detached names never parse as attached, V2 names sort descending; generated _versions directories (staging, temp, detached, junk files, generated listing orders) resolve to the highest attached version; V1->V2 migration preserves the version set and is idempotent.", "Stores never lie about their listing order.", "8 C33", "exploration"),
 "C34": ("model-based property testing against Vec<u64> + exhaustive small lists",
         "Row id sequences built from generated pieces (all five segment encodings, 2^32 boundaries, near u64::MAX) undergo generated delete/mask/slice/get/select/serde/rechunk/mask_to_offset_ranges/RowIdIndex operations; each result equals the same operation on a plain list. Lists over {0..7} up to length 3 (quick) / 4 (thorough) are enumerated completely.",
         "Ids are unique and < u64::MAX; select offsets and mask positions sorted (documented preconditions).", "8 C34", "exploration"),
 "C35": ("differential property testing against an f64 scalar reference with derived (Higham) error bounds; all lengths 0..=1100 enumerated", "l2/dot/cosine/norm/hamming single, batch and Arrow-batch kernels for f16/bf16/f32/f64/u8 agree with the scalar definition within gamma_n bounds (exact for hamming/u8); nearest-centroid helpers pick a centroid within the bound of the minimum, NaN never wins.", "Only kernels compiled for this CPU (no fp16kernels C code); comparisons skipped where overflow cannot be excluded.", "9 C35", "exploration"),
 "C36": ("model-based stateful property testing against a hierarchical map model", "Generated sequences of namespace/table create, drop, register, deregister, describe, exists and paged list calls over names from a delimiter/quote/slash/percent/unicode alphabet in directory, manifest and dual modes: every call is rejected without effect or behaves like a map from (namespace path, name) to table; operations on one id never affect another; accepted names round-trip; paging visits every entry once.", "Scratch directories on the local file system; after a listed known defect made catalog and model diverge the case ends.", "9 C36", "exploration"),
 "C37": ("exhaustive enumeration of flag words and version strings + table-level flag injection and generated histories", "All 2^6 known-bit words x unknown bits through can_read/can_write; all version variants / pairs / strings; flag words injected into real tables (open refused iff unknown reader bit; every write entry point must refuse unknown writer bits); after generated histories the written flags equal the function of the manifest contents; files carry the table's storage version.", "Flag injection rewrites the latest manifest through the public protobuf types.", "8 C37", "exploration"),
 "C39": hist("2-3 writers with stale handles run advance/append/seal/flush/merge/owner-change/trim/merge_insert-with-merge on 1-2 regions in generated orders: after every commit the MemWAL index satisfies the generation/state/trim invariants and no two concurrent changes of one generation both commit.", "9 C39", tech="stale-handle concurrency histories + state-machine invariant oracle", note="Concurrency at commit granularity via stale handles; create_mem_wal_generation with arbitrary numbers is not generated."),
 "C40": ("model-based property testing on a plain value tree", "Generated nested arrow arrays (sliced, nulls at every level, garbage behind nulls): merge / merge_with_schema / project_by_schema / take / deep copy / filter_garbage_nulls / trimmed_values / normalize_slicing / pushdown_nulls equal the model on a Value tree plus their physical post-conditions; JSON encode/decode and json path / extract UDFs equal serde_json.", "merge is asserted only for its documented (non-nested) behaviour.", "9 C40", "exploration"),
 "C41": ("model-based property testing with generated reader/writer interleavings", "Replay spill: generated batch sequences, memory limits and readers opened before/during/after writing, polled in a generated interleaving: every reader sees exactly the written batches (or the sent error after a prefix). Chunkers: exact sizes except the last, concatenation == input.", "After send_error only a prefix followed by the error is required.", "9 C41", "exploration"),
 "C43": ("model-based property testing against a field-id set model", "Generated nested schemas (names with dots, backticks, unicode, case variants; custom ids with holes) under project / project_by_ids / exclude / intersection / merge and Projection union/subtract/intersect sequences equal the set operations on field ids closed under ancestors; kept fields keep all attributes; path quoting round-trips; Arrow and protobuf conversions are identities.", "Field order is not compared.", "8 C43", "exploration"),
}

NOT_APPLICABLE = {}

def main():
    props = [json.loads(l) for l in open('/verif/properties.jsonl')]
    ids = [p['id'] for p in props]
    checks = []
    for pid in ids:
        if pid not in CHECKS:
            continue
        tech, text, note, ref, cat = CHECKS[pid]
        checks.append({
            "property_id": pid,
            "quick_cmd": f"./check {pid} quick",
            "thorough_cmd": f"./check {pid} thorough",
            "evidence_file": f"/verif/evidence/{pid}.json",
            "replay_cmd_template": f"./check {pid} quick --replay {{path}}",
            "engine": "lv",
            "level_claimed": {"category": cat, "text": text, "design_ref": "DESIGN.md section " + ref},
            "level_note": note,
            "technique": tech,
        })
    na = []
    for pid in ids:
        if pid not in CHECKS:
            na.append({"property_id": pid, "reason": NOT_APPLICABLE.get(pid, "check not built yet in this session (the technique applies; see DESIGN.md for the planned generator and oracle)")})
    m = {
        "version": 1,
        "setup_cmd": "cd /verif/harness && CARGO_NET_OFFLINE=true cargo build --offline --bin lv",
        "hooks": {
            "guard": "lance_verif",
            "enable": "RUSTFLAGS --cfg lance_verif (set in /verif/harness/.cargo/config.toml); no hook code exists in /repo, the guard is reserved",
            "baseline_off_cmd": "cd /repo && cargo nextest run --workspace --no-fail-fast --offline || cargo test --workspace --no-fail-fast --offline",
            "source_commits": [],
            "add_only": True,
        },
        "engines": [{
            "name": "lv",
            "path": "/verif/harness",
            "serves_properties": [c["property_id"] for c in checks],
            "kind_free_text": "Rust binary: proptest TestRunner sharded over worker threads, replay files, known-findings handling, evidence writer; links /repo's crates through path dependencies so every check rebuilds from the current tree",
        }],
        "checks": checks,
        "not_applicable": na,
        "notes": "exit 0 = held on everything explored, 1 = VIOLATION line printed, 2 = inconclusive (build failure, watchdog). VERIF_SEED selects the PRNG seed. Genuine defects found and repaired are listed in known_findings.jsonl (status fixed) with their regression replays under replays/.",
    }
    json.dump(m, open('/verif/MANIFEST.json', 'w'), indent=1)
    print(f"{len(checks)} checks, {len(na)} not claimed")

main()
