#!/usr/bin/env python3
"""Regenerates MANIFEST.json from the table below (kept next to the checks so the two stay in sync)."""
import json, sys

CHECKS = {
 # id: (technique, level text, level note, design_ref)
 "C05": ("model-based stateful property testing (proptest histories + invariant bundle after every commit)",
         "Generated histories of up to 12 public write/maintenance operations (incl. stale-handle concurrent ones) on an in-memory object store; after every commit an independent well-formedness bundle (field ids, data-file fields, physical rows, deletion vectors, fragment ids, row id sequences, index fields, validate()) and a full model comparison run on the new version and a sampled old one. Exploration: bounded histories, no absence proof.",
         "Trusts the in-memory object_store implementation and arrow readers; schemas limited to flat scalar columns plus uid.", "§3 C05"),
 "C21": ("exhaustive small-universe enumeration + random set-program differential testing against an exact finite/co-finite set model",
         "All boolean trees of depth <=2 over <=2 mock index leaves with every exact/at-most/at-least assignment over a 2-id universe are enumerated (complete in thorough), plus sampled depth-4 trees over 3 leaves / 4 ids; RowIdTreeMap/RowIdMask programs are compared step by step with an exact set algebra model on boundary probes.",
         "Mock ScalarIndex honours its declared guarantee by construction; ranges are short so the model stays exact.", "§5 C21"),
 "C34": ("model-based property testing against Vec<u64> + exhaustive small lists",
         "Row id sequences built from generated pieces (all five segment encodings, 2^32 boundaries, near u64::MAX) undergo generated delete/mask/slice/get/select/serde/rechunk/mask_to_offset_ranges/RowIdIndex operations; each result equals the same operation on a plain list. Lists over {0..7} up to length 3 (quick) / 4 (thorough) are enumerated completely.",
         "Ids are unique and < u64::MAX; select offsets and mask positions sorted (documented preconditions).", "§8 C34"),
}

NOT_APPLICABLE = {}

def main():
    props = [json.loads(l) for l in open('/verif/properties.jsonl')]
    ids = [p['id'] for p in props]
    checks = []
    for pid in ids:
        if pid not in CHECKS:
            continue
        tech, text, note, ref = CHECKS[pid]
        checks.append({
            "property_id": pid,
            "quick_cmd": f"./check {pid} quick",
            "thorough_cmd": f"./check {pid} thorough",
            "evidence_file": f"/verif/evidence/{pid}.json",
            "replay_cmd_template": f"./check {pid} quick --replay {{path}}",
            "engine": "lv",
            "level_claimed": {"category": "exploration", "text": text, "design_ref": ref},
            "level_note": note,
            "technique": tech,
        })
    na = []
    for pid in ids:
        if pid not in CHECKS:
            na.append({"property_id": pid, "reason": NOT_APPLICABLE.get(pid, "check not built yet in this session (the technique applies; see DESIGN.md for the planned generator and oracle)")})
    m = {
        "version": 1,
        "setup_cmd": "cd /verif/harness && CARGO_NET_OFFLINE=true cargo build --offline --bin lv",
        "hooks": {
            "guard": "lance_verif",
            "enable": "RUSTFLAGS --cfg lance_verif (set in /verif/harness/.cargo/config.toml); no hook code exists in /repo, the guard is reserved",
            "baseline_off_cmd": "cd /repo && cargo nextest run --workspace --no-fail-fast --offline || cargo test --workspace --no-fail-fast --offline",
            "source_commits": [],
            "add_only": True,
        },
        "engines": [{
            "name": "lv",
            "path": "/verif/harness",
            "serves_properties": [c["property_id"] for c in checks],
            "kind_free_text": "Rust binary: proptest TestRunner sharded over worker threads, replay files, known-findings handling, evidence writer; links /repo's crates through path dependencies so every check rebuilds from the current tree",
        }],
        "checks": checks,
        "not_applicable": na,
        "notes": "exit 0 = held on everything explored, 1 = VIOLATION line printed, 2 = inconclusive (build failure, watchdog). VERIF_SEED selects the PRNG seed. Genuine defects found and repaired are listed in known_findings.jsonl (status fixed) with their regression replays under replays/.",
    }
    json.dump(m, open('/verif/MANIFEST.json', 'w'), indent=1)
    print(f"{len(checks)} checks, {len(na)} not claimed")

main()
