//! Generic property-based-testing engine: seeds, tiers, sharding, replay,
//! known findings, evidence.  See /verif/DESIGN.md §1.1.

use proptest::strategy::{BoxedStrategy, Strategy};
use proptest::test_runner::{Config, RngAlgorithm, TestCaseError, TestError, TestRng, TestRunner};
use serde::de::DeserializeOwned;
use serde::Serialize;
use serde_json::{json, Value};
use std::collections::{BTreeMap, HashSet};
use std::fmt::Debug;
use std::hash::{Hash, Hasher};
use std::panic::{catch_unwind, AssertUnwindSafe};
use std::path::{Path, PathBuf};
use std::sync::atomic::{AtomicBool, AtomicU64, Ordering};
use std::sync::{Arc, Mutex};
use std::time::Instant;

pub const VERIF_ROOT: &str = "/verif";

#[derive(Clone, Copy, Debug, PartialEq, Eq)]
pub enum Tier {
    Quick,
    Thorough,
}

impl Tier {
    pub fn name(&self) -> &'static str {
        match self {
            Tier::Quick => "quick",
            Tier::Thorough => "thorough",
        }
    }
    /// pick by tier
    pub fn pick<T>(&self, quick: T, thorough: T) -> T {
        match self {
            Tier::Quick => quick,
            Tier::Thorough => thorough,
        }
    }
}

/// A property failure.  `kind` is a short, stable signature (used to match
/// known findings); `msg` is the human readable detail.
#[derive(Clone, Debug)]
pub struct Failure {
    pub kind: String,
    pub msg: String,
}

impl Failure {
    pub fn new(kind: impl Into<String>, msg: impl Into<String>) -> Self {
        Self {
            kind: kind.into(),
            msg: msg.into(),
        }
    }
}

pub type CheckResult = Result<(), Failure>;

#[macro_export]
macro_rules! fail {
    ($kind:expr, $($arg:tt)*) => {
        return Err($crate::engine::Failure::new($kind, format!($($arg)*)))
    };
}

#[macro_export]
macro_rules! ensure {
    ($cond:expr, $kind:expr, $($arg:tt)*) => {
        if !($cond) {
            return Err($crate::engine::Failure::new($kind, format!($($arg)*)));
        }
    };
}

/// What one case reports about itself.
#[derive(Default, Debug)]
pub struct Obs {
    pub labels: Vec<String>,
    pub nontrivial: Option<String>,
    /// (finding id, detail): the case hit a *listed* known finding and the
    /// oracle skipped exactly that discrepancy.
    pub known_hits: Vec<(String, String)>,
    /// operations rejected cleanly by lance (counted, not violations)
    pub rejected: u64,
    /// sub-evaluations performed by this case (e.g. crash points, queries)
    pub inner: u64,
}

impl Obs {
    pub fn label(&mut self, l: impl Into<String>) {
        let l = l.into();
        if !self.labels.contains(&l) {
            self.labels.push(l);
        }
    }
    /// mark the case as non-trivial with a key; distinct keys are counted
    pub fn nontrivial(&mut self, key: impl Into<String>) {
        self.nontrivial = Some(key.into());
    }
    pub fn known_hit(&mut self, id: &str, detail: impl Into<String>) {
        self.known_hits.push((id.to_string(), detail.into()));
    }
}

/// Environment handed to every check.
pub struct Env {
    pub tier: Tier,
    pub rt: tokio::runtime::Runtime,
    /// ids of known findings that are listed *and* still reproduce
    pub active_known: HashSet<String>,
    /// strict mode (replay of known findings): no discrepancy is skipped
    pub strict: bool,
    pub worker: usize,
    pub scratch: PathBuf,
    case_ctr: AtomicU64,
}

impl Env {
    pub fn new(tier: Tier, worker: usize, active_known: HashSet<String>, strict: bool) -> Self {
        let rt = tokio::runtime::Builder::new_current_thread()
            .enable_all()
            .build()
            .unwrap();
        let scratch = scratch_root().join(format!("w{}", worker));
        Self {
            tier,
            rt,
            active_known,
            strict,
            worker,
            scratch,
            case_ctr: AtomicU64::new(0),
        }
    }
    /// Is `id` a listed known finding whose discrepancy the oracle may skip?
    pub fn known(&self, id: &str) -> bool {
        !self.strict && self.active_known.contains(id)
    }
    /// a unique number per call (for table names etc.; not random)
    pub fn next_id(&self) -> u64 {
        self.case_ctr.fetch_add(1, Ordering::Relaxed)
    }
    pub fn block_on<F: std::future::Future>(&self, f: F) -> F::Output {
        self.rt.block_on(f)
    }
    /// fresh, empty scratch directory for this case
    pub fn fresh_dir(&self) -> PathBuf {
        let d = self.scratch.join(format!("c{}", self.next_id()));
        let _ = std::fs::remove_dir_all(&d);
        std::fs::create_dir_all(&d).unwrap();
        d
    }
}

pub fn scratch_root() -> PathBuf {
    std::env::var("VERIF_SCRATCH")
        .map(PathBuf::from)
        // one directory per process: concurrent runs must not wipe each other's files
        .unwrap_or_else(|_| PathBuf::from(VERIF_ROOT).join(".scratch").join(format!("p{}", std::process::id())))
}

/// One property = generator + oracle + classifier.
pub trait Property: Send + Sync + 'static {
    type Input: Clone + Debug + Serialize + DeserializeOwned + Send + Sync + 'static;

    fn id(&self) -> &'static str;
    /// evidence level (exploration unless stated)
    fn level(&self) -> &'static str {
        "exploration"
    }
    fn rule(&self) -> String;
    fn assumptions(&self) -> Vec<String> {
        vec![]
    }
    /// number of generated cases for the tier
    fn cases(&self, tier: Tier) -> u32;
    fn strategy(&self, tier: Tier) -> BoxedStrategy<Self::Input>;
    /// enumerated (exhaustive) cases run before the random ones
    fn enumerate(&self, _tier: Tier) -> Vec<Self::Input> {
        vec![]
    }
    /// true if `enumerate` covers a finite space completely
    fn enumeration_is_exhaustive(&self, _tier: Tier) -> bool {
        false
    }
    fn max_shrink_iters(&self) -> u32 {
        400
    }
    fn workers(&self, tier: Tier) -> usize {
        tier.pick(8, 16)
    }
    /// per-case watchdog in seconds
    fn watchdog_s(&self) -> u64 {
        600
    }
    fn check(&self, input: &Self::Input, obs: &mut Obs, env: &Env) -> CheckResult;
    /// short rendering of a case for the evidence samples
    fn render(&self, input: &Self::Input) -> Value {
        let v = serde_json::to_value(input).unwrap_or(Value::Null);
        truncate_json(v, 1500)
    }
}

pub fn truncate_json(v: Value, max: usize) -> Value {
    let s = v.to_string();
    if s.len() <= max {
        v
    } else {
        let mut cut = max;
        while !s.is_char_boundary(cut) {
            cut -= 1;
        }
        Value::String(format!("{}…(+{} bytes)", &s[..cut], s.len() - cut))
    }
}

// ---------------------------------------------------------------------------
// known findings

#[derive(Clone, Debug, serde::Deserialize)]
pub struct Finding {
    pub property: String,
    pub id: String,
    /// "known" or "fixed"
    pub status: String,
    /// Failure.kind the replay is expected to produce while the defect exists
    #[serde(default)]
    pub signature: String,
    /// path relative to /verif
    #[serde(default)]
    pub replay: String,
    #[serde(default)]
    pub what: String,
    #[serde(default)]
    pub commit: String,
    /// other properties whose generators must exclude the same defect (no replay is run for them)
    #[serde(default)]
    pub also: Vec<String>,
    /// the replay only fails under some thread timings inside lance (which the harness does not control): it is attempted
    /// several times, and the finding stays listed (and its exclusion on) even when no attempt reproduces it
    #[serde(default)]
    pub timing_dependent: bool,
    /// for timing-dependent panics that cannot be excluded by construction: a panic whose message contains this text is
    /// attributed to this finding (the case ends as a known hit) while the finding is listed and active
    #[serde(default)]
    pub panic_contains: String,
}

pub fn load_findings(prop: &str) -> Vec<Finding> {
    let p = Path::new(VERIF_ROOT).join("known_findings.jsonl");
    let Ok(s) = std::fs::read_to_string(p) else {
        return vec![];
    };
    s.lines()
        .filter(|l| !l.trim().is_empty() && !l.trim_start().starts_with('#'))
        .filter_map(|l| match serde_json::from_str::<Finding>(l) {
            Ok(f) => Some(f),
            Err(e) => {
                eprintln!("known_findings.jsonl: bad line ({e}): {l}");
                None
            }
        })
        .filter(|f| f.property == prop || f.also.iter().any(|a| a == prop))
        .collect()
}

// ---------------------------------------------------------------------------
// dyn adapter

pub trait DynProp: Send + Sync {
    fn id(&self) -> &'static str;
    fn run(&self, opts: &RunOpts) -> i32;
}

#[derive(Clone, Debug)]
pub struct RunOpts {
    pub tier: Tier,
    pub seed: u64,
    pub replay: Option<PathBuf>,
    pub cases_override: Option<u32>,
    pub strict: bool,
    pub no_evidence: bool,
}

struct Shared {
    evaluations: AtomicU64,
    inner: AtomicU64,
    rejected: AtomicU64,
    stop: AtomicBool,
    nontrivial: Mutex<HashSet<u64>>,
    classes: Mutex<BTreeMap<String, u64>>,
    known_hits: Mutex<BTreeMap<String, (u64, String)>>,
    samples: Mutex<Vec<Value>>,
    nt_samples: Mutex<Vec<Value>>,
    // (worker -> case start) for the watchdog
    started: Mutex<Vec<Option<Instant>>>,
}

fn hash_str(s: &str) -> u64 {
    let mut h = std::collections::hash_map::DefaultHasher::new();
    s.hash(&mut h);
    h.finish()
}

pub fn mix_seed(seed: u64, prop: &str, worker: usize) -> [u8; 32] {
    let mut out = [0u8; 32];
    let mut x = seed ^ hash_str(prop).rotate_left(17) ^ ((worker as u64 + 1).wrapping_mul(0x9E37_79B9_7F4A_7C15));
    for chunk in out.chunks_mut(8) {
        // splitmix64
        x = x.wrapping_add(0x9E37_79B9_7F4A_7C15);
        let mut z = x;
        z = (z ^ (z >> 30)).wrapping_mul(0xBF58_476D_1CE4_E5B9);
        z = (z ^ (z >> 27)).wrapping_mul(0x94D0_49BB_1331_11EB);
        z ^= z >> 31;
        chunk.copy_from_slice(&z.to_le_bytes());
    }
    out
}

thread_local! {
    /// ids of the known findings active for the case being checked (empty in strict mode)
    pub static ACTIVE_KNOWN: std::cell::RefCell<HashSet<String>> = std::cell::RefCell::new(HashSet::new());
}

thread_local! {
    static LAST_PANIC: std::cell::RefCell<Option<String>> = const { std::cell::RefCell::new(None) };
}

/// (finding id, text) of the listed findings that are identified by their panic message
fn panic_patterns() -> &'static Vec<(String, String)> {
    static P: std::sync::OnceLock<Vec<(String, String)>> = std::sync::OnceLock::new();
    P.get_or_init(|| {
        let p = Path::new(VERIF_ROOT).join("known_findings.jsonl");
        let Ok(s) = std::fs::read_to_string(p) else { return vec![] };
        s.lines().filter_map(|l| serde_json::from_str::<Finding>(l).ok()).filter(|f| f.status == "known" && !f.panic_contains.is_empty()).map(|f| (f.id, f.panic_contains)).collect()
    })
}

pub fn install_panic_hook() {
    std::panic::set_hook(Box::new(|info| {
        let loc = info
            .location()
            .map(|l| format!("{}:{}", l.file(), l.line()))
            .unwrap_or_default();
        let payload = if let Some(s) = info.payload().downcast_ref::<&str>() {
            s.to_string()
        } else if let Some(s) = info.payload().downcast_ref::<String>() {
            s.clone()
        } else {
            "<non-string panic>".to_string()
        };
        let m = format!("{payload} @ {loc}");
        if std::env::var("VERIF_SHOW_PANICS").is_ok() {
            eprintln!("[panic] {m}");
        }
        LAST_PANIC.with(|p| *p.borrow_mut() = Some(m));
    }));
}

/// Run a check, converting panics into failures of kind "panic".
fn guarded<P: Property>(p: &P, input: &P::Input, obs: &mut Obs, env: &Env) -> CheckResult {
    LAST_PANIC.with(|p| *p.borrow_mut() = None);
    ACTIVE_KNOWN.with(|k| *k.borrow_mut() = if env.strict { HashSet::new() } else { env.active_known.clone() });
    match catch_unwind(AssertUnwindSafe(|| p.check(input, obs, env))) {
        Ok(r) => r,
        Err(e) => {
            let payload = if let Some(s) = e.downcast_ref::<&str>() {
                s.to_string()
            } else if let Some(s) = e.downcast_ref::<String>() {
                s.clone()
            } else {
                "<non-string panic>".into()
            };
            let m = LAST_PANIC
                .with(|p| p.borrow_mut().take())
                .unwrap_or(payload);
            if !env.strict {
                if let Some((id, _)) = panic_patterns().iter().find(|(id, pat)| env.active_known.contains(id) && m.contains(pat.as_str())) {
                    obs.known_hit(id, format!("panic attributed to the listed finding: {m}"));
                    return Ok(());
                }
            }
            Err(Failure::new("panic", m))
        }
    }
}

pub struct Adapter<P: Property>(pub Arc<P>);

impl<P: Property> Adapter<P> {
    fn record(&self, shared: &Shared, input: &P::Input, obs: &Obs, worker: usize) {
        let n = shared.evaluations.fetch_add(1, Ordering::Relaxed);
        shared.inner.fetch_add(obs.inner, Ordering::Relaxed);
        shared.rejected.fetch_add(obs.rejected, Ordering::Relaxed);
        {
            let mut c = shared.classes.lock().unwrap();
            for l in &obs.labels {
                *c.entry(l.clone()).or_insert(0) += 1;
            }
        }
        if let Some(k) = &obs.nontrivial {
            let fresh = shared.nontrivial.lock().unwrap().insert(hash_str(k));
            if fresh {
                let mut s = shared.nt_samples.lock().unwrap();
                if s.len() < 3 {
                    s.push(json!({"nontrivial_key": k, "case": self.0.render(input)}));
                }
            }
        }
        for (id, detail) in &obs.known_hits {
            let mut k = shared.known_hits.lock().unwrap();
            let e = k.entry(id.clone()).or_insert((0, detail.clone()));
            e.0 += 1;
        }
        if worker == 0 && n < 64 {
            let mut s = shared.samples.lock().unwrap();
            if s.len() < 3 {
                s.push(self.0.render(input));
            }
        }
    }
}

fn write_replay<I: Serialize>(prop: &str, input: &I, failure: &Failure) -> PathBuf {
    // VERIF_VIOL_DIR / VERIF_EVIDENCE_DIR redirect what a run WRITES (used when the harness is pointed at a scratch
    // copy of the repository); known findings and pinned replays are always read from /verif
    let dir = std::env::var("VERIF_VIOL_DIR").map(PathBuf::from).unwrap_or_else(|_| Path::new(VERIF_ROOT).join("replays")).join(prop);
    let _ = std::fs::create_dir_all(&dir);
    let body = json!({
        "property": prop,
        "failure_kind": failure.kind,
        "failure_msg": failure.msg,
        "input": input,
    });
    let text = serde_json::to_string_pretty(&body).unwrap();
    let name = format!("viol-{:016x}.json", hash_str(&serde_json::to_string(&body["input"]).unwrap()));
    let path = dir.join(name);
    std::fs::write(&path, text).unwrap();
    path
}

pub fn read_replay<I: DeserializeOwned>(path: &Path) -> Result<I, String> {
    let s = std::fs::read_to_string(path).map_err(|e| format!("{}: {e}", path.display()))?;
    let v: Value = serde_json::from_str(&s).map_err(|e| format!("{}: {e}", path.display()))?;
    let inp = v.get("input").cloned().unwrap_or(v);
    serde_json::from_value(inp).map_err(|e| format!("{}: {e}", path.display()))
}

impl<P: Property> DynProp for Adapter<P> {
    fn id(&self) -> &'static str {
        self.0.id()
    }

    fn run(&self, opts: &RunOpts) -> i32 {
        let p = &self.0;
        let id = p.id();
        let t0 = Instant::now();
        let tier = opts.tier;

        // -- explicit replay of one file -------------------------------
        if let Some(path) = &opts.replay {
            let input: P::Input = match read_replay(path) {
                Ok(i) => i,
                Err(e) => {
                    eprintln!("cannot read replay: {e}");
                    return 2;
                }
            };
            let env = Env::new(tier, 0, HashSet::new(), true);
            let mut obs = Obs::default();
            return match guarded(&**p, &input, &mut obs, &env) {
                Ok(()) => {
                    println!("replay {}: property held (labels {:?})", path.display(), obs.labels);
                    0
                }
                Err(f) => {
                    println!("replay {}: FAILED kind={} msg={}", path.display(), f.kind, f.msg);
                    println!("VIOLATION property={} replay={}", id, path.display());
                    1
                }
            };
        }

        let mut violations: Vec<(PathBuf, Failure)> = vec![];
        let mut known_lines: Vec<String> = vec![];
        let mut replayed: Vec<Value> = vec![];

        // -- known findings: replay each in strict mode ----------------
        let findings = load_findings(id);
        let mut active: HashSet<String> = HashSet::new();
        {
            let env = Env::new(tier, 0, HashSet::new(), true);
            for f in &findings {
                if f.property != id {
                    // listed under another property (whose check replays it); here only the generator exclusion applies
                    if f.status == "known" {
                        known_lines.push(format!("KNOWN-FINDING: property={} {} [{}; replayed by the {} check]", id, f.what, f.id, f.property));
                        active.insert(f.id.clone());
                    }
                    continue;
                }
                if f.replay.is_empty() {
                    continue;
                }
                let path = Path::new(VERIF_ROOT).join(&f.replay);
                let input: P::Input = match read_replay(&path) {
                    Ok(i) => i,
                    Err(e) => {
                        eprintln!("INCONCLUSIVE: cannot read replay of finding {}: {e}", f.id);
                        return 2;
                    }
                };
                let mut obs = Obs::default();
                let mut r = guarded(&**p, &input, &mut obs, &env);
                if f.timing_dependent && f.status == "known" {
                    let mut attempts = 1;
                    while r.is_ok() && attempts < 8 {
                        r = guarded(&**p, &input, &mut obs, &env);
                        attempts += 1;
                    }
                    if r.is_ok() {
                        known_lines.push(format!("KNOWN-FINDING: property={} {} [{}; timing dependent, not reproduced in {attempts} attempts of its replay]", id, f.what, f.id));
                        active.insert(f.id.clone());
                        replayed.push(json!({"file": f.replay, "finding": f.id, "result": format!("timing dependent: not reproduced in {attempts} attempts; stays listed")}));
                        continue;
                    }
                }
                match (f.status.as_str(), r) {
                    ("known", Err(fl)) if fl.kind == f.signature => {
                        known_lines.push(format!("KNOWN-FINDING: property={} {} [{}]", id, f.what, f.id));
                        active.insert(f.id.clone());
                        replayed.push(json!({"file": f.replay, "finding": f.id, "result": "still fails (listed)", "kind": fl.kind}));
                    }
                    ("known", Err(fl)) => {
                        // fails differently from what is listed: a different violation
                        replayed.push(json!({"file": f.replay, "finding": f.id, "result": "fails with another kind", "kind": fl.kind}));
                        violations.push((path.clone(), fl));
                    }
                    ("known", Ok(())) => {
                        replayed.push(json!({"file": f.replay, "finding": f.id, "result": "no longer reproduces; exclusion off"}));
                    }
                    (_, Err(fl)) => {
                        // fixed finding came back
                        replayed.push(json!({"file": f.replay, "finding": f.id, "result": "FIXED FINDING RETURNED", "kind": fl.kind}));
                        violations.push((path.clone(), fl));
                    }
                    (_, Ok(())) => {
                        replayed.push(json!({"file": f.replay, "finding": f.id, "result": "holds (fixed)"}));
                    }
                }
            }
            // -- pinned regression inputs: replays/<id>/reg-*.json must pass
            let dir = Path::new(VERIF_ROOT).join("replays").join(id);
            if let Ok(rd) = std::fs::read_dir(&dir) {
                let mut files: Vec<PathBuf> = rd.filter_map(|e| e.ok()).map(|e| e.path()).collect();
                files.sort();
                for path in files {
                    let name = path.file_name().unwrap().to_string_lossy().to_string();
                    if !name.starts_with("reg-") || !name.ends_with(".json") {
                        continue;
                    }
                    let input: P::Input = match read_replay(&path) {
                        Ok(i) => i,
                        Err(e) => {
                            eprintln!("INCONCLUSIVE: cannot read {e}");
                            return 2;
                        }
                    };
                    let mut env2 = Env::new(tier, 0, active.clone(), opts.strict);
                    env2.scratch = env.scratch.clone();
                    let mut obs = Obs::default();
                    match guarded(&**p, &input, &mut obs, &env2) {
                        Ok(()) => replayed.push(json!({"file": format!("replays/{id}/{name}"), "result": "holds"})),
                        Err(fl) => {
                            replayed.push(json!({"file": format!("replays/{id}/{name}"), "result": "FAILED", "kind": fl.kind}));
                            violations.push((path.clone(), fl));
                        }
                    }
                }
            }
        }

        // -- generated search -------------------------------------------
        let shared = Arc::new(Shared {
            evaluations: AtomicU64::new(0),
            inner: AtomicU64::new(0),
            rejected: AtomicU64::new(0),
            stop: AtomicBool::new(false),
            nontrivial: Mutex::new(HashSet::new()),
            classes: Mutex::new(BTreeMap::new()),
            known_hits: Mutex::new(BTreeMap::new()),
            samples: Mutex::new(vec![]),
            nt_samples: Mutex::new(vec![]),
            started: Mutex::new(vec![]),
        });
        let workers = std::env::var("VERIF_WORKERS")
            .ok()
            .and_then(|s| s.parse().ok())
            .unwrap_or_else(|| p.workers(tier))
            .max(1);
        shared.started.lock().unwrap().resize(workers, None);
        let total_cases = opts.cases_override.unwrap_or_else(|| p.cases(tier));
        let enumerated = p.enumerate(tier);
        let n_enum = enumerated.len();
        let enumerated = Arc::new(enumerated);
        let found: Arc<Mutex<Vec<(Value, Failure, PathBuf)>>> = Arc::new(Mutex::new(vec![]));
        let done = Arc::new(AtomicBool::new(false));

        // watchdog
        {
            let shared = shared.clone();
            let done = done.clone();
            let limit = p.watchdog_s();
            std::thread::spawn(move || loop {
                std::thread::sleep(std::time::Duration::from_secs(2));
                if done.load(Ordering::Relaxed) {
                    return;
                }
                let st = shared.started.lock().unwrap();
                for (w, s) in st.iter().enumerate() {
                    if let Some(t) = s {
                        if t.elapsed().as_secs() > limit {
                            println!("INCONCLUSIVE: watchdog: worker {w} case exceeded {limit}s");
                            std::process::exit(2);
                        }
                    }
                }
            });
        }

        let mut handles = vec![];
        for w in 0..workers {
            let p = p.clone();
            let this = Adapter(p.clone());
            let shared = shared.clone();
            let found = found.clone();
            let enumerated = enumerated.clone();
            let active = active.clone();
            let strict = opts.strict;
            let seed = opts.seed;
            let cases_w = total_cases / workers as u32 + if (w as u32) < total_cases % workers as u32 { 1 } else { 0 };
            let h = std::thread::Builder::new()
                .name(format!("w{w}"))
                .stack_size(64 << 20)
                .spawn(move || {
                    let env = Env::new(tier, w, active, strict);
                    let _ = std::fs::remove_dir_all(&env.scratch);
                    // enumerated share
                    for (i, input) in enumerated.iter().enumerate() {
                        if i % workers != w {
                            continue;
                        }
                        if shared.stop.load(Ordering::Relaxed) {
                            break;
                        }
                        shared.started.lock().unwrap()[w] = Some(Instant::now());
                        let mut obs = Obs::default();
                        let r = guarded(&*p, input, &mut obs, &env);
                        shared.started.lock().unwrap()[w] = None;
                        this.record(&shared, input, &obs, w);
                        if let Err(f) = r {
                            shared.stop.store(true, Ordering::Relaxed);
                            let path = write_replay(p.id(), input, &f);
                            found.lock().unwrap().push((p.render(input), f, path));
                            return;
                        }
                    }
                    if cases_w == 0 {
                        return;
                    }
                    let config = Config {
                        cases: cases_w,
                        failure_persistence: None,
                        max_shrink_iters: p.max_shrink_iters(),
                        max_global_rejects: 1 << 20,
                        max_local_rejects: 1 << 20,
                        ..Config::default()
                    };
                    let rng = TestRng::from_seed(RngAlgorithm::ChaCha, &mix_seed(seed, p.id(), w));
                    let mut runner = TestRunner::new_with_rng(config, rng);
                    let strat = p.strategy(tier);
                    let failed_once = AtomicBool::new(false);
                    let last_fail: Mutex<Option<(P::Input, Failure)>> = Mutex::new(None);
                    let res = runner.run(&strat, |input| {
                        let counting = !failed_once.load(Ordering::Relaxed);
                        if counting && shared.stop.load(Ordering::Relaxed) {
                            // another worker found a failure: finish quickly
                            return Ok(());
                        }
                        shared.started.lock().unwrap()[w] = Some(Instant::now());
                        let mut obs = Obs::default();
                        let r = guarded(&*p, &input, &mut obs, &env);
                        shared.started.lock().unwrap()[w] = None;
                        if counting {
                            this.record(&shared, &input, &obs, w);
                        }
                        match r {
                            Ok(()) => Ok(()),
                            Err(f) => {
                                failed_once.store(true, Ordering::Relaxed);
                                shared.stop.store(true, Ordering::Relaxed);
                                let kind = f.kind.clone();
                                *last_fail.lock().unwrap() = Some((input.clone(), f));
                                Err(TestCaseError::fail(kind))
                            }
                        }
                    });
                    match res {
                        Ok(()) => {}
                        Err(TestError::Fail(_, input)) => {
                            // re-run the shrunk case to get its failure
                            let mut obs = Obs::default();
                            match guarded(&*p, &input, &mut obs, &env) {
                                Err(f) => {
                                    let path = write_replay(p.id(), &input, &f);
                                    found.lock().unwrap().push((p.render(&input), f, path));
                                }
                                Ok(()) => {
                                    // not reproducible on re-run: report the last failing input seen
                                    let (inp, f0) = last_fail.lock().unwrap().take().unwrap_or((input.clone(), Failure::new("flaky", "no failure recorded")));
                                    let mut again = 0;
                                    for _ in 0..5 {
                                        let mut o = Obs::default();
                                        if guarded(&*p, &inp, &mut o, &env).is_err() {
                                            again += 1;
                                        }
                                    }
                                    let f = Failure::new(format!("flaky:{}", f0.kind), format!("failed once, then {again}/5 on re-runs: {}", f0.msg));
                                    let path = write_replay(p.id(), &inp, &f);
                                    found.lock().unwrap().push((p.render(&inp), f, path));
                                }
                            }
                        }
                        Err(TestError::Abort(r)) => {
                            eprintln!("INCONCLUSIVE: proptest aborted: {r}");
                            std::process::exit(2);
                        }
                    }
                    let _ = std::fs::remove_dir_all(&env.scratch);
                })
                .unwrap();
            handles.push(h);
        }
        let mut worker_panicked = false;
        for h in handles {
            if h.join().is_err() {
                worker_panicked = true;
            }
        }
        done.store(true, Ordering::Relaxed);
        if worker_panicked {
            println!("INCONCLUSIVE: a worker thread of the harness itself panicked");
            return 2;
        }

        let mut found_v = vec![];
        for (rendered, f, path) in found.lock().unwrap().drain(..) {
            found_v.push(json!({"kind": f.kind, "msg": truncate_str(&f.msg, 2000), "replay": path, "case": rendered}));
            violations.push((path, f));
        }

        // -- evidence ----------------------------------------------------
        let evaluations = shared.evaluations.load(Ordering::Relaxed);
        let distinct_nt = shared.nontrivial.lock().unwrap().len() as u64;
        let classes = shared.classes.lock().unwrap().clone();
        let known_hits: BTreeMap<String, Value> = shared
            .known_hits
            .lock()
            .unwrap()
            .iter()
            .map(|(k, (n, d))| (k.clone(), json!({"cases": n, "first": truncate_str(d, 400)})))
            .collect();
        let mut samples = shared.samples.lock().unwrap().clone();
        samples.extend(shared.nt_samples.lock().unwrap().iter().cloned());
        let wall = t0.elapsed().as_secs_f64();
        let exhaustive = p.enumeration_is_exhaustive(tier) && total_cases == 0;
        let mut coverage = json!({
            "evaluations": evaluations,
            "distinct_nontrivial": distinct_nt,
            "rule": p.rule(),
            "samples": samples,
            "classes": classes,
            "enumerated_cases": n_enum,
            "enumeration_exhaustive": p.enumeration_is_exhaustive(tier),
            "random_cases_requested": total_cases,
            "inner_evaluations": shared.inner.load(Ordering::Relaxed),
            "rejected_ops": shared.rejected.load(Ordering::Relaxed),
            "known_finding_hits": known_hits,
            "replayed": replayed,
            "workers": workers,
            "violations_found": found_v,
        });
        if exhaustive {
            coverage["exhaustive"] = json!(true);
        }
        let evidence = json!({
            "property_id": id,
            "tier": tier.name(),
            "seed": opts.seed,
            "level": p.level(),
            "coverage": coverage,
            "assumptions": p.assumptions(),
            "wall_s": wall,
            "violations": violations.len(),
        });
        if !opts.no_evidence {
            let dir = std::env::var("VERIF_EVIDENCE_DIR").map(PathBuf::from).unwrap_or_else(|_| Path::new(VERIF_ROOT).join("evidence"));
            let _ = std::fs::create_dir_all(&dir);
            let path = dir.join(format!("{id}.json"));
            std::fs::write(&path, serde_json::to_string_pretty(&evidence).unwrap()).unwrap();
        }

        for l in &known_lines {
            println!("{l}");
        }
        println!(
            "{id} {}: evaluations={} distinct_nontrivial={} inner={} rejected={} known_hits={:?} wall={:.1}s",
            tier.name(),
            evaluations,
            distinct_nt,
            shared.inner.load(Ordering::Relaxed),
            shared.rejected.load(Ordering::Relaxed),
            shared.known_hits.lock().unwrap().iter().map(|(k, v)| (k.clone(), v.0)).collect::<Vec<_>>(),
            wall
        );
        if std::env::var("VERIF_SHOW_CLASSES").is_ok() {
            for (k, v) in &classes {
                println!("  class {k}: {v}");
            }
        }
        if violations.is_empty() {
            0
        } else {
            for (path, f) in &violations {
                println!("failure kind={} msg={}", f.kind, truncate_str(&f.msg, 3000));
                println!("VIOLATION property={} replay={}", id, path.display());
            }
            1
        }
    }
}

pub fn truncate_str(s: &str, max: usize) -> String {
    if s.len() <= max {
        s.to_string()
    } else {
        let mut cut = max;
        while !s.is_char_boundary(cut) {
            cut -= 1;
        }
        format!("{}…", &s[..cut])
    }
}

/// Map a generated fraction (0..=65535) monotonically onto 0..len.
pub fn idx(frac: u16, len: usize) -> usize {
    if len == 0 {
        0
    } else {
        ((frac as usize) * len) >> 16
    }
}

pub fn boxed<S: Strategy + 'static>(s: S) -> BoxedStrategy<S::Value> {
    s.boxed()
}
