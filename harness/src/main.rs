//! `lv <Cnn> <quick|thorough> [--replay FILE] [--cases N] [--seed N] [--strict]`
#[macro_use]
pub mod engine;
pub mod probe;
pub mod props;
pub mod store;
pub mod model;
pub mod world;

use engine::{RunOpts, Tier};

fn main() {
    let args: Vec<String> = std::env::args().skip(1).collect();
    if args.is_empty() {
        eprintln!("usage: lv <Cnn|list> <quick|thorough> [--replay FILE] [--cases N] [--seed N] [--strict]");
        std::process::exit(2);
    }
    let reg = props::registry();
    if args[0] == "probe" {
        engine::install_panic_hook();
        probe::run(&args[1]);
        return;
    }
    if args[0] == "list" {
        for p in &reg {
            println!("{}", p.id());
        }
        return;
    }
    let id = args[0].clone();
    let mut tier = match std::env::var("VERIF_TIER").ok().as_deref() {
        Some("thorough") => Tier::Thorough,
        _ => Tier::Quick,
    };
    let mut opts = RunOpts {
        tier,
        seed: std::env::var("VERIF_SEED")
            .ok()
            .and_then(|s| s.trim().parse::<i128>().ok())
            .map(|v| v as u64)
            .unwrap_or(20260921),
        replay: None,
        cases_override: None,
        strict: false,
        no_evidence: false,
    };
    let mut i = 1;
    while i < args.len() {
        match args[i].as_str() {
            "quick" => tier = Tier::Quick,
            "thorough" => tier = Tier::Thorough,
            "--replay" => {
                i += 1;
                opts.replay = Some(args[i].clone().into());
                opts.no_evidence = true;
            }
            "--cases" => {
                i += 1;
                opts.cases_override = Some(args[i].parse().expect("--cases N"));
            }
            "--seed" => {
                i += 1;
                opts.seed = args[i].parse().expect("--seed N");
            }
            "--strict" => opts.strict = true,
            "--no-evidence" => opts.no_evidence = true,
            other => {
                eprintln!("unknown argument {other}");
                std::process::exit(2);
            }
        }
        i += 1;
    }
    opts.tier = tier;
    engine::install_panic_hook();
    let Some(p) = reg.iter().find(|p| p.id() == id) else {
        eprintln!("unknown property {id}");
        std::process::exit(2);
    };
    let code = p.run(&opts);
    std::process::exit(code);
}
