//! Reference model shared by the table-level properties: typed values, rows,
//! conversion to/from Arrow, a small SQL expression AST that is both rendered to
//! the SQL text handed to lance and evaluated here with three-valued logic.

use arrow_array::*;
use arrow_schema::{DataType, Field, Schema as ArrowSchema, TimeUnit};
use serde::{Deserialize, Serialize};
use std::cmp::Ordering;
use std::sync::Arc;

#[derive(Clone, Copy, Debug, PartialEq, Eq, Hash, PartialOrd, Ord, Serialize, Deserialize)]
pub enum ColType {
    I8,
    I16,
    I32,
    I64,
    U8,
    U16,
    U32,
    U64,
    F32,
    F64,
    Utf8,
    LargeUtf8,
    Bool,
    Date32,
    TsUs,
}

impl ColType {
    pub const ALL: [ColType; 15] = [
        ColType::I8,
        ColType::I16,
        ColType::I32,
        ColType::I64,
        ColType::U8,
        ColType::U16,
        ColType::U32,
        ColType::U64,
        ColType::F32,
        ColType::F64,
        ColType::Utf8,
        ColType::LargeUtf8,
        ColType::Bool,
        ColType::Date32,
        ColType::TsUs,
    ];
    pub fn arrow(&self) -> DataType {
        match self {
            ColType::I8 => DataType::Int8,
            ColType::I16 => DataType::Int16,
            ColType::I32 => DataType::Int32,
            ColType::I64 => DataType::Int64,
            ColType::U8 => DataType::UInt8,
            ColType::U16 => DataType::UInt16,
            ColType::U32 => DataType::UInt32,
            ColType::U64 => DataType::UInt64,
            ColType::F32 => DataType::Float32,
            ColType::F64 => DataType::Float64,
            ColType::Utf8 => DataType::Utf8,
            ColType::LargeUtf8 => DataType::LargeUtf8,
            ColType::Bool => DataType::Boolean,
            ColType::Date32 => DataType::Date32,
            ColType::TsUs => DataType::Timestamp(TimeUnit::Microsecond, None),
        }
    }
    pub fn from_arrow(dt: &DataType) -> Option<ColType> {
        Some(match dt {
            DataType::Int8 => ColType::I8,
            DataType::Int16 => ColType::I16,
            DataType::Int32 => ColType::I32,
            DataType::Int64 => ColType::I64,
            DataType::UInt8 => ColType::U8,
            DataType::UInt16 => ColType::U16,
            DataType::UInt32 => ColType::U32,
            DataType::UInt64 => ColType::U64,
            DataType::Float32 => ColType::F32,
            DataType::Float64 => ColType::F64,
            DataType::Utf8 => ColType::Utf8,
            DataType::LargeUtf8 => ColType::LargeUtf8,
            DataType::Boolean => ColType::Bool,
            DataType::Date32 => ColType::Date32,
            DataType::Timestamp(TimeUnit::Microsecond, None) => ColType::TsUs,
            _ => return None,
        })
    }
    pub fn is_int(&self) -> bool {
        matches!(self, ColType::I8 | ColType::I16 | ColType::I32 | ColType::I64 | ColType::U8 | ColType::U16 | ColType::U32 | ColType::U64)
    }
    pub fn is_float(&self) -> bool {
        matches!(self, ColType::F32 | ColType::F64)
    }
    pub fn is_string(&self) -> bool {
        matches!(self, ColType::Utf8 | ColType::LargeUtf8)
    }
    pub fn int_range(&self) -> Option<(i128, i128)> {
        Some(match self {
            ColType::I8 => (i8::MIN as i128, i8::MAX as i128),
            ColType::I16 => (i16::MIN as i128, i16::MAX as i128),
            ColType::I32 | ColType::Date32 => (i32::MIN as i128, i32::MAX as i128),
            ColType::I64 | ColType::TsUs => (i64::MIN as i128, i64::MAX as i128),
            ColType::U8 => (0, u8::MAX as i128),
            ColType::U16 => (0, u16::MAX as i128),
            ColType::U32 => (0, u32::MAX as i128),
            ColType::U64 => (0, u64::MAX as i128),
            _ => return None,
        })
    }
}

/// A value. Floats are stored as the bit pattern of an f64 (f32 columns hold
/// f32-representable values) so that equality is bit-exact and NaN == NaN.
#[derive(Clone, Debug, PartialEq, Eq, Hash, PartialOrd, Ord, Serialize, Deserialize)]
pub enum Val {
    Null,
    I(i128),
    F(u64),
    S(String),
    B(bool),
}

impl Val {
    pub fn f(x: f64) -> Val {
        Val::F(x.to_bits())
    }
    pub fn as_f64(&self) -> Option<f64> {
        match self {
            Val::F(b) => Some(f64::from_bits(*b)),
            Val::I(i) => Some(*i as f64),
            _ => None,
        }
    }
    pub fn is_null(&self) -> bool {
        matches!(self, Val::Null)
    }
    pub fn short(&self) -> String {
        match self {
            Val::Null => "NULL".into(),
            Val::I(i) => format!("{i}"),
            Val::F(b) => format!("{:?}", f64::from_bits(*b)),
            Val::S(s) => format!("{s:?}"),
            Val::B(b) => format!("{b}"),
        }
    }
}

/// SQL comparison under the dialect lance uses (DataFusion/arrow): numbers by
/// value with IEEE total order for floats (NaN equal to itself and above +inf,
/// -0.0 below +0.0), strings byte-wise, booleans false < true.  None if either
/// side is NULL or the types are not comparable.
pub fn sql_cmp(a: &Val, b: &Val) -> Option<Ordering> {
    match (a, b) {
        (Val::Null, _) | (_, Val::Null) => None,
        (Val::I(x), Val::I(y)) => Some(x.cmp(y)),
        (Val::F(x), Val::F(y)) => Some(f64::from_bits(*x).total_cmp(&f64::from_bits(*y))),
        (Val::I(x), Val::F(y)) => Some((*x as f64).total_cmp(&f64::from_bits(*y))),
        (Val::F(x), Val::I(y)) => Some(f64::from_bits(*x).total_cmp(&(*y as f64))),
        (Val::S(x), Val::S(y)) => Some(x.as_bytes().cmp(y.as_bytes())),
        (Val::B(x), Val::B(y)) => Some(x.cmp(y)),
        _ => None,
    }
}

#[derive(Clone, Debug, PartialEq, Eq, Serialize, Deserialize)]
pub struct ColSpec {
    pub name: String,
    pub ty: ColType,
    pub nullable: bool,
    /// model-side identity of the column: survives renames, fresh for re-added names
    #[serde(default)]
    pub cid: u32,
}

#[derive(Clone, Debug, PartialEq, Eq, Serialize, Deserialize, Default)]
pub struct TableSchema {
    pub cols: Vec<ColSpec>,
}

pub const UID: &str = "uid";

impl TableSchema {
    pub fn arrow(&self) -> ArrowSchema {
        let mut fields = vec![Field::new(UID, DataType::Int64, false)];
        for c in &self.cols {
            fields.push(Field::new(&c.name, c.ty.arrow(), c.nullable));
        }
        ArrowSchema::new(fields)
    }
    pub fn col(&self, name: &str) -> Option<(usize, &ColSpec)> {
        self.cols.iter().enumerate().find(|(_, c)| c.name == name)
    }
    pub fn col_by_cid(&self, cid: u32) -> Option<(usize, &ColSpec)> {
        self.cols.iter().enumerate().find(|(_, c)| c.cid == cid)
    }
    pub fn names(&self) -> Vec<String> {
        self.cols.iter().map(|c| c.name.clone()).collect()
    }
}

#[derive(Clone, Debug, PartialEq, Eq, Hash, PartialOrd, Ord, Serialize, Deserialize)]
pub struct Row {
    pub uid: i64,
    pub vals: Vec<Val>,
}

pub fn make_array(ty: ColType, vals: &mut dyn Iterator<Item = &Val>) -> ArrayRef {
    macro_rules! ints {
        ($arr:ty, $t:ty) => {{
            let a: $arr = vals
                .map(|v| match v {
                    Val::I(i) => Some(*i as $t),
                    _ => None,
                })
                .collect();
            Arc::new(a) as ArrayRef
        }};
    }
    match ty {
        ColType::I8 => ints!(Int8Array, i8),
        ColType::I16 => ints!(Int16Array, i16),
        ColType::I32 => ints!(Int32Array, i32),
        ColType::I64 => ints!(Int64Array, i64),
        ColType::U8 => ints!(UInt8Array, u8),
        ColType::U16 => ints!(UInt16Array, u16),
        ColType::U32 => ints!(UInt32Array, u32),
        ColType::U64 => ints!(UInt64Array, u64),
        ColType::Date32 => ints!(Date32Array, i32),
        ColType::TsUs => ints!(TimestampMicrosecondArray, i64),
        ColType::F32 => {
            let a: Float32Array = vals
                .map(|v| match v {
                    Val::F(b) => Some(f64::from_bits(*b) as f32),
                    _ => None,
                })
                .collect();
            Arc::new(a)
        }
        ColType::F64 => {
            let a: Float64Array = vals
                .map(|v| match v {
                    Val::F(b) => Some(f64::from_bits(*b)),
                    _ => None,
                })
                .collect();
            Arc::new(a)
        }
        ColType::Utf8 => {
            let a: StringArray = vals
                .map(|v| match v {
                    Val::S(s) => Some(s.clone()),
                    _ => None,
                })
                .collect();
            Arc::new(a)
        }
        ColType::LargeUtf8 => {
            let a: LargeStringArray = vals
                .map(|v| match v {
                    Val::S(s) => Some(s.clone()),
                    _ => None,
                })
                .collect();
            Arc::new(a)
        }
        ColType::Bool => {
            let a: BooleanArray = vals
                .map(|v| match v {
                    Val::B(b) => Some(*b),
                    _ => None,
                })
                .collect();
            Arc::new(a)
        }
    }
}

pub fn rows_to_batch(schema: &TableSchema, rows: &[Row]) -> RecordBatch {
    let arrow = Arc::new(schema.arrow());
    let mut cols: Vec<ArrayRef> = vec![Arc::new(Int64Array::from_iter_values(rows.iter().map(|r| r.uid)))];
    for (i, c) in schema.cols.iter().enumerate() {
        cols.push(make_array(c.ty, &mut rows.iter().map(|r| &r.vals[i])));
    }
    RecordBatch::try_new(arrow, cols).expect("model batch")
}

/// value of `arr[i]` as a model value; None if the arrow type is not a model type
pub fn array_val(arr: &dyn Array, i: usize) -> Option<Val> {
    if arr.is_null(i) {
        return Some(Val::Null);
    }
    macro_rules! int {
        ($t:ty) => {
            Val::I(arr.as_any().downcast_ref::<$t>().unwrap().value(i) as i128)
        };
    }
    Some(match arr.data_type() {
        DataType::Int8 => int!(Int8Array),
        DataType::Int16 => int!(Int16Array),
        DataType::Int32 => int!(Int32Array),
        DataType::Int64 => int!(Int64Array),
        DataType::UInt8 => int!(UInt8Array),
        DataType::UInt16 => int!(UInt16Array),
        DataType::UInt32 => int!(UInt32Array),
        DataType::UInt64 => int!(UInt64Array),
        DataType::Date32 => int!(Date32Array),
        DataType::Timestamp(TimeUnit::Microsecond, _) => int!(TimestampMicrosecondArray),
        DataType::Float32 => Val::f(arr.as_any().downcast_ref::<Float32Array>().unwrap().value(i) as f64),
        DataType::Float64 => Val::f(arr.as_any().downcast_ref::<Float64Array>().unwrap().value(i)),
        DataType::Utf8 => Val::S(arr.as_any().downcast_ref::<StringArray>().unwrap().value(i).to_string()),
        DataType::LargeUtf8 => Val::S(arr.as_any().downcast_ref::<LargeStringArray>().unwrap().value(i).to_string()),
        DataType::Boolean => Val::B(arr.as_any().downcast_ref::<BooleanArray>().unwrap().value(i)),
        _ => return None,
    })
}

/// Convert batches (with a `uid` column) back into model rows using the column
/// order of `names`.
pub fn batches_to_rows(batches: &[RecordBatch], names: &[String]) -> Result<Vec<Row>, String> {
    let mut out = vec![];
    for b in batches {
        let uid = b
            .column_by_name(UID)
            .ok_or_else(|| format!("scan result lacks column {UID}: {:?}", b.schema()))?
            .as_any()
            .downcast_ref::<Int64Array>()
            .ok_or("uid is not Int64")?
            .clone();
        let cols: Vec<&ArrayRef> = names
            .iter()
            .map(|n| b.column_by_name(n).ok_or_else(|| format!("scan result lacks column {n}: {:?}", b.schema())))
            .collect::<Result<_, _>>()?;
        for i in 0..b.num_rows() {
            if uid.is_null(i) {
                return Err("NULL uid in scan result".into());
            }
            let mut vals = Vec::with_capacity(cols.len());
            for c in &cols {
                vals.push(array_val(c.as_ref(), i).ok_or_else(|| format!("unsupported arrow type {:?}", c.data_type()))?);
            }
            out.push(Row { uid: uid.value(i), vals });
        }
    }
    Ok(out)
}

// ---------------------------------------------------------------------------
// expressions

#[derive(Clone, Copy, Debug, PartialEq, Eq, Hash, Serialize, Deserialize)]
pub enum CmpOp {
    Eq,
    Ne,
    Lt,
    Le,
    Gt,
    Ge,
}

impl CmpOp {
    pub const ALL: [CmpOp; 6] = [CmpOp::Eq, CmpOp::Ne, CmpOp::Lt, CmpOp::Le, CmpOp::Gt, CmpOp::Ge];
    pub fn sql(&self) -> &'static str {
        match self {
            CmpOp::Eq => "=",
            CmpOp::Ne => "<>",
            CmpOp::Lt => "<",
            CmpOp::Le => "<=",
            CmpOp::Gt => ">",
            CmpOp::Ge => ">=",
        }
    }
    pub fn test(&self, o: Ordering) -> bool {
        match self {
            CmpOp::Eq => o == Ordering::Equal,
            CmpOp::Ne => o != Ordering::Equal,
            CmpOp::Lt => o == Ordering::Less,
            CmpOp::Le => o != Ordering::Greater,
            CmpOp::Gt => o == Ordering::Greater,
            CmpOp::Ge => o != Ordering::Less,
        }
    }
}

/// Resolved boolean expression over one table (column names and typed literals).
#[derive(Clone, Debug, PartialEq, Eq, Hash, Serialize, Deserialize)]
pub enum BExpr {
    Cmp { col: String, ty: ColType, op: CmpOp, lit: Val },
    IsNull { col: String },
    IsNotNull { col: String },
    Between { col: String, ty: ColType, lo: Val, hi: Val, negated: bool },
    InList { col: String, ty: ColType, list: Vec<Val>, negated: bool },
    /// boolean column used as a predicate, optionally `IS TRUE` / `IS FALSE`
    BoolCol { col: String, form: BoolForm },
    /// `col [NOT] LIKE|ILIKE 'prefix%'`
    LikePrefix {
        col: String,
        prefix: String,
        #[serde(default)]
        negated: bool,
        #[serde(default)]
        ci: bool,
    },
    Not(Box<BExpr>),
    And(Box<BExpr>, Box<BExpr>),
    Or(Box<BExpr>, Box<BExpr>),
    /// literal TRUE / FALSE (delete special-cases these)
    Const(bool),
}

#[derive(Clone, Copy, Debug, PartialEq, Eq, Hash, Serialize, Deserialize)]
pub enum BoolForm {
    Plain,
    IsTrue,
    IsFalse,
    IsNotTrue,
    IsNotFalse,
}

pub fn quote_ident(name: &str) -> String {
    if name.chars().all(|c| c.is_ascii_lowercase() || c.is_ascii_digit() || c == '_') && !name.is_empty() {
        name.to_string()
    } else {
        format!("`{}`", name.replace('`', "``"))
    }
}

pub fn lit_sql(v: &Val, ty: ColType) -> String {
    match v {
        Val::Null => "NULL".into(),
        Val::I(i) => match ty {
            ColType::Date32 => {
                // days since epoch -> date literal
                let d = chrono::DateTime::from_timestamp(*i as i64 * 86400, 0).map(|d| d.date_naive().to_string()).unwrap_or_else(|| "1970-01-01".into());
                format!("date '{d}'")
            }
            ColType::TsUs => {
                let secs = (*i as i64).div_euclid(1_000_000);
                let us = (*i as i64).rem_euclid(1_000_000) as u32;
                let d = chrono::DateTime::from_timestamp(secs, us * 1000).map(|d| d.naive_utc().format("%Y-%m-%d %H:%M:%S%.6f").to_string()).unwrap_or_else(|| "1970-01-01 00:00:00".into());
                format!("timestamp '{d}'")
            }
            _ => format!("{i}"),
        },
        Val::F(b) => {
            let x = f64::from_bits(*b);
            if x.is_nan() {
                "'NaN'::double".into()
            } else if x.is_infinite() {
                if x > 0.0 { "'Infinity'::double".into() } else { "'-Infinity'::double".into() }
            } else {
                // shortest round-trip representation, always with a decimal point or exponent
                let s = format!("{x:?}");
                s
            }
        }
        Val::S(s) => format!("'{}'", s.replace('\'', "''")),
        Val::B(b) => if *b { "true".into() } else { "false".into() },
    }
}

impl BExpr {
    pub fn sql(&self) -> String {
        match self {
            BExpr::Cmp { col, ty, op, lit } => format!("{} {} {}", quote_ident(col), op.sql(), lit_sql(lit, *ty)),
            BExpr::IsNull { col } => format!("{} IS NULL", quote_ident(col)),
            BExpr::IsNotNull { col } => format!("{} IS NOT NULL", quote_ident(col)),
            BExpr::Between { col, ty, lo, hi, negated } => format!(
                "{} {}BETWEEN {} AND {}",
                quote_ident(col),
                if *negated { "NOT " } else { "" },
                lit_sql(lo, *ty),
                lit_sql(hi, *ty)
            ),
            BExpr::InList { col, ty, list, negated } => format!(
                "{} {}IN ({})",
                quote_ident(col),
                if *negated { "NOT " } else { "" },
                list.iter().map(|v| lit_sql(v, *ty)).collect::<Vec<_>>().join(", ")
            ),
            BExpr::BoolCol { col, form } => match form {
                BoolForm::Plain => quote_ident(col),
                BoolForm::IsTrue => format!("{} IS TRUE", quote_ident(col)),
                BoolForm::IsFalse => format!("{} IS FALSE", quote_ident(col)),
                BoolForm::IsNotTrue => format!("{} IS NOT TRUE", quote_ident(col)),
                BoolForm::IsNotFalse => format!("{} IS NOT FALSE", quote_ident(col)),
            },
            BExpr::LikePrefix { col, prefix, negated, ci } => {
                format!("{} {}{} '{}%'", quote_ident(col), if *negated { "NOT " } else { "" }, if *ci { "ILIKE" } else { "LIKE" }, prefix.replace('\'', "''"))
            }
            BExpr::Not(a) => format!("NOT ({})", a.sql()),
            BExpr::And(a, b) => format!("({}) AND ({})", a.sql(), b.sql()),
            BExpr::Or(a, b) => format!("({}) OR ({})", a.sql(), b.sql()),
            BExpr::Const(b) => if *b { "true".into() } else { "false".into() },
        }
    }

    /// three-valued evaluation; `get(col)` returns the row's value
    pub fn eval(&self, get: &dyn Fn(&str) -> Val) -> Option<bool> {
        match self {
            BExpr::Cmp { col, op, lit, .. } => sql_cmp(&get(col), lit).map(|o| op.test(o)),
            BExpr::IsNull { col } => Some(get(col).is_null()),
            BExpr::IsNotNull { col } => Some(!get(col).is_null()),
            BExpr::Between { col, lo, hi, negated, .. } => {
                let v = get(col);
                let a = sql_cmp(&v, lo).map(|o| o != Ordering::Less);
                let b = sql_cmp(&v, hi).map(|o| o != Ordering::Greater);
                let r = and3(a, b);
                if *negated { r.map(|x| !x) } else { r }
            }
            BExpr::InList { col, list, negated, .. } => {
                let v = get(col);
                if v.is_null() {
                    return None;
                }
                let mut any_null = false;
                let mut found = false;
                for l in list {
                    match sql_cmp(&v, l) {
                        None => any_null = true,
                        Some(Ordering::Equal) => found = true,
                        _ => {}
                    }
                }
                let r = if found { Some(true) } else if any_null { None } else { Some(false) };
                if *negated { r.map(|x| !x) } else { r }
            }
            BExpr::BoolCol { col, form } => {
                let v = match get(col) {
                    Val::B(b) => Some(b),
                    _ => None,
                };
                match form {
                    BoolForm::Plain => v,
                    BoolForm::IsTrue => Some(v == Some(true)),
                    BoolForm::IsFalse => Some(v == Some(false)),
                    BoolForm::IsNotTrue => Some(v != Some(true)),
                    BoolForm::IsNotFalse => Some(v != Some(false)),
                }
            }
            BExpr::LikePrefix { col, prefix, negated, ci } => match get(col) {
                Val::S(s) => {
                    let m = if *ci { s.to_lowercase().starts_with(&prefix.to_lowercase()) } else { s.as_bytes().starts_with(prefix.as_bytes()) };
                    Some(m != *negated)
                }
                _ => None,
            },
            BExpr::Not(a) => a.eval(get).map(|x| !x),
            BExpr::And(a, b) => and3(a.eval(get), b.eval(get)),
            BExpr::Or(a, b) => or3(a.eval(get), b.eval(get)),
            BExpr::Const(b) => Some(*b),
        }
    }

    pub fn columns(&self, out: &mut Vec<String>) {
        match self {
            BExpr::Cmp { col, .. }
            | BExpr::IsNull { col }
            | BExpr::IsNotNull { col }
            | BExpr::Between { col, .. }
            | BExpr::InList { col, .. }
            | BExpr::BoolCol { col, .. }
            | BExpr::LikePrefix { col, .. } => {
                if !out.contains(col) {
                    out.push(col.clone())
                }
            }
            BExpr::Not(a) => a.columns(out),
            BExpr::And(a, b) | BExpr::Or(a, b) => {
                a.columns(out);
                b.columns(out)
            }
            BExpr::Const(_) => {}
        }
    }

    pub fn has_negation(&self) -> bool {
        match self {
            BExpr::Not(_) => true,
            BExpr::Cmp { op: CmpOp::Ne, .. } => true,
            BExpr::Between { negated, .. } | BExpr::InList { negated, .. } => *negated,
            BExpr::BoolCol { form, .. } => matches!(form, BoolForm::IsNotTrue | BoolForm::IsNotFalse),
            BExpr::And(a, b) | BExpr::Or(a, b) => a.has_negation() || b.has_negation(),
            _ => false,
        }
    }
}

pub fn and3(a: Option<bool>, b: Option<bool>) -> Option<bool> {
    match (a, b) {
        (Some(false), _) | (_, Some(false)) => Some(false),
        (Some(true), Some(true)) => Some(true),
        _ => None,
    }
}
pub fn or3(a: Option<bool>, b: Option<bool>) -> Option<bool> {
    match (a, b) {
        (Some(true), _) | (_, Some(true)) => Some(true),
        (Some(false), Some(false)) => Some(false),
        _ => None,
    }
}

pub fn eval_row(e: &BExpr, schema: &TableSchema, row: &Row) -> Option<bool> {
    e.eval(&|name: &str| {
        if name == UID {
            Val::I(row.uid as i128)
        } else {
            schema.col(name).map(|(i, _)| row.vals[i].clone()).unwrap_or(Val::Null)
        }
    })
}

// ---------------------------------------------------------------------------
// seeds -> values

thread_local! {
    /// when set (C16 only), comparison literals for the narrow integer types may lie just outside the column type's range
    pub static WIDE_LITS: std::cell::Cell<bool> = const { std::cell::Cell::new(false) };
    /// when set, float columns also receive NaN and -0.0 (only for checks whose oracle is metamorphic)
    pub static NAN_MODE: std::cell::Cell<bool> = const { std::cell::Cell::new(false) };
}

/// Deterministic, collision-friendly value for a column type from a small seed.
/// seed 0 is NULL when the column is nullable.
pub fn val_from_seed(ty: ColType, nullable: bool, seed: u16) -> Val {
    if nullable && seed % 7 == 0 {
        return Val::Null;
    }
    let s = seed as i128;
    match ty {
        ColType::Bool => Val::B(seed % 2 == 1),
        ColType::Utf8 | ColType::LargeUtf8 => {
            const POOL: [&str; 12] = ["", "a", "b", "ab", "abc", "B", "é", "a'b", "zz", "a b", "%", "_x"];
            Val::S(POOL[(seed as usize / 2) % POOL.len()].to_string())
        }
        ColType::F32 | ColType::F64 => {
            // NaN and -0.0 are generated only where the oracle is metamorphic (see val_from_seed_nan): the reference
            // semantics of comparisons involving them differ between engines
            const POOL: [f64; 12] = [0.0, 1.0, -1.0, 0.5, 2.5, 3.0, 100.25, -7.75, f64::INFINITY, f64::NEG_INFINITY, 1e10, 4.0];
            let mut x = POOL[(seed as usize / 2) % POOL.len()];
            if NAN_MODE.with(|m| m.get()) {
                if seed % 11 == 5 {
                    x = f64::NAN;
                } else if seed % 11 == 6 {
                    x = -0.0;
                }
            }
            Val::f(if ty == ColType::F32 { (x as f32) as f64 } else { x })
        }
        _ => {
            let (lo, hi) = ty.int_range().unwrap();
            let pool: [i128; 12] = [0, 1, 2, 3, 5, -1, 7, lo, hi, 10, -3, 4];
            let v = pool[(seed as usize / 2) % pool.len()];
            let v = if ty == ColType::TsUs || ty == ColType::Date32 {
                // keep temporal values renderable as literals
                (s % 50) * if ty == ColType::TsUs { 1_000_003 } else { 1 } - 10
            } else {
                v
            };
            Val::I(v.clamp(lo, hi))
        }
    }
}

/// a literal for predicates: like val_from_seed but never NULL, and including
/// neighbours of stored values
pub fn lit_from_seed(ty: ColType, seed: u16) -> Val {
    match val_from_seed(ty, false, seed | 1) {
        Val::Null => val_from_seed(ty, false, 3),
        // i64::MIN cannot be written as an SQL integer literal (`-9223372036854775808` is the negation of a number
        // that does not fit i64 and is evaluated in floating point): values may be i64::MIN, literals stop one above
        Val::I(x) if x == i64::MIN as i128 => Val::I(x + 1),
        v => v,
    }
}
