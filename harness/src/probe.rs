//! Ad-hoc experiments used while triaging failures (`lv probe <name>`); not part of any check.
use crate::store::VStore;
use crate::world::*;
use arrow_array::RecordBatch;
use futures::TryStreamExt;

pub fn run(name: &str) {
    let rt = tokio::runtime::Builder::new_current_thread().enable_all().build().unwrap();
    rt.block_on(async move {
        match name {
            "overwrite_rowid" => overwrite_rowid().await,
            "bool_null_index" => bool_null_index().await,
            "merge_null" => merge_null().await,
            "del_null" => del_null().await,
            "validate" => validate_probe().await,
            "flags" => flags_probe().await,
            "btree_range" => btree_range_probe().await,
            "c16_limit" => c16_limit_probe().await,
            "merge_partial" => merge_partial().await,
            "limit_stable" => { limit_stable(true).await; limit_stable(false).await },
            "defer_remap" => { defer_remap(true).await; defer_remap(false).await },
            _ => eprintln!("unknown probe"),
        }
    });
}

async fn count_with_rowid(ds: &lance::Dataset) -> Result<usize, String> {
    let mut sc = ds.scan();
    sc.with_row_id();
    let b: Vec<RecordBatch> = sc.try_into_stream().await.map_err(|e| e.to_string())?.try_collect().await.map_err(|e| e.to_string())?;
    Ok(b.iter().map(|b| b.num_rows()).sum())
}

async fn overwrite_rowid() {
    let cfg = TableCfg { cols: vec![(2, false)], stable_row_ids: true, storage: 1, v2_manifest: false, handler: 0 };
    let store = VStore::new();
    let mut w = World::create(store, "t", &cfg, &[RowSeed(vec![0; 6])], 3).await.unwrap();
    println!("v1 with rowid: {:?}", count_with_rowid(&w.ds).await);
    let step = Step { op: Op::Overwrite { rows: vec![RowSeed(vec![0; 6]), RowSeed(vec![0; 6])], max_rows_per_file: 4 }, stale: None };
    let mut obs = crate::engine::Obs::default();
    let _ = w.apply(&step, &mut obs).await;
    println!("v2 warm session with rowid: {:?}", count_with_rowid(&w.ds).await);
    let fresh = w.open_fresh(None).await.unwrap();
    println!("v2 fresh session with rowid: {:?}", count_with_rowid(&fresh).await);
    for f in fresh.manifest().fragments.iter() {
        println!("frag {} rows {:?}", f.id, f.physical_rows);
    }
}

async fn bool_null_index() {
    let cfg = TableCfg { cols: vec![(12, true)], stable_row_ids: false, storage: 1, v2_manifest: false, handler: 0 };
    let store = VStore::new();
    // seeds: 7 -> NULL, 1 -> true, 2 -> false
    let mut w = World::create(store, "t", &cfg, &[RowSeed(vec![7; 6]), RowSeed(vec![1; 6]), RowSeed(vec![2; 6])], 100).await.unwrap();
    println!("rows: {:?}", w.state().rows);
    let mut obs = crate::engine::Obs::default();
    let _ = w.apply(&Step { op: Op::CreateIndex { col: 0, kind: 0, replace: false }, stale: None }, &mut obs).await;
    for f in ["c0 = false", "c0 = true", "(c0 = false) AND ((c0 = false) OR (c0 = false))", "c0 = false OR c0 = false", "NOT (c0 = true)", "c0 IS NULL", "c0 <> true"] {
        let mut a = w.ds.scan();
        a.filter(f).unwrap();
        a.project::<&str>(&[]).unwrap();
        a.with_row_id();
        a.use_scalar_index(true);
        let with = a.count_rows().await;
        let mut b = w.ds.scan();
        b.filter(f).unwrap();
        b.project::<&str>(&[]).unwrap();
        b.with_row_id();
        b.use_scalar_index(false);
        let without = b.count_rows().await;
        println!("{f:55} indexed={with:?} unindexed={without:?}");
    }
}

async fn defer_remap(stable: bool) {
    println!("--- stable_row_ids={stable}");
    let cfg = TableCfg { cols: vec![(2, false)], stable_row_ids: stable, storage: 1, v2_manifest: false, handler: 0 };
    let store = VStore::new();
    let seeds: Vec<RowSeed> = (0..6).map(|i| RowSeed(vec![(i * 2 + 1) as u16; 6])).collect();
    let mut w = World::create(store, "t", &cfg, &seeds, 3).await.unwrap();
    println!("rows: {:?}", w.state().rows.iter().map(|r| (r.uid, r.vals[0].short())).collect::<Vec<_>>());
    let mut obs = crate::engine::Obs::default();
    let _ = w.apply(&Step { op: Op::CreateIndex { col: 0, kind: 0, replace: false }, stale: None }, &mut obs).await;
    let r = w.apply(&Step { op: Op::Compact { target_rows: 50, materialize: true, threshold_pct: 80, defer_remap: true, max_rows_per_group: 1024 }, stale: None }, &mut obs).await;
    println!("compact: {:?} frags now: {:?}", r.is_ok(), w.ds.manifest().fragments.iter().map(|f| f.id).collect::<Vec<_>>());
    for f in ["c0 = 1", "c0 >= 0", "c0 = 2", "c0 < 100"] {
        let mut res = vec![];
        for use_idx in [true, false] {
            let mut a = w.ds.scan();
            a.filter(f).unwrap();
            a.project(&["uid"]).unwrap();
            a.use_scalar_index(use_idx);
            let b: Vec<RecordBatch> = a.try_into_stream().await.unwrap().try_collect().await.unwrap();
            res.push(b.iter().map(|b| b.num_rows()).sum::<usize>());
        }
        println!("{f:20} indexed={} unindexed={}", res[0], res[1]);
    }
}

async fn merge_null() {
    for partial in [None, Some(vec![1u8])] {
        for matched in [0u8, 1, 2] {
            for by_source in [0u8, 1] {
                for use_index in [false] {
                    let cfg = TableCfg { cols: vec![(2, true), (2, true)], stable_row_ids: false, storage: 1, v2_manifest: false, handler: 0 };
                    let store = VStore::new();
                    // target: c0 = 1 (seed 2 -> pool[1]), c0 = NULL
                    let mut w = World::create(store, "t", &cfg, &[RowSeed(vec![2, 2, 2, 2, 2, 2]), RowSeed(vec![7, 2, 2, 2, 2, 2])], 100).await.unwrap();
                    w.merge_null_keys = true;
                    let mut obs = crate::engine::Obs::default();
                    // source: NULL key row, an unmatched non-null key row (seed 4 -> 2), nothing matching
                    let m = MergeSpec { key: 0, src: vec![(RowSeed(vec![7, 4, 4, 4, 4, 4]), None), (RowSeed(vec![4, 4, 4, 4, 4, 4]), None)], matched, insert_not_matched: true, by_source, by_source_pred: RawPred::Const(true), partial: partial.clone(), use_index };
                    let r = w.apply(&Step { op: Op::Merge(m), stale: None }, &mut obs).await;
                    let rows = scan_rows(&w.ds, &w.state().schema, false).await;
                    println!("partial={partial:?} matched={matched} by_source={by_source}: result={} rows={:?}", match &r { Ok(_) => "ok".to_string(), Err(f) => format!("{}: {}", f.kind, &f.msg[..f.msg.len().min(150)]) }, rows.map(|r| r.iter().map(|x| (x.uid, x.vals[0].short())).collect::<Vec<_>>()));
                }
            }
        }
    }
}

async fn limit_stable(stable: bool) {
    println!("--- stable={stable}");
    let cfg = TableCfg { cols: vec![(2, false)], stable_row_ids: stable, storage: 1, v2_manifest: false, handler: 0 };
    let store = VStore::new();
    let seeds: Vec<RowSeed> = (0..3).map(|i| RowSeed(vec![(i * 2 + 1) as u16; 6])).collect();
    let mut w = World::create(store, "t", &cfg, &seeds, 100).await.unwrap();
    let mut obs = crate::engine::Obs::default();
    let r = w.apply(&Step { op: Op::Update { pred: Some(RawPred::Cmp { col: 1, op: 0, lit: 0 }), sets: vec![(0, RawSet::Lit(5))] }, stale: None }, &mut obs).await;
    println!("update: {:?}", r.is_ok());
    for f in w.ds.manifest().fragments.iter() {
        println!("frag {} phys {:?} del {:?} rowidmeta {}", f.id, f.physical_rows, f.deletion_file.as_ref().map(|d| d.num_deleted_rows), f.row_id_meta.is_some());
    }
    for l in 1..5i64 {
        let mut sc = w.ds.scan();
        sc.limit(Some(l), None).unwrap();
        let b: Vec<RecordBatch> = sc.try_into_stream().await.unwrap().try_collect().await.unwrap();
        let n: usize = b.iter().map(|b| b.num_rows()).sum();
        let mut sc = w.ds.scan();
        sc.limit(Some(l), None).unwrap();
        println!("limit {l}: {n} rows; plan: {}", sc.explain_plan(false).await.unwrap().replace('\n', " | "));
    }
}

async fn merge_partial() {
    for (partial, use_index, stable) in [(Some(vec![0u8]), false, false), (Some(vec![0u8, 2]), false, false), (None, false, false), (Some(vec![0u8]), true, false), (Some(vec![0u8]), false, true)] {
        let cfg = TableCfg { cols: vec![(2, true), (2, false), (2, false)], stable_row_ids: stable, storage: 1, v2_manifest: false, handler: 0 };
        let store = VStore::new();
        let seeds: Vec<RowSeed> = [0u16, 1, 4].iter().map(|k| RowSeed(vec![*k; 6])).collect();
        let mut w = World::create(store, "t", &cfg, &seeds, 3).await.unwrap();
        let mut obs = crate::engine::Obs::default();
        let m = MergeSpec { key: 1, src: vec![(RowSeed(vec![1, 0, 0, 0, 0, 0]), None)], matched: 0, insert_not_matched: false, by_source: 0, by_source_pred: RawPred::Const(true), partial: partial.clone(), use_index };
        let r = w.apply(&Step { op: Op::Merge(m), stale: None }, &mut obs).await;
        let rows = scan_rows(&w.ds, &w.state().schema, false).await;
        println!("partial={partial:?} use_index={use_index} stable={stable} result={} rows={:?}", match &r { Ok(_) => "ok".to_string(), Err(f) => format!("{}: {}", f.kind, &f.msg[..f.msg.len().min(160)]) }, rows.map(|r| r.iter().map(|x| (x.uid, x.vals.iter().map(|v| v.short()).collect::<Vec<_>>())).collect::<Vec<_>>()));
    }
}

async fn del_null() {
    let cfg = TableCfg { cols: vec![(2, true), (2, false)], stable_row_ids: false, storage: 1, v2_manifest: false, handler: 0 };
    for f in ["((NOT (c0 IN (0))) OR (c0 NOT IN (0))) OR (c0 = 1)", "(c0 <> 0) OR (c0 <> 0) OR (c0 = 1)", "(c0 <> 0) OR (c0 = 1)", "(c0 <> 0) OR (c0 <> 0)", "(c0 <> 0) OR (c0 <> 1)", "(c0 <> 0) OR (c0 <> 1) OR (c0 = 5)", "(c0 = 0) OR (c0 = 0) OR (c0 <> 1)", "(c0 < 0) OR (c0 < 0) OR (c0 >= 0)", "(c0 <> 0 OR c1 = 7) OR (c0 <> 0)"] {
        let store = VStore::new();
        let mut w = World::create(store, "t", &cfg, &[RowSeed(vec![35, 0, 0, 0, 0, 0])], 3).await.unwrap();
        let n = w.ds.count_rows(Some(f.to_string())).await;
        let mut sc = w.ds.scan();
        sc.filter(f).unwrap();
        let plan = sc.explain_plan(false).await.unwrap_or_default();
        let r = w.ds.delete(f).await;
        let left = w.ds.count_rows(None).await;
        println!("{f:60} count_rows={n:?} delete={:?} rows left={left:?}\n    plan: {}", r.is_ok(), plan.replace('\n', " | "));
    }
}

pub async fn c16_limit_probe() {
    let cfg = TableCfg { cols: vec![(0, false), (0, false), (0, false)], stable_row_ids: false, storage: 1, v2_manifest: false, handler: 0 };
    let store = VStore::new();
    let mut w = World::create(store, "t", &cfg, &[], 3).await.unwrap();
    let mut obs = crate::engine::Obs::default();
    let _ = w.apply(&Step { op: Op::Append { rows: vec![RowSeed(vec![0, 13, 0, 0, 0, 0])], splits: vec![], max_rows_per_file: 3 }, stale: None }, &mut obs).await;
    let rows: Vec<RowSeed> = [[0u16, 13, 0], [0, 13, 0], [0, 0, 0], [0, 13, 0], [0, 0, 0], [0, 13, 0], [0, 13, 14]].iter().map(|r| RowSeed(vec![r[0], r[1], r[2], 0, 0, 0])).collect();
    let _ = w.apply(&Step { op: Op::Append { rows, splits: vec![], max_rows_per_file: 3 }, stale: None }, &mut obs).await;
    let _ = w.apply(&Step { op: Op::CreateIndex { col: 40, kind: 0, replace: true }, stale: None }, &mut obs).await;
    println!("indices: {:?}", w.state().indices);
    println!("rows: {:?}", w.state().rows.iter().map(|r| (r.uid, r.vals.iter().map(|v| v.short()).collect::<Vec<_>>())).collect::<Vec<_>>());
    let f = "(uid IS NULL) OR ((c1 >= 0) AND (c2 <= 0))";
    for lim in [None, Some(7i64), Some(1), Some(20)] {
        let mut sc = w.ds.scan();
        sc.filter(f).unwrap();
        sc.project(&["uid", "c2"]).unwrap();
        if let Some(l) = lim { sc.limit(Some(l), None).unwrap(); }
        let b: Vec<RecordBatch> = sc.try_into_stream().await.unwrap().try_collect().await.unwrap();
        let mut sc2 = w.ds.scan();
        sc2.filter(f).unwrap();
        sc2.project(&["uid", "c2"]).unwrap();
        if let Some(l) = lim { sc2.limit(Some(l), None).unwrap(); }
        println!("limit {lim:?}: {} rows; plan {}", b.iter().map(|b| b.num_rows()).sum::<usize>(), sc2.explain_plan(false).await.unwrap().replace('\n', " | "));
    }
}

pub async fn btree_range_probe() {
    let cfg = TableCfg { cols: vec![(2, false)], stable_row_ids: false, storage: 1, v2_manifest: false, handler: 0 };
    let store = VStore::new();
    let mut w = World::create(store, "t", &cfg, &[RowSeed(vec![24, 0, 0, 0, 0, 0])], 3).await.unwrap();
    let mut obs = crate::engine::Obs::default();
    for _ in 0..2 {
        let _ = w.apply(&Step { op: Op::Append { rows: vec![RowSeed(vec![0; 6])], splits: vec![], max_rows_per_file: 3 }, stale: None }, &mut obs).await;
    }
    let _ = w.apply(&Step { op: Op::CreateIndex { col: 0, kind: 0, replace: false }, stale: None }, &mut obs).await;
    println!("rows: {:?}", w.state().rows.iter().map(|r| (r.uid, r.vals[0].short())).collect::<Vec<_>>());
    for f in ["(c0 < 1) AND (c0 >= 0)", "c0 >= 0 AND c0 < 1", "c0 < 1", "c0 >= 0", "c0 = 0", "c0 BETWEEN 0 AND 0", "(c0 < 1) AND (c0 > -1)"] {
        let a = filtered_uids(&w.ds, f, true).await;
        let b = filtered_uids(&w.ds, f, false).await;
        let mut sc = w.ds.scan();
        sc.filter(f).unwrap();
        println!("{f:30} indexed={a:?} unindexed={b:?} plan={}", sc.explain_plan(false).await.unwrap().replace('\n', " | "));
    }
}

pub async fn validate_probe() {
    let p = std::path::Path::new("/verif/replays/C05/viol-e26325a5b232b453.json");
    let input: crate::props::hist::HistInput = crate::engine::read_replay(p).unwrap();
    let store = VStore::new();
    let mut w = World::create(store, "t", &input.cfg, &input.initial, input.init_file_rows as usize).await.unwrap();
    let mut obs = crate::engine::Obs::default();
    for s in &input.steps {
        let r = w.apply(s, &mut obs).await;
        println!("{} -> {:?}", s.op.kind(), r.is_ok());
        println!("  schema: {:?}", w.ds.schema().fields.iter().map(|f| (f.name.clone(), f.id)).collect::<Vec<_>>());
        for f in w.ds.manifest().fragments.iter() {
            println!("  frag {} files {:?}", f.id, f.files.iter().map(|d| (d.path.clone(), d.fields.clone())).collect::<Vec<_>>());
        }
    }
    println!("validate: {:?}", w.ds.validate().await.map_err(|e| e.to_string()));
}


/// prints the stable-row-id flag and the fragments' row id metadata of every version of a replayed history
pub async fn flags_probe() {
    let path = std::env::var("VERIF_PROBE_FILE").unwrap();
    let input: crate::props::hist::HistInput = crate::engine::read_replay(std::path::Path::new(&path)).unwrap();
    let store = VStore::new();
    let mut w = World::create(store, "t", &input.cfg, &input.initial, input.init_file_rows as usize).await.unwrap();
    let mut obs = crate::engine::Obs::default();
    for s in &input.steps {
        let r = w.apply(s, &mut obs).await;
        println!("{} stale={:?} -> {:?}", s.op.kind(), s.stale.is_some(), r.as_ref().map(|_| ()).map_err(|f| f.kind.clone()));
    }
    let latest = w.ds.latest_version_id().await.unwrap();
    for v in 1..=latest {
        let d = w.ds.checkout_version(v).await.unwrap();
        let m = d.manifest();
        println!("v{v}: uses_stable_row_ids={} reader_flags={} next_row_id={} frags={:?}", m.uses_stable_row_ids(), m.reader_feature_flags, m.next_row_id, m.fragments.iter().map(|f| (f.id, f.physical_rows, f.row_id_meta.is_some())).collect::<Vec<_>>());
    }
}
