//! Ad-hoc experiments used while triaging failures (`lv probe <name>`); not part of any check.
use crate::store::VStore;
use crate::world::*;
use arrow_array::RecordBatch;
use futures::TryStreamExt;

pub fn run(name: &str) {
    let rt = tokio::runtime::Builder::new_current_thread().enable_all().build().unwrap();
    rt.block_on(async move {
        match name {
            "overwrite_rowid" => overwrite_rowid().await,
            "bool_null_index" => bool_null_index().await,
            "defer_remap" => { defer_remap(true).await; defer_remap(false).await },
            _ => eprintln!("unknown probe"),
        }
    });
}

async fn count_with_rowid(ds: &lance::Dataset) -> Result<usize, String> {
    let mut sc = ds.scan();
    sc.with_row_id();
    let b: Vec<RecordBatch> = sc.try_into_stream().await.map_err(|e| e.to_string())?.try_collect().await.map_err(|e| e.to_string())?;
    Ok(b.iter().map(|b| b.num_rows()).sum())
}

async fn overwrite_rowid() {
    let cfg = TableCfg { cols: vec![(2, false)], stable_row_ids: true, storage: 1, v2_manifest: false, handler: 0 };
    let store = VStore::new();
    let mut w = World::create(store, "t", &cfg, &[RowSeed(vec![0; 6])], 3).await.unwrap();
    println!("v1 with rowid: {:?}", count_with_rowid(&w.ds).await);
    let step = Step { op: Op::Overwrite { rows: vec![RowSeed(vec![0; 6]), RowSeed(vec![0; 6])], max_rows_per_file: 4 }, stale: None };
    let mut obs = crate::engine::Obs::default();
    let _ = w.apply(&step, &mut obs).await;
    println!("v2 warm session with rowid: {:?}", count_with_rowid(&w.ds).await);
    let fresh = w.open_fresh(None).await.unwrap();
    println!("v2 fresh session with rowid: {:?}", count_with_rowid(&fresh).await);
    for f in fresh.manifest().fragments.iter() {
        println!("frag {} rows {:?}", f.id, f.physical_rows);
    }
}

async fn bool_null_index() {
    let cfg = TableCfg { cols: vec![(12, true)], stable_row_ids: false, storage: 1, v2_manifest: false, handler: 0 };
    let store = VStore::new();
    // seeds: 7 -> NULL, 1 -> true, 2 -> false
    let mut w = World::create(store, "t", &cfg, &[RowSeed(vec![7; 6]), RowSeed(vec![1; 6]), RowSeed(vec![2; 6])], 100).await.unwrap();
    println!("rows: {:?}", w.state().rows);
    let mut obs = crate::engine::Obs::default();
    let _ = w.apply(&Step { op: Op::CreateIndex { col: 0, kind: 0, replace: false }, stale: None }, &mut obs).await;
    for f in ["c0 = false", "c0 = true", "(c0 = false) AND ((c0 = false) OR (c0 = false))", "c0 = false OR c0 = false", "NOT (c0 = true)", "c0 IS NULL", "c0 <> true"] {
        let mut a = w.ds.scan();
        a.filter(f).unwrap();
        a.project::<&str>(&[]).unwrap();
        a.with_row_id();
        a.use_scalar_index(true);
        let with = a.count_rows().await;
        let mut b = w.ds.scan();
        b.filter(f).unwrap();
        b.project::<&str>(&[]).unwrap();
        b.with_row_id();
        b.use_scalar_index(false);
        let without = b.count_rows().await;
        println!("{f:55} indexed={with:?} unindexed={without:?}");
    }
}

async fn defer_remap(stable: bool) {
    println!("--- stable_row_ids={stable}");
    let cfg = TableCfg { cols: vec![(2, false)], stable_row_ids: stable, storage: 1, v2_manifest: false, handler: 0 };
    let store = VStore::new();
    let seeds: Vec<RowSeed> = (0..6).map(|i| RowSeed(vec![(i * 2 + 1) as u16; 6])).collect();
    let mut w = World::create(store, "t", &cfg, &seeds, 3).await.unwrap();
    println!("rows: {:?}", w.state().rows.iter().map(|r| (r.uid, r.vals[0].short())).collect::<Vec<_>>());
    let mut obs = crate::engine::Obs::default();
    let _ = w.apply(&Step { op: Op::CreateIndex { col: 0, kind: 0, replace: false }, stale: None }, &mut obs).await;
    let r = w.apply(&Step { op: Op::Compact { target_rows: 50, materialize: true, threshold_pct: 80, defer_remap: true, max_rows_per_group: 1024 }, stale: None }, &mut obs).await;
    println!("compact: {:?} frags now: {:?}", r.is_ok(), w.ds.manifest().fragments.iter().map(|f| f.id).collect::<Vec<_>>());
    for f in ["c0 = 1", "c0 >= 0", "c0 = 2", "c0 < 100"] {
        let mut res = vec![];
        for use_idx in [true, false] {
            let mut a = w.ds.scan();
            a.filter(f).unwrap();
            a.project(&["uid"]).unwrap();
            a.use_scalar_index(use_idx);
            let b: Vec<RecordBatch> = a.try_into_stream().await.unwrap().try_collect().await.unwrap();
            res.push(b.iter().map(|b| b.num_rows()).sum::<usize>());
        }
        println!("{f:20} indexed={} unindexed={}", res[0], res[1]);
    }
}
