//! C01 — Every commit is atomic and versions form a dense, monotone history.
//!
//! A generated prefix history builds a table; a generated *victim* write is first
//! run fault-free on a snapshot of the store (to learn its number of mutating
//! storage calls N, its commit point and the model post-state), then the store is
//! restored and the victim re-run with a fault injected at mutating call k.

use super::hist::*;
use crate::engine::*;
use crate::store::{Fault, FaultKind, ListOrder, VStore};
use crate::world::*;
use proptest::prelude::*;
use serde::{Deserialize, Serialize};

pub struct C01;

#[derive(Clone, Debug, PartialEq, Eq, Serialize, Deserialize)]
pub struct Input {
    pub hist: HistInput,
    pub victim: Op,
    /// fault positions as fractions of [0, N]
    pub ks: Vec<u16>,
    /// 0 CrashBefore, 1 CrashAfter, 2 FailNoEffect
    pub kinds: Vec<u8>,
    /// listing order used when the table is re-opened after the fault
    pub list_order: u8,
    /// number of detached commits made after the prefix history (they must stay invisible: never the latest version,
    /// never in versions(), whatever happens to the victim write afterwards)
    #[serde(default)]
    pub detached: u8,
}

fn victim() -> BoxedStrategy<Op> {
    prop_oneof![
        4 => op_append(),
        2 => op_overwrite(),
        3 => op_delete(),
        3 => op_update(),
        3 => op_merge(),
        3 => op_compact(),
        2 => op_create_index(),
        3 => op_schema(),
        1 => (0u8..3, prop::option::of(0u8..3)).prop_map(|(key, val)| Op::UpdateConfig { key, val }),
        2 => any::<u16>().prop_map(|v| Op::Restore { v }),
        1 => (0u8..3).prop_map(|mode| Op::OptimizeIndices { mode }),
    ]
    .boxed()
}

fn prefix_ops() -> BoxedStrategy<Op> {
    prop_oneof![5 => op_append(), 3 => op_delete(), 2 => op_update(), 1 => op_compact(), 2 => op_create_index(), 1 => op_schema(), 1 => (0u8..3, prop::option::of(0u8..3)).prop_map(|(key, val)| Op::UpdateConfig { key, val })].boxed()
}

enum Ran {
    Done(Result<StepOutcome, Failure>),
    Crashed,
}

/// run one op on a dedicated runtime so that a crash (futures parked forever) can be dropped wholesale
fn run_victim(w: &mut World, step: &Step, obs: &mut Obs) -> Ran {
    let rt = tokio::runtime::Builder::new_current_thread().enable_all().build().unwrap();
    let store = w.store.clone();
    let r = rt.block_on(async {
        tokio::select! {
            biased;
            _ = store.crashed() => Ran::Crashed,
            r = w.apply(step, obs) => Ran::Done(r),
        }
    });
    drop(rt);
    r
}

fn is_final_manifest(path: &str) -> bool {
    let Some(i) = path.rfind("_versions/") else { return false };
    let name = &path[i + "_versions/".len()..];
    name.ends_with(".manifest") && !name.starts_with('d') && name.trim_end_matches(".manifest").chars().all(|c| c.is_ascii_digit())
}

pub fn run(input: &Input, obs: &mut Obs, env: &Env) -> CheckResult {
    let h = &input.hist;
    let store = VStore::new();
    // ---- prefix ----
    let built: Result<World, Failure> = env.block_on(async {
        let mut w = match World::create(store.clone(), "t", &h.cfg, &h.initial, h.init_file_rows as usize).await {
            Ok(w) => w,
            Err(m) => return Err(Failure::new("create-rejected", m)),
        };
        for (i, step) in h.steps.iter().enumerate() {
            w.apply(step, obs).await.map_err(|f| Failure::new(f.kind, format!("prefix step {i} ({}): {}", step.op.kind(), f.msg)))?;
        }
        for i in 0..input.detached {
            use lance::dataset::transaction::{Operation, Transaction, UpdateMap, UpdateMapEntry};
            let op = Operation::UpdateConfig {
                config_updates: Some(UpdateMap { update_entries: vec![UpdateMapEntry { key: "verif.detached".into(), value: Some(format!("{i}")) }], replace: false }),
                table_metadata_updates: None,
                schema_metadata_updates: None,
                field_metadata_updates: std::collections::HashMap::new(),
            };
            let tx = Transaction::new(w.latest, op, None);
            match lance::dataset::CommitBuilder::new(std::sync::Arc::new(w.ds.clone())).with_detached(true).execute(tx).await {
                Ok(d) => {
                    obs.label("detached-commit-made");
                    ensure!(!w.versions.contains_key(&d.version().version), "detached-commit-version", "a detached commit produced the attached version {}", d.version().version);
                }
                Err(e) => obs.label(format!("detached-commit-rejected:{}", truncate_str(&format!("{e}"), 40))),
            }
            // the handle and a fresh process still see the attached history only
            let fresh = w.open_fresh(None).await.map_err(|m| Failure::new("open-after-detached", format!("after a detached commit the table cannot be opened: {m}")))?;
            ensure!(fresh.version().version == w.latest, "detached-became-latest", "after a detached commit the latest version is {} (model {})", fresh.version().version, w.latest);
        }
        Ok(w)
    });
    let w0 = match built {
        Ok(w) => w,
        Err(f) if f.kind == "create-rejected" => {
            obs.rejected += 1;
            return Ok(());
        }
        Err(f) => return Err(f),
    };
    let pre_latest = w0.latest;
    let pre_versions = w0.versions.clone();
    let snap = store.snapshot();
    let step = Step { op: input.victim.clone(), stale: None };

    // ---- learning pass: fault-free ----
    let mut wl = w0.clone();
    wl.session = new_session(&store);
    wl.ds = env.block_on(wl.open_warm(None)).map_err(|m| Failure::new("reopen-error", m))?;
    store.arm(vec![]);
    store.enable_log(true);
    let mut o2 = Obs::default();
    let learned = run_victim(&mut wl, &step, &mut o2);
    let log = store.take_log();
    store.enable_log(false);
    let n = store.mutation_count(0);
    let outcome = match learned {
        Ran::Done(Ok(o)) => o,
        Ran::Done(Err(f)) => return Err(Failure::new(f.kind, format!("victim {} (fault-free): {}", step.op.kind(), f.msg))),
        Ran::Crashed => return Err(Failure::new("harness", "crash without a fault plan")),
    };
    let post_versions = wl.versions.clone();
    let post_latest = wl.latest;
    let committed = matches!(outcome, StepOutcome::Committed { .. });
    if !committed {
        obs.label(format!("victim-not-committed:{}", step.op.kind()));
        obs.rejected += 1;
    }
    // commit point: first mutating call that makes a final manifest visible
    let commit_k: Option<u64> = log.iter().filter(|c| c.mutating).find(|c| is_final_manifest(c.to.as_deref().unwrap_or(&c.path)) && c.op != "delete").and_then(|c| c.k);
    obs.label(format!("victim:{}", step.op.kind()));
    if n == 0 {
        return Ok(());
    }

    // ---- fault runs ----
    let mut classes: Vec<String> = vec![];
    for (j, kf) in input.ks.iter().enumerate() {
        let k = idx(*kf, n as usize + 1) as u64; // k == n: beyond the last call (trivial)
        let kind = match input.kinds.get(j).copied().unwrap_or(0) % 3 {
            0 => FaultKind::CrashBefore,
            1 => FaultKind::CrashAfter,
            _ => FaultKind::FailNoEffect,
        };
        store.restore(&snap);
        store.disarm();
        let mut w = w0.clone();
        w.session = new_session(&store);
        w.ds = env.block_on(w.open_warm(None)).map_err(|m| Failure::new("reopen-error", m))?;
        store.arm(vec![Fault { actor: None, k, kind }]);
        let mut o3 = Obs::default();
        let ran = run_victim(&mut w, &step, &mut o3);
        store.disarm();
        obs.inner += 1;
        let pos_class = match commit_k {
            Some(c) if k < c => "before-commit-point",
            Some(c) if k == c => "at-commit-point",
            Some(_) if k >= n => "after-last-call",
            Some(_) => "after-commit-point",
            None => "no-commit-point",
        };
        classes.push(format!("{}:{:?}:{}", step.op.kind(), kind, pos_class));
        let what = format!("victim {} on handler {} with {:?} at mutating call {k}/{n} ({pos_class})", step.op.kind(), h.cfg.handler % 2, kind);
        let returned: Option<Result<(), String>> = match &ran {
            Ran::Crashed => None,
            Ran::Done(Ok(StepOutcome::Committed { .. })) | Ran::Done(Ok(StepOutcome::NoOp)) => Some(Ok(())),
            Ran::Done(Ok(StepOutcome::Rejected(m))) => Some(Err(m.clone())),
            Ran::Done(Err(f)) => {
                // the engine's own post-checks may fire under a fault (e.g. "failed op changed table"); judged below instead
                Some(Err(format!("{}: {}", f.kind, f.msg)))
            }
        };
        // the process "dies": everything is dropped; a fresh process opens the table, with a generated listing order
        drop(w);
        // V2 manifest names on a store without lexically ordered listing cannot be opened at all (known finding
        // C33-v2-unordered-store), so the listing order is only varied for V1 names
        store.set_list_order(match if h.cfg.v2_manifest { 0 } else { input.list_order % 3 } {
            0 => ListOrder::Lexical,
            1 => ListOrder::Reverse,
            _ => ListOrder::Shuffled(*kf as u64),
        });
        let verdict: CheckResult = env.block_on(async {
            let probe = w0.clone();
            let ds = probe.open_fresh(None).await.map_err(|m| Failure::new("open-after-fault", format!("{what}: the table cannot be opened: {m}")))?;
            let versions = ds.versions().await.map_err(|e| Failure::new("versions-after-fault", format!("{what}: {e}")))?;
            let nums: Vec<u64> = versions.iter().map(|v| v.version).collect();
            let latest = ds.version().version;
            // dense and monotone
            let want: Vec<u64> = (nums.first().copied().unwrap_or(1)..=latest).collect();
            if nums != want || nums.first() != pre_versions.keys().next() {
                return Err(Failure::new("versions-not-dense", format!("{what}: versions() = {nums:?}, latest {latest}")));
            }
            if latest < pre_latest {
                return Err(Failure::new("version-lost", format!("{what}: latest went back from {pre_latest} to {latest}")));
            }
            // old versions untouched
            for (v, st) in &pre_versions {
                let d = probe.open_fresh(Some(*v)).await.map_err(|m| Failure::new("old-version-unreadable", format!("{what}: v{v}: {m}")))?;
                verify_state(&d, st, &format!("{what}: old version {v}")).await.map_err(|f| Failure::new(format!("old-version-changed:{}", f.kind), f.msg))?;
            }
            // new versions are complete: equal to the fault-free run's state of that version (or, for later ones, absent)
            for v in (pre_latest + 1)..=latest {
                let d = probe.open_fresh(Some(v)).await.map_err(|m| Failure::new("new-version-unreadable", format!("{what}: v{v}: {m}")))?;
                let Some(st) = post_versions.get(&v) else {
                    return Err(Failure::new("unexpected-version", format!("{what}: version {v} exists but the fault-free run only reaches {post_latest}")));
                };
                verify_state(&d, st, &format!("{what}: new version {v}")).await.map_err(|f| Failure::new(format!("partial-version:{}", f.kind), f.msg))?;
                d.validate().await.map_err(|e| Failure::new("partial-version:validate", format!("{what}: v{v}: {e}")))?;
            }
            // before the commit point nothing new may exist
            let effect_applied_at_k = matches!(kind, FaultKind::CrashAfter);
            if let Some(c) = commit_k {
                let before_commit = k < c || (k == c && !effect_applied_at_k);
                if before_commit && !matches!(kind, FaultKind::FailNoEffect) && latest != pre_latest {
                    return Err(Failure::new("version-before-commit-point", format!("{what}: commit point is call {c}, yet version {latest} exists")));
                }
            }
            // a write that returned Ok is fully there; one that returned Err before its commit point left nothing
            match &returned {
                Some(Ok(())) if committed => {
                    if latest != post_latest {
                        return Err(Failure::new("ok-but-not-latest", format!("{what}: the write returned Ok but latest is {latest}, expected {post_latest}")));
                    }
                }
                Some(Err(m)) => {
                    if let Some(c) = commit_k {
                        if k <= c && latest != pre_latest && committed && post_latest == pre_latest + 1 {
                            return Err(Failure::new("failed-write-visible", format!("{what}: the write failed ({}) at or before its commit point but version {latest} is visible", truncate_str(m, 120))));
                        }
                    }
                }
                _ => {}
            }
            Ok(())
        });
        store.set_list_order(ListOrder::Lexical);
        verdict?;
    }
    let nontrivial: Vec<&String> = classes.iter().filter(|c| !c.ends_with("after-last-call") && !c.ends_with("no-commit-point")).collect();
    if !nontrivial.is_empty() {
        obs.nontrivial(format!("h{}|{}", h.cfg.handler % 2, nontrivial.iter().map(|s| s.as_str()).collect::<Vec<_>>().join(",")));
    }
    for c in classes {
        obs.label(c.split(':').skip(1).collect::<Vec<_>>().join(":"));
    }
    Ok(())
}

impl Property for C01 {
    type Input = Input;
    fn id(&self) -> &'static str {
        "C01"
    }
    fn level(&self) -> &'static str {
        "fault_enumeration"
    }
    fn rule(&self) -> String {
        "A generated prefix history (0-4 ops) builds a table on the controlled in-memory store with the conditional-put or the rename-if-not-exists commit handler and V1/V2 manifest names, followed by 0-2 detached commits (CommitBuilder::with_detached; they must not become the latest version, appear in versions() or change what a fresh process opens); a generated victim write (append, overwrite, delete, update, merge_insert, compaction incl. its reservation commits, index create/optimize, add/alter/drop column, config update, restore) is run fault-free on a snapshot to learn its N mutating storage calls, its commit point and the model post-state; then the store is restored and the victim re-run with a fault (crash before / crash after / fail without effect) at generated mutating calls k in [0,N] (thorough: many k per victim). After each fault every handle is dropped and a fresh process opens the table under a generated listing order: versions() must be dense, every old version must read exactly its model state, every new version must be complete (equal to the fault-free state of that version and validate()), nothing new may exist when the fault precedes the commit point, and a write that returned Ok must be the latest version. Non-trivial = fault at or before the op's last call; distinct by (handler, victim kind, fault kind, position class).".into()
    }
    fn assumptions(&self) -> Vec<String> {
        vec![
            "crash points are per mutating storage call (put, multipart complete, copy, rename, delete); the store makes an object visible atomically".into(),
            "lock-based and external-store commit handlers are exercised by C02 / C10".into(),
        ]
    }
    fn cases(&self, tier: Tier) -> u32 {
        tier.pick(450, 5000)
    }
    fn max_shrink_iters(&self) -> u32 {
        150
    }
    fn strategy(&self, tier: Tier) -> BoxedStrategy<Input> {
        let nk = tier.pick(4usize, 24usize);
        (
            hist_strategy(COMMON_TYPES, V2_STORAGES, prefix_ops(), 5, 0),
            victim(),
            prop::collection::vec(any::<u16>(), nk..nk + 1),
            prop::collection::vec(0u8..3, nk..nk + 1),
            0u8..3,
            prop_oneof![6 => Just(0u8), 3 => Just(1u8), 1 => Just(2u8)],
        )
            .prop_map(|(hist, victim, ks, kinds, list_order, detached)| Input { hist, victim, ks, kinds, list_order, detached })
            .boxed()
    }
    fn check(&self, input: &Input, obs: &mut Obs, env: &Env) -> CheckResult {
        run(input, obs, env)
    }
}
