//! C02 — At most one writer wins each version slot and published manifests never change.
//!
//! This module also holds the commit-protocol simulator shared with C10:
//!   * `SimCtl`  — gates + fault plan for the calls that do not go through the object store,
//!   * `VExt`    — an in-memory, atomic `ExternalManifestStore` (gated, fault-injectable, optional stale reads),
//!   * `VLock`   — an in-memory `CommitLock` (gated),
//!   * `run_scenario` — builds a table, stages one transaction per writer, then runs 2-3 writer tasks and 0-1
//!     reader task on ONE paused-clock `current_thread` runtime with every storage / external-store / lock call of
//!     those actors parked at a gate; a generated schedule decides which parked call is released next.

use crate::engine::*;
use crate::store::{self, Fault, FaultKind, VStore};
use crate::world::{mk_write_params, new_session, TableCfg};
use arrow_array::{Int64Array, RecordBatch, RecordBatchIterator};
use arrow_schema::{DataType, Field, Schema};
use async_trait::async_trait;
use lance::dataset::builder::DatasetBuilder;
use lance::dataset::transaction::{Operation, Transaction, TransactionBuilder, UpdateMap, UpdateMapEntry};
use lance::dataset::{CommitBuilder, InsertBuilder, WriteMode};
use lance::Dataset;
use lance_table::io::commit::external_manifest::{ExternalManifestCommitHandler, ExternalManifestStore};
use lance_table::io::commit::{CommitError, CommitHandler, CommitLease, CommitLock, ConditionalPutCommitHandler, ManifestLocation, ManifestNamingScheme, RenameCommitHandler};
use object_store::path::Path;
use proptest::prelude::*;
use serde::{Deserialize, Serialize};
use std::collections::{BTreeMap, BTreeSet, HashSet, VecDeque};
use std::sync::{Arc, Mutex};
use std::time::Duration;

// ---------------------------------------------------------------------------
// gates and faults for non-object-store calls

struct SimPending {
    id: u64,
    actor: u32,
    op: &'static str,
    path: String,
    tx: Option<tokio::sync::oneshot::Sender<()>>,
}

#[derive(Default)]
struct SimSt {
    gated: HashSet<u32>,
    pending: Vec<SimPending>,
    next_id: u64,
    armed: Option<(u32, FaultKind)>,
    crashed: HashSet<u32>,
    lock_waiting: BTreeSet<u32>,
}

#[derive(Default)]
pub struct SimCtl {
    st: Mutex<SimSt>,
}

pub enum Dec {
    Go(Option<FaultKind>),
    Fail,
    Park,
}

impl SimCtl {
    pub fn gate_actor(&self, a: u32) {
        self.st.lock().unwrap().gated.insert(a);
    }
    pub fn ungate_all(&self) {
        let mut st = self.st.lock().unwrap();
        st.gated.clear();
        for mut p in st.pending.drain(..) {
            if let Some(tx) = p.tx.take() {
                let _ = tx.send(());
            }
        }
    }
    pub fn pending(&self) -> Vec<(u64, u32, &'static str, String)> {
        self.st.lock().unwrap().pending.iter().map(|p| (p.id, p.actor, p.op, p.path.clone())).collect()
    }
    pub fn release(&self, id: u64) -> bool {
        let mut st = self.st.lock().unwrap();
        if let Some(i) = st.pending.iter().position(|p| p.id == id) {
            let mut p = st.pending.remove(i);
            if let Some(tx) = p.tx.take() {
                let _ = tx.send(());
            }
            true
        } else {
            false
        }
    }
    /// the next gated-or-not call of `actor` on the external store / lock gets this fault
    pub fn arm(&self, actor: u32, kind: FaultKind) {
        self.st.lock().unwrap().armed = Some((actor, kind));
    }
    pub fn disarm(&self) {
        let mut st = self.st.lock().unwrap();
        st.armed = None;
        st.crashed.clear();
    }
    pub fn lock_waiting(&self) -> BTreeSet<u32> {
        self.st.lock().unwrap().lock_waiting.clone()
    }
    fn set_lock_waiting(&self, actor: u32, on: bool) {
        let mut st = self.st.lock().unwrap();
        if on {
            st.lock_waiting.insert(actor);
        } else {
            st.lock_waiting.remove(&actor);
        }
    }

    /// park at the gate (if the actor is gated), then decide the fate of the call
    pub async fn enter(&self, actor: u32, op: &'static str, path: String) -> Dec {
        let rx = {
            let mut st = self.st.lock().unwrap();
            if st.gated.contains(&actor) {
                let (tx, rx) = tokio::sync::oneshot::channel();
                let id = st.next_id;
                st.next_id += 1;
                st.pending.push(SimPending { id, actor, op, path, tx: Some(tx) });
                Some(rx)
            } else {
                None
            }
        };
        if let Some(rx) = rx {
            let _ = rx.await;
        }
        let mut st = self.st.lock().unwrap();
        if st.crashed.contains(&actor) {
            return Dec::Park;
        }
        match st.armed {
            Some((a, k)) if a == actor => {
                st.armed = None;
                match k {
                    FaultKind::CrashBefore => {
                        st.crashed.insert(actor);
                        Dec::Park
                    }
                    FaultKind::FailNoEffect => Dec::Fail,
                    k => Dec::Go(Some(k)),
                }
            }
            _ => Dec::Go(None),
        }
    }

    /// after the effect: Err for a lost response, park forever for a crash
    pub async fn leave(&self, actor: u32, after: Option<FaultKind>) -> Result<(), ()> {
        match after {
            None => Ok(()),
            Some(FaultKind::FailAfterEffect) => Err(()),
            Some(_) => {
                self.st.lock().unwrap().crashed.insert(actor);
                park().await
            }
        }
    }
}

pub async fn park() -> ! {
    futures::future::pending::<()>().await;
    unreachable!()
}

fn io_err(msg: impl Into<String>) -> lance_core::Error {
    lance_core::Error::io(msg.into(), snafu::location!())
}

// ---------------------------------------------------------------------------
// external manifest store

#[derive(Clone, Debug, PartialEq, Eq)]
pub struct ExtEntry {
    pub path: String,
    pub size: u64,
    pub e_tag: Option<String>,
}

type ExtMap = BTreeMap<(String, u64), ExtEntry>;

#[derive(Default)]
pub struct ExtData {
    pub map: ExtMap,
    /// the map after every mutation (index 0 = empty store)
    pub history: Vec<ExtMap>,
    /// how many mutations back the i-th read looks (cyclic); empty = consistent reads
    pub stale_plan: Vec<u8>,
    pub stale_pos: usize,
    pub stale_reads: u64,
    /// (actor, op, version, path, outcome)
    pub log: Vec<(u32, &'static str, u64, String, &'static str)>,
}

#[derive(Clone)]
pub struct VExt {
    pub ctl: Arc<SimCtl>,
    pub data: Arc<Mutex<ExtData>>,
    pub actor: u32,
    /// return size and e_tag with locations (as the DynamoDB store does)
    pub with_size: bool,
}

impl std::fmt::Debug for VExt {
    fn fmt(&self, f: &mut std::fmt::Formatter<'_>) -> std::fmt::Result {
        write!(f, "VExt(actor={})", self.actor)
    }
}

impl VExt {
    pub fn new(ctl: Arc<SimCtl>, with_size: bool) -> Self {
        let d = ExtData { history: vec![ExtMap::new()], ..Default::default() };
        Self { ctl, data: Arc::new(Mutex::new(d)), actor: 0, with_size }
    }
    pub fn as_actor(&self, actor: u32) -> Self {
        Self { actor, ..self.clone() }
    }
    pub fn snapshot(&self) -> ExtMap {
        self.data.lock().unwrap().map.clone()
    }
    pub fn set_stale_plan(&self, p: Vec<u8>) {
        let mut d = self.data.lock().unwrap();
        d.stale_plan = p;
        d.stale_pos = 0;
    }
    /// the view a read gets: current, or (stale mode) a few mutations old
    fn view(d: &mut ExtData) -> ExtMap {
        if d.stale_plan.is_empty() {
            return d.map.clone();
        }
        let back = d.stale_plan[d.stale_pos % d.stale_plan.len()] as usize;
        d.stale_pos += 1;
        let n = d.history.len();
        let back = back.min(n - 1);
        if back > 0 {
            d.stale_reads += 1;
        }
        d.history[n - 1 - back].clone()
    }
    fn location_of(version: u64, e: &ExtEntry, with_size: bool) -> lance_core::Result<ManifestLocation> {
        let path = Path::from(e.path.clone());
        let name = path.filename().ok_or_else(|| io_err("no file name"))?;
        let naming_scheme = ManifestNamingScheme::detect_scheme(name).unwrap_or_else(|| ManifestNamingScheme::detect_scheme_staging(name));
        Ok(ManifestLocation { version, path, size: if with_size { Some(e.size) } else { None }, naming_scheme, e_tag: if with_size { e.e_tag.clone() } else { None } })
    }
    async fn read_entry(&self, base_uri: &str, version: u64) -> lance_core::Result<ExtEntry> {
        match self.ctl.enter(self.actor, "ext_get", format!("{base_uri}@{version}")).await {
            Dec::Park => park().await,
            Dec::Fail => return Err(io_err("injected failure: external store get")),
            Dec::Go(after) => {
                let r = {
                    let mut d = self.data.lock().unwrap();
                    let v = Self::view(&mut d);
                    let r = v.get(&(base_uri.to_string(), version)).cloned();
                    d.log.push((self.actor, "get", version, r.as_ref().map(|e| e.path.clone()).unwrap_or_default(), if r.is_some() { "ok" } else { "not-found" }));
                    r
                };
                if self.ctl.leave(self.actor, after).await.is_err() {
                    return Err(io_err("injected failure: external store get (response lost)"));
                }
                r.ok_or_else(|| lance_core::Error::NotFound { uri: format!("{base_uri}@{version}"), location: snafu::location!() })
            }
        }
    }
    async fn read_latest(&self, base_uri: &str) -> lance_core::Result<Option<(u64, ExtEntry)>> {
        match self.ctl.enter(self.actor, "ext_latest", format!("{base_uri}@")).await {
            Dec::Park => park().await,
            Dec::Fail => Err(io_err("injected failure: external store get_latest")),
            Dec::Go(after) => {
                let r = {
                    let mut d = self.data.lock().unwrap();
                    let v = Self::view(&mut d);
                    let r = v.iter().filter(|((b, _), _)| b == base_uri).map(|((_, ver), e)| (*ver, e.clone())).max_by_key(|(ver, _)| *ver);
                    d.log.push((self.actor, "latest", r.as_ref().map(|x| x.0).unwrap_or(0), r.as_ref().map(|x| x.1.path.clone()).unwrap_or_default(), "ok"));
                    r
                };
                if self.ctl.leave(self.actor, after).await.is_err() {
                    return Err(io_err("injected failure: external store get_latest (response lost)"));
                }
                Ok(r)
            }
        }
    }
    async fn write_entry(&self, op: &'static str, must_exist: bool, base_uri: &str, version: u64, path: &str, size: u64, e_tag: Option<String>) -> lance_core::Result<()> {
        match self.ctl.enter(self.actor, op, format!("{base_uri}@{version}")).await {
            Dec::Park => park().await,
            Dec::Fail => {
                self.data.lock().unwrap().log.push((self.actor, op, version, path.to_string(), "fail-no-effect"));
                Err(io_err(format!("injected failure (no effect): {op}")))
            }
            Dec::Go(after) => {
                let ok = {
                    let mut d = self.data.lock().unwrap();
                    let key = (base_uri.to_string(), version);
                    let exists = d.map.contains_key(&key);
                    let ok = exists == must_exist;
                    if ok {
                        d.map.insert(key, ExtEntry { path: path.to_string(), size, e_tag });
                        let snap = d.map.clone();
                        d.history.push(snap);
                    }
                    let outcome = match (ok, after) {
                        (false, _) => "precondition-failed",
                        (true, None) => "ok",
                        (true, Some(FaultKind::FailAfterEffect)) => "fail-after-effect",
                        (true, Some(_)) => "crash-after",
                    };
                    d.log.push((self.actor, op, version, path.to_string(), outcome));
                    ok
                };
                if !ok {
                    // a precondition failure is an ordinary answer, not a fault
                    return Err(io_err(format!("{op}: precondition failed for {base_uri}@{version}")));
                }
                if self.ctl.leave(self.actor, after).await.is_err() {
                    return Err(io_err(format!("injected failure: response of {op} lost after the effect was applied")));
                }
                Ok(())
            }
        }
    }
}

#[async_trait]
impl ExternalManifestStore for VExt {
    async fn get(&self, base_uri: &str, version: u64) -> lance_core::Result<String> {
        Ok(self.read_entry(base_uri, version).await?.path)
    }
    async fn get_manifest_location(&self, base_uri: &str, version: u64) -> lance_core::Result<ManifestLocation> {
        let e = self.read_entry(base_uri, version).await?;
        Self::location_of(version, &e, self.with_size)
    }
    async fn get_latest_version(&self, base_uri: &str) -> lance_core::Result<Option<(u64, String)>> {
        Ok(self.read_latest(base_uri).await?.map(|(v, e)| (v, e.path)))
    }
    async fn get_latest_manifest_location(&self, base_uri: &str) -> lance_core::Result<Option<ManifestLocation>> {
        match self.read_latest(base_uri).await? {
            None => Ok(None),
            Some((v, e)) => Ok(Some(Self::location_of(v, &e, self.with_size)?)),
        }
    }
    async fn put_if_not_exists(&self, base_uri: &str, version: u64, path: &str, size: u64, e_tag: Option<String>) -> lance_core::Result<()> {
        self.write_entry("ext_put_if_not_exists", false, base_uri, version, path, size, e_tag).await
    }
    async fn put_if_exists(&self, base_uri: &str, version: u64, path: &str, size: u64, e_tag: Option<String>) -> lance_core::Result<()> {
        self.write_entry("ext_put_if_exists", true, base_uri, version, path, size, e_tag).await
    }
    async fn delete(&self, base_uri: &str) -> lance_core::Result<()> {
        let mut d = self.data.lock().unwrap();
        d.map.retain(|(b, _), _| b != base_uri);
        let snap = d.map.clone();
        d.history.push(snap);
        Ok(())
    }
}

// ---------------------------------------------------------------------------
// lock

#[derive(Default)]
pub struct LockSt {
    pub holder: Option<u32>,
    pub committed: BTreeSet<u64>,
    pub queue: VecDeque<u32>,
    /// (actor, event, version)
    pub log: Vec<(u32, &'static str, u64)>,
    /// two holders at once would be a bug of the lock itself
    pub double_hold: bool,
}

#[derive(Clone)]
pub struct VLock {
    pub ctl: Arc<SimCtl>,
    pub st: Arc<Mutex<LockSt>>,
    pub notify: Arc<tokio::sync::Notify>,
    pub actor: u32,
    /// the lock service knows which versions were committed (lock() answers CommitConflict for them)
    pub tracks: bool,
}

impl std::fmt::Debug for VLock {
    fn fmt(&self, f: &mut std::fmt::Formatter<'_>) -> std::fmt::Result {
        write!(f, "VLock(actor={})", self.actor)
    }
}

impl VLock {
    pub fn new(ctl: Arc<SimCtl>, tracks: bool) -> Self {
        Self { ctl, st: Arc::new(Mutex::new(LockSt::default())), notify: Arc::new(tokio::sync::Notify::new()), actor: 0, tracks }
    }
    pub fn as_actor(&self, actor: u32) -> Self {
        Self { actor, ..self.clone() }
    }
    pub fn holder(&self) -> Option<u32> {
        self.st.lock().unwrap().holder
    }
}

pub struct VLease {
    lock: VLock,
    version: u64,
}

#[async_trait]
impl CommitLock for VLock {
    type Lease = VLease;

    async fn lock(&self, version: u64) -> Result<VLease, CommitError> {
        match self.ctl.enter(self.actor, "lock", format!("lock@{version}")).await {
            Dec::Park => park().await,
            // a lost response of an acquisition would leave the lock held until its lease times out; lease expiry is not modelled,
            // so both failure kinds mean "not acquired"
            Dec::Fail | Dec::Go(Some(FaultKind::FailAfterEffect)) => {
                self.st.lock().unwrap().log.push((self.actor, "lock-failed", version));
                return Err(CommitError::OtherError(io_err("injected failure: lock")));
            }
            Dec::Go(Some(_)) => {
                // crash after acquiring: the lock stays held (no lease expiry modelled)
                {
                    let mut st = self.st.lock().unwrap();
                    if st.holder.is_none() {
                        st.holder = Some(self.actor);
                    }
                }
                let _ = self.ctl.leave(self.actor, Some(FaultKind::CrashAfter)).await;
                unreachable!()
            }
            Dec::Go(None) => {}
        }
        loop {
            let notified = self.notify.notified();
            {
                let mut st = self.st.lock().unwrap();
                let my_turn = st.queue.front().map(|a| *a == self.actor).unwrap_or(true);
                if st.holder.is_none() && my_turn {
                    if st.queue.front() == Some(&self.actor) {
                        st.queue.pop_front();
                    }
                    st.holder = Some(self.actor);
                    st.log.push((self.actor, "acquired", version));
                    break;
                }
                if !st.queue.contains(&self.actor) {
                    st.queue.push_back(self.actor);
                    st.log.push((self.actor, "waiting", version));
                }
            }
            self.ctl.set_lock_waiting(self.actor, true);
            notified.await;
        }
        self.ctl.set_lock_waiting(self.actor, false);
        if self.tracks && self.st.lock().unwrap().committed.contains(&version) {
            {
                let mut st = self.st.lock().unwrap();
                st.holder = None;
                st.log.push((self.actor, "conflict-known-to-lock", version));
            }
            self.notify.notify_waiters();
            return Err(CommitError::CommitConflict);
        }
        Ok(VLease { lock: self.clone(), version })
    }
}

#[async_trait]
impl CommitLease for VLease {
    async fn release(&self, success: bool) -> Result<(), CommitError> {
        let l = &self.lock;
        let after = match l.ctl.enter(l.actor, "unlock", format!("lock@{}", self.version)).await {
            Dec::Park => park().await,
            // a release that fails without effect would poison the lock for good (no lease expiry modelled): treated as "released, error returned"
            Dec::Fail => Some(FaultKind::FailAfterEffect),
            Dec::Go(a) => a,
        };
        {
            let mut st = l.st.lock().unwrap();
            if st.holder != Some(l.actor) {
                st.double_hold = true;
            }
            st.holder = None;
            if success {
                st.committed.insert(self.version);
            }
            st.log.push((l.actor, if success { "released-success" } else { "released-failure" }, self.version));
        }
        l.notify.notify_waiters();
        if l.ctl.leave(l.actor, after).await.is_err() {
            return Err(CommitError::OtherError(io_err("injected failure: response of lock release lost")));
        }
        Ok(())
    }
}

// ---------------------------------------------------------------------------
// scenario input

pub const H_CONDPUT: u8 = 0;
pub const H_RENAME: u8 = 1;
pub const H_LOCK: u8 = 2;
pub const H_EXT: u8 = 3;

pub fn handler_name(h: u8) -> &'static str {
    match h % 4 {
        0 => "condput",
        1 => "rename",
        2 => "lock",
        _ => "external",
    }
}

#[derive(Clone, Debug, PartialEq, Eq, Serialize, Deserialize)]
pub struct WriterSpec {
    /// 0 append two rows, 1 delete its own fragment, 2 delete one row of its own fragment, 3 set its own config key
    pub op: u8,
    /// lance's commit retries: true = default (20), false = one attempt
    pub retries: bool,
}

#[derive(Clone, Debug, PartialEq, Eq, Serialize, Deserialize)]
pub enum Sched {
    /// step i releases the idx(f_i, n)-th of the n parked calls (canonical order); afterwards the first
    Fracs(Vec<u16>),
    /// non-protocol calls are released eagerly; at the i-th point where >= 2 actors are parked at a protocol call the
    /// word picks the actor (rank among the parked ones, clamped); afterwards rank 0
    Word(Vec<u8>),
    /// depth-first enumeration of ALL words (at most `max_runs` runs)
    Explore { max_runs: u32 },
}

#[derive(Clone, Debug, PartialEq, Eq, Serialize, Deserialize)]
pub struct FaultSpec {
    /// actor the fault hits: writer index (0-based); 255 = the reader
    pub who: u8,
    /// index among that actor's protocol calls
    pub call: u8,
    /// 0 FailNoEffect, 1 FailAfterEffect, 2 CrashBefore, 3 CrashAfter
    pub kind: u8,
}

impl FaultSpec {
    pub fn fault_kind(&self) -> FaultKind {
        match self.kind % 4 {
            0 => FaultKind::FailNoEffect,
            1 => FaultKind::FailAfterEffect,
            2 => FaultKind::CrashBefore,
            _ => FaultKind::CrashAfter,
        }
    }
}

#[derive(Clone, Debug, PartialEq, Eq, Serialize, Deserialize)]
pub struct Scenario {
    pub handler: u8,
    pub v2_manifest: bool,
    pub stable_row_ids: bool,
    /// commits made before the race (0-2)
    pub prefix: u8,
    pub writers: Vec<WriterSpec>,
    /// number of open-latest (+ checkout of every new version) passes of the reader task; 0 = no reader
    pub reader_passes: u8,
    pub fault: Option<FaultSpec>,
    pub sched: Sched,
    /// lock handler: the lock service tracks committed versions
    pub lock_tracks: bool,
    /// external handler: the table (and its first prefix commit) was made without the external store
    pub ext_predated: bool,
    /// external handler: the store returns size and e_tag with locations
    pub ext_with_size: bool,
    /// external handler: stale-read plan (empty = consistent reads)
    pub ext_stale: Vec<u8>,
}

pub const READER: u32 = 10;
pub const PROBE: u32 = 90;
pub const TABLE: &str = "t";
pub const N_INITIAL: i64 = 6;

pub fn writer_uuid(i: usize) -> String {
    format!("c0ffee00-0000-4000-8000-{:012x}", i + 1)
}

pub fn fnv(b: &[u8]) -> u64 {
    let mut h: u64 = 0xcbf29ce484222325;
    for x in b {
        h ^= *x as u64;
        h = h.wrapping_mul(0x100000001b3);
    }
    h
}

// ---------------------------------------------------------------------------
// the simulated world

#[derive(Clone)]
pub struct Sim {
    pub store: VStore,
    pub ctl: Arc<SimCtl>,
    pub ext: VExt,
    pub lock: VLock,
    pub handler: u8,
}

impl Sim {
    pub fn new(sc: &Scenario) -> Self {
        let ctl = Arc::new(SimCtl::default());
        Self { store: VStore::new(), ext: VExt::new(ctl.clone(), sc.ext_with_size), lock: VLock::new(ctl.clone(), sc.lock_tracks), ctl, handler: sc.handler % 4 }
    }
    pub fn handler_for(&self, actor: u32) -> Arc<dyn CommitHandler> {
        match self.handler {
            H_CONDPUT => Arc::new(ConditionalPutCommitHandler),
            H_RENAME => Arc::new(RenameCommitHandler),
            H_LOCK => Arc::new(self.lock.as_actor(actor)),
            _ => Arc::new(ExternalManifestCommitHandler { external_manifest_store: Arc::new(self.ext.as_actor(actor)) }),
        }
    }
    pub async fn open(&self, actor: u32, handler: Arc<dyn CommitHandler>, version: Option<u64>) -> lance::Result<Dataset> {
        let session = new_session(&self.store.as_actor(actor));
        let mut b = DatasetBuilder::from_uri(store::uri(TABLE)).with_session(session).with_commit_handler(handler);
        if let Some(v) = version {
            b = b.with_version(v);
        }
        b.load().await
    }
}

fn schema() -> Arc<Schema> {
    Arc::new(Schema::new(vec![Field::new("uid", DataType::Int64, false), Field::new("val", DataType::Int64, true)]))
}

fn batch(uids: &[i64]) -> RecordBatch {
    RecordBatch::try_new(schema(), vec![Arc::new(Int64Array::from(uids.to_vec())), Arc::new(Int64Array::from(uids.iter().map(|u| u * 7).collect::<Vec<_>>()))]).unwrap()
}

fn config_tx(read_version: u64, key: &str, uuid: Option<String>) -> Transaction {
    let op = Operation::UpdateConfig {
        config_updates: Some(UpdateMap { update_entries: vec![UpdateMapEntry { key: key.to_string(), value: Some("1".to_string()) }], replace: false }),
        table_metadata_updates: None,
        schema_metadata_updates: None,
        field_metadata_updates: Default::default(),
    };
    let mut b = TransactionBuilder::new(read_version, op);
    if let Some(u) = uuid {
        b = b.uuid(u);
    }
    b.build()
}

/// the effect of a writer on the model: (uids added, uids removed, config key set)
#[derive(Clone, Debug, Default)]
pub struct Effect {
    pub add: Vec<i64>,
    pub del: Vec<i64>,
    pub key: Option<String>,
}

pub fn effect_of(i: usize, w: &WriterSpec) -> Effect {
    let i64i = i as i64;
    match w.op % 4 {
        0 => Effect { add: vec![100 * (i64i + 1), 100 * (i64i + 1) + 1], ..Default::default() },
        1 => Effect { del: vec![2 * i64i, 2 * i64i + 1], ..Default::default() },
        2 => Effect { del: vec![2 * i64i], ..Default::default() },
        _ => Effect { key: Some(format!("verif.w{i}")), ..Default::default() },
    }
}

fn cfg_of(sc: &Scenario) -> TableCfg {
    TableCfg { cols: vec![], stable_row_ids: sc.stable_row_ids, storage: 2, v2_manifest: sc.v2_manifest, handler: 0 }
}

/// phase 0 (ungated, actor 0): create the table, make the prefix commits
async fn build_table(sim: &Sim, sc: &Scenario) -> Result<u64, String> {
    let cfg = cfg_of(sc);
    let main = sim.handler_for(0);
    let plain: Arc<dyn CommitHandler> = Arc::new(ConditionalPutCommitHandler);
    let predated = sim.handler == H_EXT && sc.ext_predated;
    let session = new_session(&sim.store);
    let h0 = if predated { plain.clone() } else { main.clone() };
    let params = mk_write_params(&h0, &cfg, &session, WriteMode::Create, 2);
    let uids: Vec<i64> = (0..N_INITIAL).collect();
    let reader = RecordBatchIterator::new(vec![Ok(batch(&uids))], schema());
    let ds = Dataset::write(reader, &store::uri(TABLE), Some(params)).await.map_err(|e| format!("create: {e}"))?;
    let mut version = ds.version().version;
    for p in 0..(sc.prefix % 3) {
        let h = if predated && p == 0 { plain.clone() } else { main.clone() };
        let ds = sim.open(0, h, None).await.map_err(|e| format!("prefix open: {e}"))?;
        let tx = config_tx(ds.version().version, &format!("verif.p{p}"), None);
        let ds = CommitBuilder::new(Arc::new(ds)).execute(tx).await.map_err(|e| format!("prefix commit: {e}"))?;
        version = ds.version().version;
    }
    Ok(version)
}

/// phase 0: one handle and one staged (uncommitted) transaction per writer
async fn stage_writer(sim: &Sim, sc: &Scenario, i: usize, w: &WriterSpec) -> Result<(Dataset, Transaction), String> {
    let actor = i as u32 + 1;
    let h = sim.handler_for(actor);
    let ds = sim.open(actor, h.clone(), None).await.map_err(|e| format!("writer {i} open: {e}"))?;
    let rv = ds.version().version;
    let eff = effect_of(i, w);
    let mut tx = match w.op % 4 {
        0 => {
            let session = new_session(&sim.store.as_actor(actor));
            let params = mk_write_params(&h, &cfg_of(sc), &session, WriteMode::Append, 1000);
            InsertBuilder::new(Arc::new(ds.clone())).with_params(&params).execute_uncommitted(vec![batch(&eff.add)]).await.map_err(|e| format!("writer {i} stage append: {e}"))?
        }
        1 => Transaction::new(rv, Operation::Delete { updated_fragments: vec![], deleted_fragment_ids: vec![i as u64], predicate: format!("uid >= {} AND uid <= {}", 2 * i, 2 * i + 1) }, None),
        2 => {
            let frag = ds.get_fragment(i).ok_or_else(|| format!("writer {i}: no fragment {i}"))?;
            let pred = format!("uid = {}", 2 * i);
            let updated = frag.delete(&pred).await.map_err(|e| format!("writer {i} stage delete: {e}"))?.ok_or_else(|| format!("writer {i}: delete removed the whole fragment"))?;
            Transaction::new(rv, Operation::Delete { updated_fragments: vec![updated.metadata().clone()], deleted_fragment_ids: vec![], predicate: pred }, None)
        }
        _ => config_tx(rv, eff.key.as_deref().unwrap(), None),
    };
    tx.uuid = writer_uuid(i);
    Ok((ds, tx))
}

// ---------------------------------------------------------------------------
// results

#[derive(Clone, Debug)]
pub struct WOut {
    pub ok: Option<u64>,
    pub path: String,
    pub hash: Option<u64>,
    pub err: Option<String>,
}

#[derive(Clone, Debug)]
pub struct Seen {
    pub by: u32,
    pub how: &'static str,
    pub version: u64,
    pub path: String,
    pub hash: Option<u64>,
    pub txn_file: Option<String>,
}

#[derive(Clone, Debug)]
pub struct Ev {
    pub actor: u32,
    pub op: &'static str,
    pub path: String,
    pub proto: bool,
    pub slot: Option<u64>,
    pub fault: Option<FaultKind>,
}

#[derive(Default)]
pub struct Shared {
    pub wouts: BTreeMap<usize, WOut>,
    pub seen: Vec<Seen>,
    pub reader_errors: Vec<String>,
    pub reader_passes_done: u32,
}

pub struct RunReport {
    pub sim: Sim,
    pub base: u64,
    pub trace: Vec<Ev>,
    /// (options, taken) at every point where >= 2 actors were parked at a protocol call (Word / Explore)
    pub decisions: Vec<(usize, usize)>,
    pub stuck: Vec<u32>,
    pub dead: BTreeSet<u32>,
    pub panicked: Vec<(u32, String)>,
    pub steps_exhausted: bool,
    pub fault_fired: Option<(&'static str, String)>,
    pub fault_not_applicable: bool,
    pub shared: Shared,
    /// bytes of every staging manifest when it was first seen: path -> hash
    pub staged: BTreeMap<String, u64>,
}

pub fn slot_of(path: &str) -> Option<u64> {
    if let Some(i) = path.rfind('@') {
        return path[i + 1..].parse().ok();
    }
    let i = path.rfind("_versions/")?;
    let name = &path[i + "_versions/".len()..];
    let j = name.find(".manifest")?;
    let digits = &name[..j];
    if digits.is_empty() || !digits.chars().all(|c| c.is_ascii_digit()) {
        return None;
    }
    let n: u64 = digits.parse().ok()?;
    Some(if digits.len() == 20 { u64::MAX - n } else { n })
}

pub fn is_final_manifest(path: &str) -> bool {
    path.ends_with(".manifest") && slot_of(path).is_some() && !path.contains('@')
}

pub fn is_staging_manifest(path: &str) -> bool {
    slot_of(path).is_some() && !path.ends_with(".manifest") && !path.contains('@')
}

const MUTATING: &[&str] = &["put", "complete", "delete", "copy", "copy_if_not_exists", "rename", "rename_if_not_exists"];

struct Pend {
    src: u8,
    id: u64,
    actor: u32,
    op: &'static str,
    path: String,
}

/// uuids inside object names are random (lance draws them): blank them for the canonical order
fn canon(path: &str) -> String {
    let b: Vec<char> = path.chars().collect();
    let mut out = String::new();
    let mut i = 0;
    let is_uuid_at = |i: usize| -> bool {
        if i + 36 > b.len() {
            return false;
        }
        (0..36).all(|k| {
            let c = b[i + k];
            if k == 8 || k == 13 || k == 18 || k == 23 {
                c == '-'
            } else {
                c.is_ascii_hexdigit()
            }
        })
    };
    while i < b.len() {
        if is_uuid_at(i) {
            out.push_str("<uuid>");
            i += 36;
        } else {
            out.push(b[i]);
            i += 1;
        }
    }
    out
}

fn collect_pending(sim: &Sim, dead: &BTreeSet<u32>) -> Vec<Pend> {
    let mut v: Vec<Pend> = sim.store.pending().into_iter().map(|(id, actor, op, path)| Pend { src: 0, id, actor, op, path }).collect();
    v.extend(sim.ctl.pending().into_iter().map(|(id, actor, op, path)| Pend { src: 1, id, actor, op, path }));
    v.retain(|p| !dead.contains(&p.actor));
    v.sort_by(|a, b| (a.actor, a.op, canon(&a.path), a.src, a.id).cmp(&(b.actor, b.op, canon(&b.path), b.src, b.id)));
    v
}

fn is_proto(sim: &Sim, p: &Pend) -> bool {
    if p.src == 1 {
        return true;
    }
    if !p.path.contains("_versions/") {
        return false;
    }
    if MUTATING.contains(&p.op) {
        return true;
    }
    // the lock handler's head-check happens while the actor holds the lock
    p.op == "head" && sim.handler == H_LOCK && sim.lock.holder() == Some(p.actor)
}

struct TaskH {
    actor: u32,
    handle: tokio::task::JoinHandle<()>,
}

const VIRT_LIMIT: Duration = Duration::from_secs(48 * 3600);

/// advance virtual time until every live task is finished, parked at a gate, or waiting for the lock
async fn settle(sim: &Sim, tasks: &[TaskH], dead: &BTreeSet<u32>) -> bool {
    let mut chunk = Duration::from_millis(1);
    let mut virt = Duration::ZERO;
    // the real clock is consulted only to tell "work is still running on a thread outside this runtime" from "stuck"
    let real0 = std::time::Instant::now();
    loop {
        tokio::time::sleep(chunk).await;
        virt += chunk;
        let parked: BTreeSet<u32> = collect_pending(sim, dead).iter().map(|p| p.actor).collect();
        let waiting = sim.ctl.lock_waiting();
        let quiet = tasks.iter().all(|t| t.handle.is_finished() || dead.contains(&t.actor) || parked.contains(&t.actor) || waiting.contains(&t.actor));
        if quiet {
            return true;
        }
        if virt > VIRT_LIMIT {
            if real0.elapsed() > Duration::from_millis(1500) {
                return false;
            }
            std::thread::sleep(Duration::from_micros(200));
        }
        chunk = (chunk * 2).min(Duration::from_secs(600));
    }
}

/// One complete run of the scenario under one schedule (`word` overrides the scenario's schedule when given).
pub fn run_once(sc: &Scenario, word: Option<&[u8]>, env: &Env) -> Result<RunReport, Failure> {
    let sim = Sim::new(sc);
    sim.store.watch_manifests(true);
    // ---- phase 0 (ungated) ----
    let staged: Result<(u64, Vec<(Dataset, Transaction)>), String> = env.block_on(async {
        let base = build_table(&sim, sc).await?;
        let mut v = vec![];
        for (i, w) in sc.writers.iter().enumerate() {
            v.push(stage_writer(&sim, sc, i, w).await?);
        }
        Ok((base, v))
    });
    let (base, staged_w) = staged.map_err(|m| Failure::new("setup", m))?;
    sim.ext.set_stale_plan(sc.ext_stale.clone());

    // ---- phase 1: gated race on a paused-clock runtime ----
    let rt = tokio::runtime::Builder::new_current_thread().enable_all().start_paused(true).build().unwrap();
    let shared = Arc::new(Mutex::new(Shared::default()));
    let trace_on = std::env::var("VERIF_TRACE").is_ok();
    let n_writers = sc.writers.len();
    // the generated call index is folded onto the number of protocol calls the handler makes per attempt (x2 with retries)
    let fault = sc.fault.as_ref().map(|f| {
        if f.who == 255 {
            (READER, f.call as usize, f.fault_kind())
        } else {
            let w = f.who as usize % n_writers.max(1);
            let per_attempt = [1usize, 3, 4, 5][sim.handler as usize];
            let limit = per_attempt * if sc.writers[w].retries { 2 } else { 1 };
            (w as u32 + 1, f.call as usize % limit, f.fault_kind())
        }
    });
    let out = rt.block_on(async {
        for a in (1..=n_writers as u32).chain([READER]) {
            sim.store.gate_actor(a);
            sim.ctl.gate_actor(a);
        }
        let mut tasks: Vec<TaskH> = vec![];
        for (i, (ds, tx)) in staged_w.into_iter().enumerate() {
            let retries = sc.writers[i].retries;
            let shared = shared.clone();
            let store = sim.store.clone();
            let handle = tokio::spawn(async move {
                let r = CommitBuilder::new(Arc::new(ds)).with_max_retries(if retries { 20 } else { 0 }).execute(tx).await;
                let out = match r {
                    Ok(d) => {
                        let path = d.manifest_location().path.to_string();
                        let hash = store.read(&d.manifest_location().path).map(|b| fnv(&b));
                        WOut { ok: Some(d.version().version), path, hash, err: None }
                    }
                    Err(e) => WOut { ok: None, path: String::new(), hash: None, err: Some(format!("{e}")) },
                };
                shared.lock().unwrap().wouts.insert(i, out);
            });
            tasks.push(TaskH { actor: i as u32 + 1, handle });
        }
        if sc.reader_passes > 0 {
            let sim2 = sim.clone();
            let shared = shared.clone();
            let passes = sc.reader_passes;
            let handle = tokio::spawn(async move {
                for pass in 0..passes {
                    // the start of a pass is a schedulable point of its own
                    match sim2.ctl.enter(READER, "start", format!("pass{pass}")).await {
                        Dec::Park => park().await,
                        _ => {}
                    }
                    let h = sim2.handler_for(READER);
                    match sim2.open(READER, h.clone(), None).await {
                        Ok(d) => {
                            let latest = d.version().version;
                            let p = d.manifest_location().path.clone();
                            let hash = sim2.store.read(&p).map(|b| fnv(&b));
                            shared.lock().unwrap().seen.push(Seen { by: READER, how: "latest", version: latest, path: p.to_string(), hash, txn_file: d.manifest().transaction_file.clone() });
                            for v in (base + 1)..=latest {
                                match d.checkout_version(v).await {
                                    Ok(dv) => {
                                        let p = dv.manifest_location().path.clone();
                                        let hash = sim2.store.read(&p).map(|b| fnv(&b));
                                        shared.lock().unwrap().seen.push(Seen { by: READER, how: "checkout", version: v, path: p.to_string(), hash, txn_file: dv.manifest().transaction_file.clone() });
                                    }
                                    Err(e) => shared.lock().unwrap().reader_errors.push(format!("pass {pass}: checkout {v} (latest {latest}): {e}")),
                                }
                            }
                        }
                        Err(e) => shared.lock().unwrap().reader_errors.push(format!("pass {pass}: open latest: {e}")),
                    }
                    shared.lock().unwrap().reader_passes_done += 1;
                }
            });
            tasks.push(TaskH { actor: READER, handle });
        }

        // ---- the driver ----
        let mut trace: Vec<Ev> = vec![];
        let mut decisions: Vec<(usize, usize)> = vec![];
        let mut dead: BTreeSet<u32> = BTreeSet::new();
        let mut stuck: Vec<u32> = vec![];
        let mut proto_count: BTreeMap<u32, usize> = BTreeMap::new();
        let mut staged: BTreeMap<String, u64> = BTreeMap::new();
        let mut fault_fired: Option<(&'static str, String)> = None;
        let mut fault_na = false;
        let mut steps_exhausted = false;
        let mut step = 0usize;
        let mut dpos = 0usize;
        let max_steps = 4000usize;
        loop {
            let quiet = settle(&sim, &tasks, &dead).await;
            // remember the bytes of staging manifests as soon as they exist
            for p in sim.store.paths() {
                if is_staging_manifest(&p) && !staged.contains_key(&p) {
                    if let Some(b) = sim.store.read(&Path::from(p.clone())) {
                        staged.insert(p, fnv(&b));
                    }
                }
            }
            let pend = collect_pending(&sim, &dead);
            if pend.is_empty() || !quiet {
                for t in &tasks {
                    if !t.handle.is_finished() && !dead.contains(&t.actor) {
                        stuck.push(t.actor);
                    }
                }
                break;
            }
            if step >= max_steps {
                steps_exhausted = true;
                sim.store.ungate_all();
                sim.ctl.ungate_all();
                step = 0;
                continue;
            }
            let i = match (word, &sc.sched) {
                (None, Sched::Fracs(v)) => idx(v.get(step).copied().unwrap_or(0), pend.len()),
                (w, s) => {
                    let w: &[u8] = match (w, s) {
                        (Some(w), _) => w,
                        (None, Sched::Word(w)) => w,
                        _ => &[],
                    };
                    if let Some(i) = pend.iter().position(|p| !is_proto(&sim, p)) {
                        i
                    } else {
                        let mut actors: Vec<u32> = pend.iter().map(|p| p.actor).collect();
                        actors.dedup();
                        let c = if actors.len() >= 2 {
                            let c = (w.get(dpos).copied().unwrap_or(0) as usize).min(actors.len() - 1);
                            decisions.push((actors.len(), c));
                            dpos += 1;
                            c
                        } else {
                            0
                        };
                        pend.iter().position(|p| p.actor == actors[c]).unwrap()
                    }
                }
            };
            let p = &pend[i];
            let proto = is_proto(&sim, p);
            let mut ev = Ev { actor: p.actor, op: p.op, path: p.path.clone(), proto, slot: slot_of(&p.path), fault: None };
            if proto && p.op != "start" {
                let c = proto_count.entry(p.actor).or_insert(0);
                if let Some((fa, fc, fk)) = fault {
                    if fa == p.actor && fc == *c && fault_fired.is_none() && !fault_na {
                        let applicable = p.src == 1 || MUTATING.contains(&p.op);
                        if applicable {
                            if p.src == 1 {
                                sim.ctl.arm(p.actor, fk);
                            } else {
                                sim.store.arm(vec![Fault { actor: Some(p.actor), k: 0, kind: fk }]);
                            }
                            fault_fired = Some((p.op, p.path.clone()));
                            ev.fault = Some(fk);
                            if matches!(fk, FaultKind::CrashBefore | FaultKind::CrashAfter) {
                                dead.insert(p.actor);
                            }
                        } else {
                            fault_na = true;
                        }
                    }
                }
                *c += 1;
            }
            if trace_on {
                eprintln!("[sched] step {step}: release {}/{} actor {} {} {} proto={} slot={:?} fault={:?}", i, pend.len(), p.actor, p.op, p.path, proto, ev.slot, ev.fault);
            }
            let released = if p.src == 0 { sim.store.release(p.id) } else { sim.ctl.release(p.id) };
            debug_assert!(released);
            trace.push(ev);
            step += 1;
        }
        let mut panicked = vec![];
        for t in tasks {
            if t.handle.is_finished() {
                if let Err(e) = t.handle.await {
                    if e.is_panic() {
                        let p = e.into_panic();
                        let m = p.downcast_ref::<String>().cloned().or_else(|| p.downcast_ref::<&str>().map(|s| s.to_string())).unwrap_or_else(|| "<non-string panic>".into());
                        panicked.push((t.actor, m));
                    }
                }
            } else {
                t.handle.abort();
            }
        }
        (trace, decisions, dead, stuck, panicked, steps_exhausted, fault_fired, fault_na, staged)
    });
    drop(rt);
    sim.store.ungate_all();
    sim.ctl.ungate_all();
    sim.store.disarm();
    sim.ctl.disarm();
    sim.ext.set_stale_plan(vec![]);
    let (trace, decisions, dead, stuck, panicked, steps_exhausted, fault_fired, fault_not_applicable, staged) = out;
    let shared = std::mem::take(&mut *shared.lock().unwrap());
    Ok(RunReport { sim, base, trace, decisions, stuck, dead, panicked, steps_exhausted, fault_fired, fault_not_applicable, shared, staged })
}

// ---------------------------------------------------------------------------
// classification shared by C02 and C10

pub struct Shape {
    /// slots for which >= 2 writers issued a commit-handler call
    pub contended: BTreeSet<u64>,
    /// slots where one writer's call was released strictly between another writer's first and last call for that slot
    pub interleaved: BTreeSet<u64>,
    /// the order of protocol calls, as actor ids
    pub pattern: String,
}

pub fn shape_of(trace: &[Ev], n_writers: usize) -> Shape {
    let mut by_slot: BTreeMap<u64, Vec<(usize, u32)>> = BTreeMap::new();
    let mut pattern = String::new();
    for (i, e) in trace.iter().enumerate() {
        if !e.proto {
            continue;
        }
        pattern.push_str(&format!("{}{}", if e.actor == READER { "r".to_string() } else { e.actor.to_string() }, if e.fault.is_some() { "!" } else { "" }));
        if e.actor as usize <= n_writers && e.actor >= 1 {
            if let Some(s) = e.slot {
                by_slot.entry(s).or_default().push((i, e.actor));
            }
        }
    }
    let mut contended = BTreeSet::new();
    let mut interleaved = BTreeSet::new();
    for (s, calls) in &by_slot {
        let actors: BTreeSet<u32> = calls.iter().map(|c| c.1).collect();
        if actors.len() >= 2 {
            contended.insert(*s);
            for a in &actors {
                let first = calls.iter().find(|c| c.1 == *a).unwrap().0;
                let last = calls.iter().rev().find(|c| c.1 == *a).unwrap().0;
                if calls.iter().any(|c| c.1 != *a && c.0 > first && c.0 < last) {
                    interleaved.insert(*s);
                }
            }
        }
    }
    Shape { contended, interleaved, pattern }
}

/// raw view of the final manifests in the object store: version -> (path, bytes)
pub fn final_manifests(store: &VStore) -> BTreeMap<u64, (String, bytes::Bytes)> {
    let mut m = BTreeMap::new();
    for p in store.paths() {
        if is_final_manifest(&p) {
            if let (Some(v), Some(b)) = (slot_of(&p), store.read(&Path::from(p.clone()))) {
                m.insert(v, (p, b));
            }
        }
    }
    m
}

fn contains(hay: &[u8], needle: &[u8]) -> bool {
    hay.windows(needle.len()).any(|w| w == needle)
}

/// which writers' transaction uuids occur in these manifest bytes
pub fn owners_in(bytes: &[u8], n_writers: usize) -> Vec<usize> {
    (0..n_writers).filter(|i| contains(bytes, writer_uuid(*i).as_bytes())).collect()
}

pub async fn scan_uids(ds: &Dataset) -> Result<Vec<i64>, String> {
    let mut sc = ds.scan();
    sc.project(&["uid"]).map_err(|e| format!("{e}"))?;
    let b = sc.try_into_batch().await.map_err(|e| format!("{e}"))?;
    let col = b.column(0).as_any().downcast_ref::<Int64Array>().ok_or("uid column is not Int64")?;
    let mut v: Vec<i64> = col.values().to_vec();
    v.sort_unstable();
    Ok(v)
}

pub fn is_known_ext_lost_response(sc: &Scenario, rep: &RunReport) -> bool {
    sc.handler % 4 == H_EXT && matches!(sc.fault.as_ref().map(|f| f.fault_kind()), Some(FaultKind::FailAfterEffect)) && matches!(&rep.fault_fired, Some((op, _)) if *op == "ext_put_if_not_exists")
}

pub const KNOWN_EXT_LOST_RESPONSE: &str = "C10-ext-lost-response-dangling";
pub const KNOWN_REBASE_UNWRAP: &str = "C02-rebase-checkout-unwrap";

/// a writer panicked on an unwrap after it asked the external store for a version during its commit: the only such read is
/// the re-checkout of the read version for a second rebase (conflict_resolver.rs: initial_fragments_for_rebase unwraps
/// checkout_version), which failed because of an injected read failure or a stale read
pub fn is_known_rebase_unwrap(sc: &Scenario, rep: &RunReport, actor: u32, msg: &str) -> bool {
    let n = sc.writers.len() as u32;
    actor >= 1 && actor <= n && msg.contains("called `Result::unwrap()` on an `Err` value") && rep.trace.iter().any(|e| e.actor == actor && e.op == "ext_get")
}

/// Writers whose outcome the fault plan made unknowable to themselves: the injected failure hit a call whose effect was
/// applied, or a call after the protocol's commit point.  (A failure WITHOUT effect of the deciding call itself is not ambiguous.)
pub fn ambiguous_writers(sc: &Scenario, rep: &RunReport) -> BTreeSet<usize> {
    let n = sc.writers.len().max(1);
    match (&sc.fault, &rep.fault_fired) {
        (Some(f), Some((op, path))) if f.who != 255 => {
            let deciding = ["put", "rename_if_not_exists", "ext_put_if_not_exists", "lock"].contains(op) && !(sc.handler % 4 == H_EXT && *op == "put" && is_final_manifest(path));
            if f.fault_kind() == FaultKind::FailNoEffect && deciding {
                BTreeSet::new()
            } else {
                [f.who as usize % n].into_iter().collect()
            }
        }
        _ => BTreeSet::new(),
    }
}

/// one reader pass through the handler: open the latest version and check out every version (repairs unfinalised external commits)
pub async fn reader_pass(sim: &Sim, from: u64) -> Result<u64, String> {
    let h = sim.handler_for(PROBE);
    let ds = sim.open(PROBE, h.clone(), None).await.map_err(|e| format!("open latest: {e}"))?;
    let latest = ds.version().version;
    for v in from..=latest {
        sim.open(PROBE, h.clone(), Some(v)).await.map_err(|e| format!("open version {v} (latest {latest}): {e}"))?;
    }
    Ok(latest)
}

pub struct Ownership {
    /// version -> writers that returned Ok for it
    pub winners: BTreeMap<u64, Vec<usize>>,
    pub owner_of: BTreeMap<u64, usize>,
    pub owned_by: BTreeMap<usize, Vec<u64>>,
    pub finals: BTreeMap<u64, (String, bytes::Bytes)>,
    pub latest_raw: u64,
}

/// at most one Ok per version; final manifests dense; every new one carries exactly one writer's uuid, each writer's at most once;
/// Ok(v) => owner of v; Err => owns nothing unless ambiguous
pub fn check_ownership(sc: &Scenario, rep: &RunReport, what: &str, ambiguous: &BTreeSet<usize>, labels: &mut Vec<String>, rejected: &mut u64) -> Result<Ownership, Failure> {
    let n = sc.writers.len();
    let mut winners: BTreeMap<u64, Vec<usize>> = BTreeMap::new();
    for (i, w) in &rep.shared.wouts {
        if let Some(v) = w.ok {
            winners.entry(v).or_default().push(*i);
        }
    }
    for (v, ws) in &winners {
        ensure!(ws.len() == 1, "two-winners", "{what}: writers {ws:?} all returned Ok for version {v}");
        ensure!(*v > rep.base, "winner-below-base", "{what}: writer {} returned Ok for version {v} <= base {}", ws[0], rep.base);
    }
    let dead_writers = rep.dead.iter().filter(|a| **a >= 1 && **a as usize <= n).count();
    ensure!(rep.shared.wouts.len() + dead_writers == n, "harness", "{what}: {} of {n} writers reported ({dead_writers} crashed)", rep.shared.wouts.len());
    let finals = final_manifests(&rep.sim.store);
    let latest_raw = finals.keys().next_back().copied().unwrap_or(0);
    let want: Vec<u64> = (1..=latest_raw).collect();
    ensure!(finals.keys().copied().collect::<Vec<_>>() == want, "versions-not-dense", "{what}: final manifests for versions {:?}", finals.keys().collect::<Vec<_>>());
    let mut owner_of: BTreeMap<u64, usize> = BTreeMap::new();
    let mut owned_by: BTreeMap<usize, Vec<u64>> = BTreeMap::new();
    for (v, (p, b)) in &finals {
        let o = owners_in(b, n);
        if *v <= rep.base {
            ensure!(o.is_empty(), "old-version-rewritten", "{what}: manifest {p} of pre-race version {v} carries the transaction of writer(s) {o:?}");
            continue;
        }
        ensure!(o.len() == 1, "manifest-owner", "{what}: manifest {p} (version {v}) carries the transaction uuids of writers {o:?}, expected exactly one");
        owner_of.insert(*v, o[0]);
        owned_by.entry(o[0]).or_default().push(*v);
    }
    for (i, vs) in &owned_by {
        ensure!(vs.len() == 1, "double-commit", "{what}: the transaction of writer {i} was published as versions {vs:?}");
    }
    for (i, w) in &rep.shared.wouts {
        match w.ok {
            Some(v) => {
                ensure!(owner_of.get(&v) == Some(i), "winner-not-owner", "{what}: writer {i} returned Ok({v}) but version {v} holds the transaction of {:?}", owner_of.get(&v));
            }
            None => {
                if let Some(vs) = owned_by.get(i) {
                    ensure!(ambiguous.contains(i), "loser-visible", "{what}: writer {i} returned Err({}) but its transaction is published as version {vs:?}", truncate_str(w.err.as_deref().unwrap_or(""), 160));
                    labels.push("error-returned-but-committed".into());
                } else {
                    *rejected += 1;
                    let e = w.err.as_deref().unwrap_or("");
                    labels.push(if e.contains("conflict") || e.contains("Conflict") { "loser:conflict-error".to_string() } else { "loser:other-error".to_string() });
                }
            }
        }
    }
    Ok(Ownership { winners, owner_of, owned_by, finals, latest_raw })
}

/// a fresh process using `handler`: latest, versions() dense, read_transaction(v) = owner's uuid, rows and config keys of every
/// version = effects of the owners of the versions up to it
pub fn check_history(sc: &Scenario, rep: &RunReport, env: &Env, handler: Arc<dyn CommitHandler>, own: &Ownership, what: &str) -> CheckResult {
    let want: Vec<u64> = (1..=own.latest_raw).collect();
    env.block_on(async {
        let ds = rep.sim.open(PROBE, handler.clone(), None).await.map_err(|e| Failure::new("final-open", format!("{what}: {e}")))?;
        let latest = ds.version().version;
        ensure!(latest == own.latest_raw, "latest-mismatch", "{what}: lance opens version {latest}, the store holds final manifests up to {}", own.latest_raw);
        let vs: Vec<u64> = ds.versions().await.map_err(|e| Failure::new("final-versions", format!("{what}: {e}")))?.iter().map(|v| v.version).collect();
        ensure!(vs == want, "versions-not-dense", "{what}: versions() = {vs:?}");
        let mut uids: BTreeSet<i64> = (0..N_INITIAL).collect();
        let mut keys: BTreeSet<String> = BTreeSet::new();
        for v in (rep.base + 1)..=latest {
            let o = own.owner_of[&v];
            let eff = effect_of(o, &sc.writers[o]);
            for u in &eff.add {
                uids.insert(*u);
            }
            for u in &eff.del {
                uids.remove(u);
            }
            if let Some(k) = &eff.key {
                keys.insert(k.clone());
            }
            let d = rep.sim.open(PROBE, handler.clone(), Some(v)).await.map_err(|e| Failure::new("final-open-version", format!("{what}: version {v}: {e}")))?;
            let tx = d.read_transaction().await.map_err(|e| Failure::new("final-read-transaction", format!("{what}: version {v}: {e}")))?;
            let uuid = tx.map(|t| t.uuid).unwrap_or_default();
            ensure!(uuid == writer_uuid(o), "transaction-owner", "{what}: read_transaction of version {v} has uuid {uuid}, the manifest bytes carry writer {o}'s");
            let got = scan_uids(&d).await.map_err(|m| Failure::new("final-scan", format!("{what}: version {v}: {m}")))?;
            let exp: Vec<i64> = uids.iter().copied().collect();
            ensure!(got == exp, "content-mismatch", "{what}: version {v} (won by writer {o}) holds uids {got:?}, the winners up to {v} produce {exp:?}");
            let gk: BTreeSet<String> = d.config().keys().filter(|k| k.starts_with("verif.w")).cloned().collect();
            ensure!(gk == keys, "config-mismatch", "{what}: version {v} (won by writer {o}) has config keys {gk:?}, the winners up to {v} set {keys:?}");
        }
        Ok(())
    })
}

/// every manifest a writer or reader obtained during the race has the content (hash) and the transaction the version has now
pub fn check_observations(sc: &Scenario, rep: &RunReport, own: &Ownership, what: &str) -> CheckResult {
    let _ = sc;
    for (i, w) in &rep.shared.wouts {
        if let (Some(v), Some(h)) = (w.ok, w.hash) {
            if let Some((_, b)) = own.finals.get(&v) {
                ensure!(h == fnv(b), "observer-saw-other-manifest", "{what}: the manifest writer {i} got back from its commit of version {v} ({}) hashes to {h:x}, the final one to {:x}", w.path, fnv(b));
            }
        }
    }
    let mut per_version: BTreeMap<u64, (u64, String)> = BTreeMap::new();
    for s in &rep.shared.seen {
        if let Some(h) = s.hash {
            if let Some((h0, p0)) = per_version.get(&s.version) {
                ensure!(*h0 == h, "observers-disagree", "{what}: version {} was read as {h0:x} from {p0} and as {h:x} from {}", s.version, s.path);
            } else {
                per_version.insert(s.version, (h, s.path.clone()));
            }
            if let Some((_, b)) = own.finals.get(&s.version) {
                ensure!(h == fnv(b), "observer-saw-other-manifest", "{what}: actor {} ({}) read version {} from {} with content hash {h:x}, the final manifest hashes to {:x}", s.by, s.how, s.version, s.path, fnv(b));
            }
        }
        if s.version > rep.base {
            if let (Some(t), Some(o)) = (&s.txn_file, own.owner_of.get(&s.version)) {
                ensure!(t.contains(&writer_uuid(*o)), "observer-saw-other-transaction", "{what}: actor {} ({}) loaded version {} with transaction file {t}, the version belongs to writer {o}", s.by, s.how, s.version);
            }
        }
    }
    Ok(())
}

// ---------------------------------------------------------------------------
// the C02 oracle

pub struct Verdict {
    pub labels: Vec<String>,
    pub nontrivial: Option<String>,
    pub rejected: u64,
    /// (finding id, detail)
    pub known: Option<(String, String)>,
}

pub fn judge_c02(sc: &Scenario, rep: &RunReport, env: &Env) -> Result<Verdict, Failure> {
    let hn = handler_name(sc.handler);
    let n = sc.writers.len();
    let mut labels: Vec<String> = vec![format!("handler:{hn}")];
    let mut rejected = 0u64;
    let shape = shape_of(&rep.trace, n);
    let what = format!("handler {hn}, order of protocol calls {}", shape.pattern);

    for (a, m) in &rep.panicked {
        if is_known_rebase_unwrap(sc, rep, *a, m) && env.known(KNOWN_REBASE_UNWRAP) {
            return Ok(Verdict { labels, nontrivial: None, rejected, known: Some((KNOWN_REBASE_UNWRAP.to_string(), format!("{what}: writer {} panicked: {m}", a - 1))) });
        }
        fail!("panic", "{what}: task of actor {a} panicked: {m}");
    }
    if rep.sim.lock.st.lock().unwrap().double_hold {
        fail!("harness", "{what}: VLock was released by a non-holder");
    }
    // 1. a published manifest never changes or disappears
    let viol = rep.sim.store.watch_violations();
    if !viol.is_empty() {
        fail!("manifest-mutated", "{what}: {}", viol.join("; "));
    }
    // lost response / failure after the commit point: the writer cannot know whether it won
    let ambiguous: BTreeSet<usize> = ambiguous_writers(sc, rep);
    if let Some((op, _)) = &rep.fault_fired {
        labels.push(format!("fault:{:?}@{op}", sc.fault.as_ref().unwrap().fault_kind()));
    } else if sc.fault.is_some() {
        labels.push(if rep.fault_not_applicable { "fault:not-applicable-to-call".to_string() } else { "fault:unfired".to_string() });
    }
    if is_known_ext_lost_response(sc, rep) && env.known(KNOWN_EXT_LOST_RESPONSE) {
        return Ok(Verdict { labels, nontrivial: None, rejected, known: Some((KNOWN_EXT_LOST_RESPONSE.to_string(), format!("{what}: lost response of put_if_not_exists"))) });
    }
    // 2. stuck
    if !rep.stuck.is_empty() {
        fail!("stuck", "{what}: actors {:?} neither finished nor issued a storage call within 48 h of virtual time", rep.stuck);
    }
    if rep.steps_exhausted {
        labels.push("steps-exhausted".into());
    }
    if sc.handler % 4 == H_EXT {
        // an external commit may be left unfinalised by a failed call; any reader repairs it
        env.block_on(reader_pass(&rep.sim, 1)).map_err(|m| Failure::new("final-open", format!("{what}: reader pass through the external handler: {m}")))?;
        let viol = rep.sim.store.watch_violations();
        if !viol.is_empty() {
            fail!("manifest-mutated", "{what}: during the repairing reader pass: {}", viol.join("; "));
        }
    }
    let own = check_ownership(sc, rep, &what, &ambiguous, &mut labels, &mut rejected)?;
    // through lance (fresh process): versions dense, transactions and contents as the owners say
    check_history(sc, rep, env, rep.sim.handler_for(PROBE), &own, &what)?;
    // what concurrent observers saw is what is there now
    check_observations(sc, rep, &own, &what)?;
    let winners = &own.winners;
    if !rep.shared.reader_errors.is_empty() {
        // not part of this property's statement (C10 judges readers of the external handler); counted per handler
        labels.push(format!("reader-error:{hn}"));
        rejected += rep.shared.reader_errors.len() as u64;
        if std::env::var("VERIF_SHOW_READER_ERRORS").is_ok() {
            eprintln!("[reader-error] {what}: {}", rep.shared.reader_errors.join(" | "));
        }
    }
    // classification
    for (i, w) in sc.writers.iter().enumerate() {
        let _ = i;
        labels.push(format!("op:{}", ["append", "delete-fragment", "delete-row", "config"][w.op as usize % 4]));
    }
    labels.push(format!("winners:{}", winners.len()));
    labels.push(if sc.writers.iter().all(|w| w.retries) { "retries:on" } else if sc.writers.iter().any(|w| w.retries) { "retries:mixed" } else { "retries:off" }.to_string());
    if sc.reader_passes > 0 {
        labels.push("with-reader".into());
    }
    if !shape.interleaved.is_empty() {
        labels.push("slot-calls-interleaved".into());
    }
    let nontrivial = if !shape.contended.is_empty() {
        labels.push("slot-contended".into());
        Some(format!("{hn}|{}|{:?}|{}", sc.writers.iter().map(|w| format!("{}{}", w.op % 4, if w.retries { "r" } else { "" })).collect::<Vec<_>>().join(","), sc.fault.as_ref().map(|f| (f.who, f.call, f.kind % 4)), shape.pattern))
    } else {
        None
    };
    Ok(Verdict { labels, nontrivial, rejected, known: None })
}

/// run under the scenario's schedule; for `Explore` enumerate every word depth-first
pub fn run_and_judge(sc: &Scenario, obs: &mut Obs, env: &Env, judge: &dyn Fn(&Scenario, &RunReport, &Env) -> Result<Verdict, Failure>) -> CheckResult {
    let apply = |v: Verdict, obs: &mut Obs| {
        for l in v.labels {
            obs.label(l);
        }
        obs.rejected += v.rejected;
        if let Some((id, d)) = v.known {
            obs.known_hit(&id, d);
        }
        v.nontrivial
    };
    match &sc.sched {
        Sched::Explore { max_runs } => {
            let mut stack: Vec<Vec<u8>> = vec![vec![]];
            let mut runs = 0u32;
            let mut nt = 0u32;
            let mut patterns: BTreeSet<String> = BTreeSet::new();
            while let Some(word) = stack.pop() {
                if runs >= *max_runs {
                    obs.label("explore:truncated");
                    break;
                }
                runs += 1;
                let rep = run_once(sc, Some(&word), env)?;
                let v = judge(sc, &rep, env).map_err(|f| Failure::new(f.kind, format!("[word {:?}] {}", word, f.msg)))?;
                if let Some(k) = apply(v, obs) {
                    nt += 1;
                    patterns.insert(k);
                }
                // children: every alternative at every decision beyond the prefix
                for j in word.len()..rep.decisions.len() {
                    let (options, taken) = rep.decisions[j];
                    for alt in 0..options {
                        if alt != taken {
                            let mut w: Vec<u8> = rep.decisions[..j].iter().map(|d| d.1 as u8).collect();
                            w.push(alt as u8);
                            stack.push(w);
                        }
                    }
                }
            }
            obs.inner += runs as u64;
            obs.label(format!("explore:{}:{}-writers:runs={runs}", handler_name(sc.handler), sc.writers.len()));
            if nt > 0 {
                obs.nontrivial(format!("explore|{}|{}|{}", handler_name(sc.handler), patterns.len(), patterns.iter().next().cloned().unwrap_or_default()));
            }
            Ok(())
        }
        _ => {
            let rep = run_once(sc, None, env)?;
            obs.inner += 1;
            let v = judge(sc, &rep, env)?;
            if let Some(k) = apply(v, obs) {
                obs.nontrivial(k);
            }
            Ok(())
        }
    }
}

// ---------------------------------------------------------------------------
// the property

pub struct C02;

fn writer_spec() -> impl Strategy<Value = WriterSpec> {
    (0u8..4, any::<bool>()).prop_map(|(op, retries)| WriterSpec { op, retries })
}

pub fn scenario_strategy(handlers: &'static [u8], fault_kinds: &'static [u8], with_stale: bool) -> BoxedStrategy<Scenario> {
    (
        (prop::sample::select(handlers), any::<bool>(), any::<bool>(), 0u8..3),
        prop::collection::vec(writer_spec(), 2..4),
        prop_oneof![3 => Just(0u8), 2 => Just(1u8), 1 => Just(2u8)],
        prop::option::weighted(0.4, (0u8..3, 0u8..7, prop::sample::select(fault_kinds))),
        prop_oneof![
            3 => prop::collection::vec(any::<u16>(), 0..120).prop_map(Sched::Fracs),
            2 => prop::collection::vec(0u8..3, 0..14).prop_map(Sched::Word),
        ],
        (any::<bool>(), any::<bool>(), any::<bool>()),
        if with_stale { prop_oneof![2 => Just(vec![]), 1 => prop::collection::vec(0u8..3, 1..6)].boxed() } else { Just(vec![]).boxed() },
    )
        .prop_map(|((handler, v2_manifest, stable_row_ids, prefix), writers, reader_passes, fault, sched, (lock_tracks, ext_predated, ext_with_size), ext_stale)| Scenario {
            handler,
            v2_manifest,
            stable_row_ids,
            prefix,
            writers,
            reader_passes,
            fault: fault.map(|(who, call, kind)| FaultSpec { who, call, kind }),
            sched,
            lock_tracks,
            ext_predated,
            ext_with_size,
            ext_stale,
        })
        .boxed()
}

impl Property for C02 {
    type Input = Scenario;
    fn id(&self) -> &'static str {
        "C02"
    }
    fn level(&self) -> &'static str {
        "exploration"
    }
    fn rule(&self) -> String {
        "One small table (6 rows in 3 fragments, V1 or V2 manifest names, 0-2 earlier commits) on the controlled in-memory store; 2-3 writers, each with its own store actor, session, commit-handler instance and Dataset handle opened at the same version, each holding one staged transaction with a fixed uuid (append of two rows written beforehand with InsertBuilder::execute_uncommitted; delete of its own fragment; delete of one row of its own fragment via FileFragment::delete; update of its own config key) which it commits with CommitBuilder::execute with lance's commit retries on (20) or off (generated); optionally one reader that opens the latest version and checks out every new version 1-2 times. All tasks run on ONE paused-clock current_thread runtime; every object-store call, external-manifest-store call and lock call of these actors parks at a gate and a generated schedule releases one parked call at a time after virtual time has been advanced until every live task is parked, finished or waiting for the lock: either a list of fractions (pick among all parked calls) or a word that orders only the commit-handler calls (all other calls released eagerly). Handlers: ConditionalPut, RenameIfNotExists, the CommitLock blanket impl over an in-memory lock (with or without knowledge of committed versions) and ExternalManifestCommitHandler over an in-memory atomic external store (tables born with it or pre-dating it; with or without sizes). At most one fault per run on the k-th commit-handler call of one writer (k folded onto the number of calls the handler makes per attempt, twice that with retries): FailNoEffect or FailAfterEffect (lost response). Enumerated part: for every handler, 2 writers, depth-first enumeration of ALL orders of the commit-handler calls (quick: retries off; thorough: also retries on, 3 writers, a reader). Oracle: the store's monitor saw no final manifest change or disappear; per version at most one writer returned Ok; the raw bytes of every new final manifest carry exactly one writer's transaction uuid, each writer's at most once; a writer that returned Ok(v) owns v; a writer that returned Err owns nothing unless its response was lost by the plan; final manifests are dense; a fresh process sees versions() dense, read_transaction(v) = owner's uuid, and rows / config keys of every version equal to the effects of the owners of the versions up to it; every manifest content hash a reader or writer observed during the race equals the final one; nobody is stuck. Non-trivial = some version slot received commit-handler calls of >= 2 writers; distinct by (handler, ops, retries, fault, order of commit-handler calls).".into()
    }
    fn assumptions(&self) -> Vec<String> {
        vec![
            "writers are staged transactions committed with CommitBuilder (the commit loop, conflict rebase and handler protocol are lance's; the scan of a high-level delete is not part of the race)".into(),
            "the lock has no lease expiry; a failed acquisition acquires nothing and a failed release releases (the poisoned-lock case is outside the contract)".into(),
            "the external store is linearisable in C02 (stale reads are C10's)".into(),
            "DuplicateDelivery of the DESIGN's fault list is not generated: no commit-handler call is retried at the storage level by lance on the in-memory store".into(),
            "the real clock is read only to distinguish work on lance's CPU pool from a stuck task; it never influences a schedule decision".into(),
        ]
    }
    fn cases(&self, tier: Tier) -> u32 {
        tier.pick(2400, 40000)
    }
    fn max_shrink_iters(&self) -> u32 {
        120
    }
    fn strategy(&self, _tier: Tier) -> BoxedStrategy<Scenario> {
        scenario_strategy(&[0, 1, 2, 3], &[0, 1], false)
    }
    fn enumerate(&self, tier: Tier) -> Vec<Scenario> {
        let mut v = vec![];
        for handler in 0u8..4 {
            let mk = |ops: &[u8], retries: bool, reader: u8, max_runs: u32| Scenario {
                handler,
                v2_manifest: handler % 2 == 0,
                stable_row_ids: false,
                prefix: 1,
                writers: ops.iter().map(|o| WriterSpec { op: *o, retries }).collect(),
                reader_passes: reader,
                fault: None,
                sched: Sched::Explore { max_runs },
                lock_tracks: true,
                ext_predated: false,
                ext_with_size: false,
                ext_stale: vec![],
            };
            v.push(mk(&[0, 3], false, 0, 3000));
            if tier == Tier::Thorough {
                // external handler, 2 writers with retries: 12 366 orders (a loser may spin through its 20 retries while the winner is parked)
                v.push(mk(&[0, 1], true, 0, 20000));
                v.push(mk(&[2, 3], false, 1, 5000));
                v.push(mk(&[0, 1, 3], false, 0, 5000));
            }
        }
        v
    }
    fn check(&self, input: &Scenario, obs: &mut Obs, env: &Env) -> CheckResult {
        default_handlers_are_atomic(obs, env)?;
        run_and_judge(input, obs, env, &judge_c02)
    }
}

/// The handler lance picks by default for every store scheme that offers an atomic create (all of them do: conditional
/// put on s3 / gs / az / memory, local files) must be one of the atomic handlers, never the unsafe fallback.  The set of
/// schemes is finite, so this is a complete enumeration; it runs with every case (it costs microseconds).
fn default_handlers_are_atomic(obs: &mut Obs, env: &Env) -> CheckResult {
    for url in ["s3://bucket/t.lance", "gs://bucket/t.lance", "az://container/t.lance", "memory://t.lance", "file:///tmp/t.lance", "file-object-store:///tmp/t.lance", "/tmp/t.lance", "relative/t.lance"] {
        let handler = env.block_on(lance_table::io::commit::commit_handler_from_url(url, &None)).map_err(|e| Failure::new("default-handler-error", format!("commit_handler_from_url({url}): {e}")))?;
        let name = format!("{handler:?}");
        ensure!(!name.contains("Unsafe"), "default-handler-not-atomic", "the default commit handler for {url} is {name}: two writers can both publish the same version");
    }
    obs.inner += 1;
    Ok(())
}
