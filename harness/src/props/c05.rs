//! C05 — Every committed version is internally well formed.

use super::hist::*;
use crate::engine::*;
use crate::store::VStore;
use crate::world::*;
use arrow_array::{RecordBatch, UInt64Array};
use futures::TryStreamExt;
use lance::Dataset;
use lance_index::DatasetIndexExt;
use lance_table::format::RowIdMeta;
use lance_table::rowids::read_row_ids;
use proptest::prelude::*;
use std::collections::{BTreeSet, HashSet};

pub struct C05;

/// The invariant bundle.  `expect_rows` is the model's row count.
pub async fn well_formed(ds: &Dataset, expect_rows: usize, stable_row_ids: bool, env: &Env, obs: &mut Obs) -> CheckResult {
    let v = ds.version().version;
    // what the version itself claims (losing the flag is C07/C37's business)
    let stable_row_ids = stable_row_ids && ds.manifest().uses_stable_row_ids();
    // 1. schema field ids unique
    let schema = ds.schema();
    let mut ids = HashSet::new();
    for f in schema.fields_pre_order() {
        if !ids.insert(f.id) {
            return Err(Failure::new("wf-duplicate-field-id", format!("v{v}: field id {} appears twice in the schema {schema:?}", f.id)));
        }
    }
    let m = ds.manifest();
    // 2. fragments: ids strictly increasing, <= max_fragment_id
    let mut prev: Option<u64> = None;
    for f in m.fragments.iter() {
        if let Some(p) = prev {
            if f.id <= p {
                return Err(Failure::new("wf-fragment-order", format!("v{v}: fragment id {} after {}", f.id, p)));
            }
        }
        prev = Some(f.id);
        match m.max_fragment_id {
            Some(mx) if f.id <= mx as u64 => {}
            other => return Err(Failure::new("wf-max-fragment-id", format!("v{v}: fragment id {} above recorded max_fragment_id {:?}", f.id, other))),
        }
        // 3. no non-tombstone field id stored by two data files of the fragment
        let mut seen = HashSet::new();
        for df in &f.files {
            for fid in &df.fields {
                if *fid >= 0 && !seen.insert(*fid) {
                    return Err(Failure::new("wf-field-in-two-files", format!("v{v}: fragment {} stores field {} in two data files: {:?}", f.id, fid, f.files)));
                }
                if *fid >= 0 && !ids.contains(fid) {
                    // a data file may keep columns of dropped fields; that is allowed
                    obs.label("data-file-has-dropped-field");
                }
                if *fid < 0 {
                    obs.label("tombstoned-field");
                }
            }
        }
    }
    // 4. per fragment: physical rows, deletion vector bounds, row id sequence
    let mut total_live = 0usize;
    let mut all_ids: HashSet<u64> = HashSet::new();
    for frag in ds.get_fragments() {
        let meta = frag.metadata().clone();
        let phys = frag.physical_rows().await.map_err(|e| Failure::new("wf-physical-rows-error", format!("v{v} frag {}: {e}", meta.id)))?;
        if let Some(p) = meta.physical_rows {
            if p != phys {
                return Err(Failure::new("wf-physical-rows", format!("v{v} frag {}: manifest says {p} physical rows, file has {phys}", meta.id)));
            }
        }
        let dv = frag.get_deletion_vector().await.map_err(|e| Failure::new("wf-deletion-vector-error", format!("v{v} frag {}: {e}", meta.id)))?;
        let mut ndel = 0usize;
        if let Some(dv) = dv {
            for pos in dv.iter() {
                if pos as usize >= phys {
                    return Err(Failure::new("wf-deletion-out-of-range", format!("v{v} frag {}: deletion vector names row {pos} of {phys}", meta.id)));
                }
                ndel += 1;
            }
            if let Some(df) = &meta.deletion_file {
                if let Some(n) = df.num_deleted_rows {
                    if n != ndel {
                        return Err(Failure::new("wf-num-deleted-rows", format!("v{v} frag {}: num_deleted_rows {n} but vector has {ndel}", meta.id)));
                    }
                }
            }
        } else if meta.deletion_file.is_some() {
            return Err(Failure::new("wf-deletion-file-unreadable", format!("v{v} frag {}: deletion file recorded but no vector", meta.id)));
        }
        if ndel > 0 {
            obs.label("has-deletions");
        }
        total_live += phys - ndel;
        if stable_row_ids {
            match &meta.row_id_meta {
                Some(RowIdMeta::Inline(bytes)) => {
                    let seq = read_row_ids(bytes).map_err(|e| Failure::new("wf-row-id-seq-decode", format!("v{v} frag {}: {e}", meta.id)))?;
                    if seq.len() as usize != phys {
                        return Err(Failure::new("wf-row-id-seq-len", format!("v{v} frag {}: {} row ids for {phys} physical rows", meta.id, seq.len())));
                    }
                }
                Some(RowIdMeta::External(_)) => obs.label("external-row-id-seq"),
                None => return Err(Failure::new("wf-row-id-seq-missing", format!("v{v} frag {}: stable row ids enabled but fragment has no row id sequence", meta.id))),
            }
        }
    }
    if total_live != expect_rows {
        return Err(Failure::new("wf-live-rows", format!("v{v}: sum(physical - deleted) = {total_live}, model has {expect_rows} rows")));
    }
    // every top-level column can be read for every row (each data file has the fragment's row count)
    for f in schema.fields.iter() {
        let mut sc = ds.scan();
        sc.project(&[f.name.as_str()]).map_err(|e| Failure::new("wf-project-error", format!("v{v} column {}: {e}", f.name)))?;
        let n: usize = sc
            .try_into_stream()
            .await
            .map_err(|e| Failure::new("wf-column-scan-error", format!("v{v} column {}: {e}", f.name)))?
            .try_collect::<Vec<RecordBatch>>()
            .await
            .map_err(|e| Failure::new("wf-column-scan-error", format!("v{v} column {}: {e}", f.name)))?
            .iter()
            .map(|b| b.num_rows())
            .sum();
        if n != expect_rows {
            return Err(Failure::new("wf-column-rows", format!("v{v}: column {} scans {n} rows, model has {expect_rows}", f.name)));
        }
    }
    if stable_row_ids {
        let mut sc = ds.scan();
        sc.project(&["uid"]).ok();
        sc.with_row_id();
        let batches: Vec<RecordBatch> = sc
            .try_into_stream()
            .await
            .map_err(|e| Failure::new("wf-rowid-scan-error", format!("v{v}: {e}")))?
            .try_collect()
            .await
            .map_err(|e| Failure::new("wf-rowid-scan-error", format!("v{v}: {e}")))?;
        for b in &batches {
            let ids = b.column_by_name("_rowid").and_then(|c| c.as_any().downcast_ref::<UInt64Array>().cloned());
            let Some(ids) = ids else { return Err(Failure::new("wf-rowid-column-missing", format!("v{v}: no _rowid column"))) };
            for i in 0..ids.len() {
                if !all_ids.insert(ids.value(i)) {
                    return Err(Failure::new("wf-duplicate-row-id", format!("v{v}: row id {} visible twice", ids.value(i))));
                }
            }
        }
    }
    // 5. index metadata only names schema fields
    let indices = ds.load_indices().await.map_err(|e| Failure::new("wf-load-indices-error", format!("v{v}: {e}")))?;
    for idx in indices.iter() {
        for fid in &idx.fields {
            if !ids.contains(fid) {
                return Err(Failure::new("wf-index-field-missing", format!("v{v}: index {} names field {} which is not in the schema", idx.name, fid)));
            }
        }
    }
    // 6. validate()
    if let Err(e) = ds.validate().await {
        let msg = format!("{e}");
        if msg.contains("is not in increasing order") && msg.contains("-2") || (msg.contains("Field id -2") ) {
            if env.known("C05-validate-tombstone") {
                obs.known_hit("C05-validate-tombstone", msg);
                return Ok(());
            }
            return Err(Failure::new("wf-validate-tombstone", format!("v{v}: validate() rejects a well-formed version: {msg}")));
        }
        return Err(Failure::new("wf-validate-error", format!("v{v}: validate() failed: {}", truncate_str(&msg, 600))));
    }
    Ok(())
}

pub async fn run(input: &HistInput, obs: &mut Obs, env: &Env) -> CheckResult {
    let store = VStore::new();
    let mut w = match World::create(store, "t", &input.cfg, &input.initial, input.init_file_rows as usize).await {
        Ok(w) => w,
        Err(m) => {
            obs.rejected += 1;
            obs.label(format!("create-rejected:{}", truncate_str(&m, 60)));
            return Ok(());
        }
    };
    well_formed(&w.ds, w.state().rows.len(), input.cfg.stable_row_ids, env, obs).await?;
    let mut interesting: BTreeSet<&'static str> = BTreeSet::new();
    for (i, step) in input.steps.iter().enumerate() {
        let out = w.apply(step, obs).await.map_err(|f| Failure::new(f.kind, format!("step {i} ({}): {}", step.op.kind(), f.msg)))?;
        match out {
            StepOutcome::Committed { rebased, .. } => {
                obs.inner += 1;
                let st = w.state().clone();
                verify_state(&w.ds, &st, &format!("after step {i} ({})", step.op.kind())).await?;
                well_formed(&w.ds, st.rows.len(), input.cfg.stable_row_ids, env, obs).await.map_err(|f| Failure::new(f.kind, format!("after step {i} ({}): {}", step.op.kind(), f.msg)))?;
                match step.op {
                    Op::AlterColumn { .. } => {
                        interesting.insert("alter");
                    }
                    Op::DropColumn { .. } => {
                        interesting.insert("drop");
                    }
                    Op::Compact { .. } => {
                        interesting.insert("compact");
                    }
                    Op::Restore { .. } => {
                        interesting.insert("restore");
                    }
                    _ => {}
                }
                if rebased {
                    interesting.insert("rebased");
                }
                // sample one older version
                if i % 3 == 2 {
                    let known: Vec<u64> = w.versions.keys().copied().collect();
                    let v = known[(i * 7) % known.len()];
                    let old = w.ds.checkout_version(v).await.map_err(|e| Failure::new("checkout-error", format!("v{v}: {e}")))?;
                    let st = w.versions[&v].clone();
                    well_formed(&old, st.rows.len(), input.cfg.stable_row_ids, env, obs).await.map_err(|f| Failure::new(f.kind, format!("old version {v}: {}", f.msg)))?;
                }
            }
            StepOutcome::Rejected(_m) => obs.label(format!("rejected:{}", step.op.kind())),
            StepOutcome::NoOp => {}
        }
    }
    if !interesting.is_empty() {
        obs.nontrivial(format!("{}|{}", op_kinds(&input.steps), interesting.iter().cloned().collect::<Vec<_>>().join("+")));
    }
    Ok(())
}

impl Property for C05 {
    type Input = HistInput;
    fn id(&self) -> &'static str {
        "C05"
    }
    fn rule(&self) -> String {
        "Histories of 1-12 generated ops (append, overwrite, delete, update, compaction, scalar index create/drop/optimize, add/drop/alter column, config update, restore, tags, reopen; 15% run on a stale handle checked out at one of the last 4 versions with retries off) on a generated table (1-4 typed columns, storage 2.0/2.1/2.2, stable row ids on/off, V1/V2 manifest names, conditional-put or rename commit handler). After every commit the invariant bundle runs on the new version and on a sampled older version. Non-trivial = history contains a committed alter/drop column, compaction, restore or rebased commit; distinct by op-kind sequence.".into()
    }
    fn assumptions(&self) -> Vec<String> {
        vec!["the in-memory store is linearisable and never loses acknowledged writes".into()]
    }
    fn cases(&self, tier: Tier) -> u32 {
        tier.pick(2000, 40000)
    }
    fn max_shrink_iters(&self) -> u32 {
        150
    }
    fn strategy(&self, _tier: Tier) -> BoxedStrategy<HistInput> {
        hist_strategy(COMMON_TYPES, V2_STORAGES, any_op(), 12, 15)
    }
    fn check(&self, input: &HistInput, obs: &mut Obs, env: &Env) -> CheckResult {
        env.block_on(run(input, obs, env))
    }
}
