//! C06 — Time travel is immutable.
//! Every version's model state is fixed when it is committed; after every later
//! step each existing version is checked out again (alternating the warm session
//! and a brand-new session) and must still read exactly that state.

use super::hist::*;
use crate::engine::*;
use crate::store::VStore;
use crate::world::*;
use lance_index::DatasetIndexExt;
use proptest::prelude::*;
use std::collections::BTreeMap;

pub struct C06;

async fn snapshot_extra(ds: &lance::Dataset) -> Result<(usize, Vec<(String, String)>), Failure> {
    let deleted = ds.count_deleted_rows().await.map_err(|e| Failure::new("count-deleted-error", format!("{e}")))?;
    let idx = ds.load_indices().await.map_err(|e| Failure::new("load-indices-error", format!("{e}")))?;
    let mut v: Vec<(String, String)> = idx.iter().map(|i| (i.name.clone(), i.uuid.to_string())).collect();
    v.sort();
    Ok((deleted, v))
}

pub async fn run(input: &HistInput, obs: &mut Obs, _env: &Env) -> CheckResult {
    let store = VStore::new();
    let mut w = match World::create(store, "t", &input.cfg, &input.initial, input.init_file_rows as usize).await {
        Ok(w) => w,
        Err(_) => {
            obs.rejected += 1;
            return Ok(());
        }
    };
    // extra (lance-derived) facts recorded right after each commit: deletion count and index list
    let mut extra: BTreeMap<u64, (usize, Vec<(String, String)>)> = BTreeMap::new();
    extra.insert(w.latest, snapshot_extra(&w.ds).await?);
    let mut maintenance_after_3 = false;
    for (i, step) in input.steps.iter().enumerate() {
        let before: Vec<u64> = w.versions.keys().copied().collect();
        let out = w.apply(step, obs).await.map_err(|f| Failure::new(f.kind, format!("step {i} ({}): {}", step.op.kind(), f.msg)))?;
        if let StepOutcome::Committed { .. } = out {
            if before.len() >= 3 && matches!(step.op, Op::Compact { .. } | Op::Restore { .. } | Op::Overwrite { .. } | Op::OptimizeIndices { .. } | Op::CreateIndex { .. } | Op::DropColumn { .. }) {
                maintenance_after_3 = true;
            }
        }
        // record extras for new versions (read through a fresh session, right after the commit)
        for v in w.versions.keys().copied().collect::<Vec<_>>() {
            if !extra.contains_key(&v) {
                let d = w.open_fresh(Some(v)).await.map_err(|m| Failure::new("open-version-error", format!("v{v} right after commit: {m}")))?;
                extra.insert(v, snapshot_extra(&d).await?);
            }
        }
        // re-read every version
        for (k, (v, st)) in w.versions.iter().enumerate() {
            let fresh = (i + k) % 2 == 0;
            let d = if fresh { w.open_fresh(Some(*v)).await } else { w.ds.checkout_version(*v).await.map_err(|e| e.to_string()) };
            let d = d.map_err(|m| Failure::new("time-travel-open-error", format!("after step {i} ({}): version {v} cannot be opened: {m}", step.op.kind())))?;
            obs.inner += 1;
            verify_state(&d, st, &format!("after step {i} ({}), version {v} ({})", step.op.kind(), if fresh { "fresh session" } else { "warm session" }))
                .await
                .map_err(|f| Failure::new(format!("time-travel:{}", f.kind), f.msg))?;
            let now = snapshot_extra(&d).await?;
            if now != extra[v] {
                return Err(Failure::new("time-travel:extras-changed", format!("after step {i} ({}): version {v} deletions/index list changed from {:?} to {:?}", step.op.kind(), extra[v], now)));
            }
        }
    }
    if w.versions.len() >= 3 && maintenance_after_3 {
        obs.nontrivial(op_kinds(&input.steps));
    }
    obs.label(format!("versions-{}", w.versions.len().min(10)));
    Ok(())
}

impl Property for C06 {
    type Input = HistInput;
    fn id(&self) -> &'static str {
        "C06"
    }
    fn rule(&self) -> String {
        "Histories of 1-14 generated ops (as C05, incl. restore, overwrite, compaction, index ops, tags, stale-handle commits). The model state of a version is fixed at commit time together with its deletion count and index (name, uuid) list; after EVERY later step every version is re-opened (alternating warm session / brand-new session) and must read the same schema, rows (ordered where the model knows the order), config, deletion count and index list. Non-trivial = >=3 versions existed and a maintenance op (compaction, restore, overwrite, index op, drop column) committed after them; distinct by op-kind sequence.".into()
    }
    fn cases(&self, tier: Tier) -> u32 {
        tier.pick(700, 14000)
    }
    fn max_shrink_iters(&self) -> u32 {
        120
    }
    fn strategy(&self, _tier: Tier) -> BoxedStrategy<HistInput> {
        hist_strategy(COMMON_TYPES, V2_STORAGES, any_op(), 14, 12)
    }
    fn check(&self, input: &HistInput, obs: &mut Obs, env: &Env) -> CheckResult {
        env.block_on(run(input, obs, env))
    }
}
