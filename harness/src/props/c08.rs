//! C08 — Cleanup never removes anything a retained version needs.
//!
//! A generated history (tags, deletions, compaction, indices, failed writes that leave orphan files,
//! ageing of objects through the controlled store) is followed by a cleanup under a generated policy
//! (explicit call, optionally raced against a concurrent writer at storage-call granularity) or by the
//! auto-cleanup hook enabled through table config and triggered by later commits.
//!
//! The model (this file) computes which versions the policy may remove ("selected": matches the policy,
//! is not the latest, is not tagged).  Afterwards: only manifests of selected versions are gone; every
//! version whose manifest still exists opens in a fresh session, validates, scans to its model state and
//! answers indexed queries; no file a retained version names is gone; with delete_unverified=false no
//! removed file is both young and referenced by no manifest; RemovalStats equal the store diff.

use super::hist::*;
use crate::engine::*;
use crate::store::{Call, Fault, FaultKind, VStore};
use crate::world::*;
use chrono::{DateTime, Utc};
use lance::dataset::cleanup::{CleanupPolicy, CleanupPolicyBuilder, RemovalStats};
use lance::Dataset;
use lance_index::DatasetIndexExt;
use proptest::prelude::*;
use serde::{Deserialize, Serialize};
use std::collections::{BTreeMap, BTreeSet};
use std::future::Future;
use std::pin::Pin;
use std::task::Poll;

pub struct C08;

pub const ROOT: &str = "tbl8";

/// Known finding: a commit from a handle whose read version precedes a version that a cleanup removed is rebased
/// without looking at the removed versions' transactions (load_new_transactions only sees manifests that still
/// exist), so conflicts with them go unnoticed and the published version silently loses their effect.
pub const F_STALE: &str = "C08-stale-commit-skips-cleaned-up-transactions";
const F_STALE_READ: &str = "C08-commit-from-cleaned-up-read-version";

/// the read version `World::apply` will pick for a stale step (None: the step runs on the latest version)
pub fn stale_read_version(w: &World, step: &Step) -> Option<u64> {
    let known: Vec<u64> = w.versions.keys().copied().collect();
    match step.stale {
        Some(f) if known.len() > 1 && !matches!(step.op, Op::Reopen | Op::Tag { .. }) => {
            let lo = known.len().saturating_sub(3);
            let v = known[lo + idx(f, known.len() - lo)];
            (v != w.latest).then_some(v)
        }
        _ => None,
    }
}

// ---------------------------------------------------------------------------
// input

#[derive(Clone, Debug, PartialEq, Eq, Serialize, Deserialize)]
pub enum HStep {
    Op(Step),
    /// a write that fails (FailNoEffect) at a mutating storage call at or before its commit point
    Orphan { victim: Op, k: u16 },
    /// every object currently in the store becomes 8 days older
    Age,
}

#[derive(Clone, Debug, PartialEq, Eq, Serialize, Deserialize)]
pub struct Policy {
    /// 0 none, 1 before_version (struct field), 2 retain_n_versions (builder)
    pub by_version: u8,
    pub version_arg: u16,
    /// 0 none, 1/2/3 before_timestamp = manifest time of a generated version -1ns / exact / +1ns,
    /// 4 Dataset::cleanup_old_versions(older_than = 0), 5 Dataset::cleanup_old_versions(older_than = 1h)
    pub by_time: u8,
    pub time_arg: u16,
    pub delete_unverified: bool,
    pub error_if_tagged: bool,
    /// 0 the writer's (warm) latest handle, 1 a fresh session, 2 a handle checked out at an older version
    pub handle: u8,
    pub handle_arg: u16,
}

#[derive(Clone, Debug, PartialEq, Eq, Serialize, Deserialize)]
pub struct Race {
    /// append or delete
    pub writer: Op,
    pub stale: Option<u16>,
    /// schedules (p, q), each run from the same pre-race state: p = fraction of the writer's storage calls released
    /// before the cleanup starts, q = fraction of the cleanup's storage calls released before the writer runs to completion
    pub schedules: Vec<(u16, u16)>,
}

#[derive(Clone, Debug, PartialEq, Eq, Serialize, Deserialize)]
pub enum Mode {
    Manual { policy: Policy, race: Option<Race>, post: Vec<Step> },
    Auto {
        /// lance.auto_cleanup.interval
        interval: u8,
        /// 0 absent, 1 "0s", 2 "14days"
        older_than: u8,
        /// lance.auto_cleanup.retain_versions
        retain: Option<u8>,
        steps: Vec<Step>,
    },
}

#[derive(Clone, Debug, PartialEq, Eq, Serialize, Deserialize)]
pub struct Input {
    pub cfg: TableCfg,
    pub initial: Vec<RowSeed>,
    pub init_file_rows: u16,
    pub steps: Vec<HStep>,
    pub age_before_cleanup: bool,
    pub mode: Mode,
    pub probes: Vec<u16>,
}

// ---------------------------------------------------------------------------
// strategies

fn op_tag() -> impl Strategy<Value = Op> {
    (prop_oneof![4 => Just(0u8), 1 => Just(1u8), 1 => Just(2u8)], 0u8..3, any::<u16>()).prop_map(|(action, name, v)| Op::Tag { action, name, v })
}

fn prefix_op() -> BoxedStrategy<Op> {
    prop_oneof![
        4 => op_append(),
        5 => op_delete(),
        3 => op_update(),
        2 => op_overwrite(),
        5 => op_compact(),
        1 => op_compact_tasks(),
        3 => op_create_index(),
        1 => (0u8..3).prop_map(|mode| Op::OptimizeIndices { mode }),
        1 => any::<u8>().prop_map(|which| Op::DropIndex { which }),
        2 => op_tag(),
        1 => any::<u16>().prop_map(|v| Op::Restore { v }),
        1 => op_schema(),
        1 => op_merge(),
    ]
    .boxed()
}

fn orphan_victim() -> BoxedStrategy<Op> {
    prop_oneof![4 => op_append(), 2 => op_delete(), 2 => op_update(), 2 => op_create_index(), 2 => op_compact(), 1 => op_overwrite()].boxed()
}

fn after_op() -> BoxedStrategy<Op> {
    prop_oneof![4 => op_append(), 3 => op_delete(), 2 => op_update(), 3 => op_compact(), 2 => op_create_index(), 2 => op_tag(), 1 => (0u8..3).prop_map(|mode| Op::OptimizeIndices { mode })].boxed()
}

fn hstep() -> BoxedStrategy<HStep> {
    prop_oneof![
        16 => step_of(prefix_op(), 8).prop_map(HStep::Op),
        3 => (orphan_victim(), any::<u16>()).prop_map(|(victim, k)| HStep::Orphan { victim, k }),
        1 => Just(HStep::Age),
    ]
    .boxed()
}

fn policy() -> BoxedStrategy<Policy> {
    (
        prop_oneof![1 => Just(0u8), 4 => Just(1u8), 3 => Just(2u8)],
        any::<u16>(),
        prop_oneof![10 => Just(0u8), 2 => Just(1u8), 2 => Just(2u8), 2 => Just(3u8), 3 => Just(4u8), 1 => Just(5u8)],
        any::<u16>(),
        any::<bool>(),
        prop::bool::weighted(0.3),
        prop_oneof![5 => Just(0u8), 3 => Just(1u8), 1 => Just(2u8)],
        any::<u16>(),
    )
        .prop_map(|(by_version, version_arg, by_time, time_arg, delete_unverified, error_if_tagged, handle, handle_arg)| Policy { by_version, version_arg, by_time, time_arg, delete_unverified, error_if_tagged, handle, handle_arg })
        .boxed()
}

fn race(nsched: usize) -> BoxedStrategy<Race> {
    (prop_oneof![2 => op_append(), 3 => op_delete()], prop::option::weighted(0.5, any::<u16>()), prop::collection::vec((any::<u16>(), any::<u16>()), nsched..nsched + 1))
        .prop_map(|(writer, stale, schedules)| Race { writer, stale, schedules })
        .boxed()
}

fn mode(nsched: usize) -> BoxedStrategy<Mode> {
    prop_oneof![
        5 => (policy(), prop::collection::vec(step_of(after_op(), 35), 0..4)).prop_map(|(policy, post)| Mode::Manual { policy, race: None, post }),
        3 => (policy(), race(nsched), prop::collection::vec(step_of(after_op(), 25), 0..2), any::<bool>()).prop_map(|(mut policy, race, post, tight)| {
            if tight {
                // half of the races: everything but the latest (and tagged) versions goes (before_version = latest)
                policy.by_version = 1;
                policy.version_arg = 0;
                policy.by_time = 0;
            }
            Mode::Manual { policy, race: Some(race), post }
        }),
        3 => (1u8..4, prop_oneof![3 => Just(0u8), 3 => Just(1u8), 1 => Just(2u8)], prop::option::weighted(0.7, 2u8..5), prop::collection::vec(step_of(after_op(), 25), 1..5))
            .prop_map(|(interval, older_than, retain, steps)| Mode::Auto { interval, older_than, retain, steps }),
    ]
    .boxed()
}

// ---------------------------------------------------------------------------
// helpers

/// Narrow generator exclusions for defects that belong to other properties (listed known findings there):
/// * C16-simplifier-null-tautology: a predicate with a nullable column in an IN list and a further comparison;
/// * C19-stale-index-after-update-stable-rowids: optimize_indices after an update rewrote indexed rows (stable row ids);
/// * create_index on a stale handle (panics in load_indices after a deferred-remap compaction, see below).
pub fn skip_reason(w: &World, step: &Step) -> Option<&'static str> {
    let schemas: Vec<&crate::model::TableSchema> = w.versions.values().rev().take(3).map(|s| &s.schema).collect();
    let risky = |p: &RawPred| schemas.iter().any(|s| tautology_risk(&resolve_pred(p, s), s));
    match &step.op {
        Op::Delete { pred } | Op::Update { pred: Some(pred), .. } if risky(pred) => Some("c16-null-tautology-predicate"),
        Op::Merge(m) if m.by_source % 3 == 2 && risky(&m.by_source_pred) => Some("c16-null-tautology-predicate"),
        Op::OptimizeIndices { .. } if !w.stale_indexed_cols.is_empty() => Some("c19-optimize-after-update-stable-rowids"),
        // a CreateIndex committed from a stale handle after a deferred-remap compaction that rewrote only part of the
        // fragments it covers makes every later load_indices() panic (frag_reuse remap_fragment_bitmap unwrap);
        // concurrent-commit territory (C04/C24), not cleanup's or copy's
        Op::CreateIndex { .. } if stale_read_version(w, step).is_some() => Some("stale-create-index"),
        _ => None,
    }
}

/// `skip_reason` plus one exclusion that needs the table: an eager (defer_index_remap = false) compaction while a
/// fragment-reuse index from an earlier deferred-remap compaction exists.  On the current tree the eager remap then
/// leaves scalar indices created before the deferred compaction answering wrongly (no rows / stale rows; seen as
/// indexed-vs-unindexed mismatches and wrong rows_updated counts right after the commit) - an index defect that is
/// neither cleanup's nor copy's.
pub async fn skip_reason_at(w: &World, step: &Step) -> Option<&'static str> {
    if let Some(r) = skip_reason(w, step) {
        return Some(r);
    }
    if matches!(step.op, Op::Compact { defer_remap: false, .. } | Op::CompactTasks { defer_remap: false, .. }) {
        let has_fri = w.ds.load_indices().await.map(|v| v.iter().any(|i| i.name == lance_index::frag_reuse::FRAG_REUSE_INDEX_NAME)).unwrap_or(false);
        if has_fri {
            return Some("eager-compaction-after-deferred-remap");
        }
    }
    None
}

pub async fn apply_step(w: &mut World, step: &Step, obs: &mut Obs, what: &str) -> Result<StepOutcome, Failure> {
    if let Some(r) = skip_reason_at(w, step).await {
        obs.label(format!("excluded:{r}"));
        return Ok(StepOutcome::NoOp);
    }
    let lb = w.latest;
    let r = w.apply(step, obs).await.map_err(|f| Failure::new(f.kind, format!("{what} ({}): {}", step.op.kind(), f.msg)));
    // intermediate versions of a multi-commit op (task-wise compaction committed in two halves) hold the base rows,
    // but not necessarily in the base's physical order
    for v in lb + 1..w.latest {
        if let Some(st) = w.versions.get_mut(&v) {
            st.ordered = false;
        }
    }
    r
}

/// objects under the table root: relative path -> size
pub fn rel_objects(store: &VStore, root: &str) -> BTreeMap<String, u64> {
    let prefix = format!("{root}/");
    store.all_objects().into_iter().filter_map(|m| m.location.as_ref().strip_prefix(&prefix).map(|r| (r.to_string(), m.size))).collect()
}

/// version of a final manifest path (relative), either naming scheme
pub fn manifest_version(rel: &str) -> Option<u64> {
    let stem = rel.strip_prefix("_versions/")?.strip_suffix(".manifest")?;
    if stem.is_empty() || !stem.chars().all(|c| c.is_ascii_digit()) {
        return None;
    }
    let n: u64 = stem.parse().ok()?;
    Some(if stem.len() == 20 { u64::MAX - n } else { n })
}

fn manifest_versions(objs: &BTreeMap<String, u64>) -> BTreeSet<u64> {
    objs.keys().filter_map(|p| manifest_version(p)).collect()
}

fn file_class(rel: &str) -> &'static str {
    if manifest_version(rel).is_some() {
        "manifest"
    } else if rel.starts_with("_versions/") {
        "tmp-manifest"
    } else if rel.starts_with("data/") {
        "data"
    } else if rel.starts_with("_deletions/") {
        "deletion"
    } else if rel.starts_with("_indices/") {
        "index"
    } else if rel.starts_with("_transactions/") {
        "txn"
    } else {
        "other"
    }
}

/// what one version's manifest names (read through lance's normal open path, not through cleanup's)
#[derive(Clone, Debug, Default)]
struct Refs {
    files: BTreeSet<String>,
    index_uuids: BTreeSet<String>,
}

async fn capture_refs(ds: &Dataset) -> Result<Refs, String> {
    let mut r = Refs::default();
    let m = ds.manifest();
    for f in m.fragments.iter() {
        for df in &f.files {
            r.files.insert(format!("data/{}", df.path));
        }
        if let Some(d) = &f.deletion_file {
            r.files.insert(format!("_deletions/{}-{}-{}.{}", f.id, d.read_version, d.id, d.file_type.suffix()));
        }
    }
    if let Some(t) = &m.transaction_file {
        if !t.is_empty() {
            r.files.insert(format!("_transactions/{t}"));
        }
    }
    for i in ds.load_indices().await.map_err(|e| e.to_string())?.iter() {
        r.index_uuids.insert(i.uuid.to_string());
    }
    Ok(r)
}

fn index_uuid_of(rel: &str) -> Option<&str> {
    rel.strip_prefix("_indices/")?.split('/').next()
}

#[derive(Default, Clone)]
struct Cx {
    aged: BTreeSet<String>,
    /// files left by failed writes (known by construction to be referenced by no manifest)
    orphans: BTreeSet<String>,
    refs: BTreeMap<u64, Refs>,
    // accumulated over all cleanup events of the case
    removed_manifests: usize,
    removed_files: BTreeMap<&'static str, usize>,
    events: usize,
    /// shapes of the non-trivial events
    nt: Vec<String>,
    /// every version removed by a cleanup so far
    removed_all: BTreeSet<u64>,
    /// versions whose indexed-column query panel (index vs no index vs model) already disagreed BEFORE the cleanup
    /// (an index defect that is not cleanup's), with the failure kind and message
    panel_before: BTreeMap<u64, (String, String)>,
    /// a known finding made the model diverge from the table: the case ends here
    stop: bool,
}

impl Cx {
    async fn capture_missing(&mut self, w: &World, probes: &[u16]) -> CheckResult {
        for (v, st) in w.versions.iter() {
            if !self.refs.contains_key(v) {
                let d = w.ds.checkout_version(*v).await.map_err(|e| Failure::new("harness:checkout-before-cleanup", format!("v{v}: {e}")))?;
                let r = capture_refs(&d).await.map_err(|m| Failure::new("harness:capture-refs", format!("v{v}: {m}")))?;
                self.refs.insert(*v, r);
                // baseline of the index panel, through a fresh session like the check afterwards
                if !st.indices.is_empty() {
                    let d = w.open_fresh(Some(*v)).await.map_err(|m| Failure::new("harness:open-before-cleanup", format!("v{v}: {m}")))?;
                    if let Err(f) = check_indexed_queries(&d, st, probes, false, &mut Obs::default(), "").await {
                        self.panel_before.insert(*v, (f.kind, f.msg));
                    }
                }
            }
        }
        Ok(())
    }
}

// ---------------------------------------------------------------------------
// the policy: lance value + model

#[derive(Clone, Debug)]
enum TimeSel {
    Any,
    AllOld,
    NoneOld,
    Before(DateTime<Utc>),
}

#[derive(Clone, Debug)]
struct ModelPolicy {
    time: TimeSel,
    before_version: Option<u64>,
    keep_last_n: Option<usize>,
    delete_unverified: bool,
    error_if_tagged: bool,
}

impl ModelPolicy {
    /// does the policy's version/time criterion match `v` (tags / latest not considered)
    fn matches(&self, v: u64, alive: &[u64], ts: &BTreeMap<u64, DateTime<Utc>>) -> bool {
        let t = match &self.time {
            TimeSel::Any | TimeSel::AllOld => true,
            TimeSel::NoneOld => false,
            TimeSel::Before(t) => ts.get(&v).map(|x| x < t).unwrap_or(false),
        };
        let bv = self.before_version.map(|b| v < b).unwrap_or(true);
        let keep = match self.keep_last_n {
            Some(n) => {
                // "all versions except the last n"
                let rank_from_top = alive.iter().rev().position(|x| *x == v).unwrap_or(usize::MAX);
                rank_from_top >= n
            }
            None => true,
        };
        t && bv && keep
    }
}

enum Call8 {
    /// Dataset::cleanup_old_versions(older_than, delete_unverified, error_if_tagged_old_versions)
    OlderThan(chrono::Duration, Option<bool>, Option<bool>),
    /// Dataset::cleanup_with_policy
    Policy(CleanupPolicy),
}

async fn build_policy(p: &Policy, ds: &Dataset, alive: &[u64], ts: &BTreeMap<u64, DateTime<Utc>>) -> Result<(Call8, ModelPolicy, String), Failure> {
    let mut shape = String::new();
    if p.by_time % 6 >= 4 {
        let (d, time) = if p.by_time % 6 == 4 { (chrono::Duration::zero(), TimeSel::AllOld) } else { (chrono::Duration::hours(1), TimeSel::NoneOld) };
        shape.push_str(if p.by_time % 6 == 4 { "older_than=0" } else { "older_than=1h" });
        // Some(false)/Some(true) and None (= the documented default false / true)
        let du = if p.delete_unverified { Some(true) } else if p.version_arg % 2 == 0 { Some(false) } else { None };
        let et = if !p.error_if_tagged { Some(false) } else if p.time_arg % 2 == 0 { Some(true) } else { None };
        let model = ModelPolicy { time, before_version: None, keep_last_n: None, delete_unverified: p.delete_unverified, error_if_tagged: p.error_if_tagged };
        return Ok((Call8::OlderThan(d, du, et), model, shape));
    }
    let mut b = CleanupPolicyBuilder::default().delete_unverified(p.delete_unverified).error_if_tagged_old_versions(p.error_if_tagged);
    let mut model = ModelPolicy { time: TimeSel::Any, before_version: None, keep_last_n: None, delete_unverified: p.delete_unverified, error_if_tagged: p.error_if_tagged };
    match p.by_time % 6 {
        0 => {}
        k => {
            // 70%: one of the last three versions
            let v = if p.time_arg % 10 < 7 { alive[alive.len() - 1 - idx(p.time_arg, alive.len().min(3))] } else { alive[idx(p.time_arg, alive.len())] };
            let t0 = ts[&v];
            let t = match k {
                1 => t0 - chrono::Duration::nanoseconds(1),
                2 => t0,
                _ => t0 + chrono::Duration::nanoseconds(1),
            };
            b = b.before_timestamp(t);
            model.time = TimeSel::Before(t);
            shape.push_str(&format!("before_ts(v@{}/{}{})", alive.iter().position(|x| *x == v).unwrap(), alive.len(), ["", "-1ns", "", "+1ns"][k as usize]));
        }
    }
    let mut before_version = None;
    match p.by_version % 3 {
        0 => {}
        1 => {
            // any version from the first to latest + 1
            let first = alive[0];
            let last = *alive.last().unwrap();
            let span = (last + 1 - first) as usize + 1;
            // 70%: latest, latest-1 or latest-2 (most of the history removed, >= 2 versions kept)
            let bv = if p.version_arg % 10 < 7 { (last - idx(p.version_arg, span.min(4).saturating_sub(1).max(1)) as u64).max(first) } else { first + idx(p.version_arg, span) as u64 };
            before_version = Some(bv);
            model.before_version = Some(bv);
            shape.push_str(&format!(" before_version(latest{:+})", bv as i64 - last as i64));
        }
        _ => {
            let n = if p.version_arg % 10 < 7 { 2 + idx(p.version_arg, 2) } else { 1 + idx(p.version_arg, alive.len() + 1) };
            b = b.retain_n_versions(ds, n).await.map_err(|e| Failure::new("harness:retain-n", format!("{e}")))?;
            model.keep_last_n = Some(n);
            shape.push_str(&format!(" retain_n({n}of{})", alive.len()));
        }
    }
    let mut pol = b.build();
    if let Some(bv) = before_version {
        pol.before_version = Some(bv);
    }
    if shape.is_empty() {
        shape.push_str("no-criterion");
    }
    Ok((Call8::Policy(pol), model, shape))
}



// ---------------------------------------------------------------------------
// the oracle applied after every cleanup event

struct Event<'a> {
    what: String,
    before: &'a BTreeMap<String, u64>,
    /// versions the model allows the event to remove
    selected: BTreeSet<u64>,
    delete_unverified: bool,
    stats: Option<RemovalStats>,
    /// auto mode: versions created during the event may vanish in it together with their transaction files
    lenient_new: bool,
    /// version published by the racing writer (checked under its own failure kinds)
    racer_version: Option<u64>,
    /// (version, read version) of a commit made during / right before the event from a stale handle
    suspect: Option<(u64, u64)>,
    shape: String,
}

/// `panel_before`: the index panel's failure on this version before the cleanup, if it was recorded
async fn check_version(w: &World, v: u64, st: &VersionState, probes: &[u16], panel_before: Option<&(String, String)>, obs: &mut Obs, what: &str) -> CheckResult {
    let d = w.open_fresh(Some(v)).await.map_err(|m| Failure::new("open-error", format!("{what}: version {v} cannot be opened: {m}")))?;
    d.validate().await.map_err(|e| Failure::new("validate-error", format!("{what}: version {v}: validate(): {e}")))?;
    verify_state(&d, st, &format!("{what}: version {v}")).await?;
    match (check_indexed_queries(&d, st, probes, false, obs, "").await, panel_before) {
        (Ok(_), None) => {}
        // the version's index answered wrongly before the cleanup already, in the same way: not cleanup's doing
        (Err(f), Some((k, m))) if f.kind == *k && f.msg == *m => obs.label("index-panel-wrong-before-cleanup-too"),
        (Err(f), before) => return Err(Failure::new(f.kind, format!("{what}: version {v}{}{}", f.msg, before.map(|b| format!(" (before the cleanup: {}{})", b.0, b.1)).unwrap_or_default()))),
        (Ok(_), Some(b)) => return Err(Failure::new("index-panel-changed", format!("{what}: version {v}: the indexed-column panel agrees now but before the cleanup it failed with {}{}", b.0, b.1))),
    }
    obs.inner += 1;
    Ok(())
}

/// A version published from a stale handle reads wrongly.  If a cleaned-up version lies after the handle's read
/// version this is the known finding F_STALE (Some(Ok) when listed: the case stops, Some(Err) otherwise).
fn judge_stale_commit(cx: &mut Cx, version: u64, read_version: u64, f: &Failure, obs: &mut Obs, env: &Env) -> Option<CheckResult> {
    let gap: Vec<u64> = cx.removed_all.iter().copied().filter(|x| *x > read_version && *x < version).collect();
    if gap.is_empty() {
        // second listed finding: the handle's read version itself was removed while the write was in flight (the rebase
        // needs that version's fragments and deletion files).  Timing dependent: most runs fail cleanly with an I/O error.
        if cx.removed_all.contains(&read_version) {
            let detail = format!("version {version} was committed from a handle at version {read_version}, which the racing cleanup removed while the write was in flight: {}: {}", f.kind, f.msg);
            return if env.known(F_STALE_READ) {
                obs.known_hit(F_STALE_READ, detail);
                cx.stop = true;
                Some(Ok(()))
            } else {
                Some(Err(Failure::new("commit-from-cleaned-up-read-version", detail)))
            };
        }
        return None;
    }
    let detail = format!("version {version} was committed from a handle at version {read_version}; versions {gap:?} in between had been removed by cleanup, their transactions were not considered: {}: {}", f.kind, f.msg);
    if env.known(F_STALE) {
        obs.known_hit(F_STALE, detail);
        cx.stop = true;
        Some(Ok(()))
    } else {
        Some(Err(Failure::new("stale-commit-over-cleaned-versions", detail)))
    }
}

async fn after_cleanup(w: &mut World, cx: &mut Cx, ev: Event<'_>, probes: &[u16], obs: &mut Obs, env: &Env) -> CheckResult {
    let what = &ev.what;
    let after = rel_objects(&w.store, ROOT);
    let removed: Vec<&String> = ev.before.keys().filter(|p| !after.contains_key(*p)).collect();
    let existing = manifest_versions(&after);
    // 1. manifests: only selected ones may go
    let removed_versions: BTreeSet<u64> = w.versions.keys().filter(|v| !existing.contains(v)).copied().collect();
    for v in &removed_versions {
        if !ev.selected.contains(v) {
            let why = if *v == w.latest { "it is the latest version" } else if w.tags.values().any(|t| t == v) { "it is tagged" } else { "the policy does not match it" };
            return Err(Failure::new("unselected-manifest-removed", format!("{what}: the manifest of version {v} is gone although {why} (policy {}, selected {:?}, tags {:?}, latest {})", ev.shape, ev.selected, w.tags, w.latest)));
        }
    }
    for v in &existing {
        if !w.versions.contains_key(v) {
            return Err(Failure::new("harness:unexpected-manifest", format!("{what}: manifest of version {v} exists but the model does not know it")));
        }
    }
    if ev.selected.iter().any(|v| existing.contains(v)) {
        obs.label("selected-version-kept-by-lance");
    }
    // files named by any manifest that existed when the event started ("verified" in lance's terms)
    let verified_files: BTreeSet<&String> = cx.refs.values().flat_map(|r| r.files.iter()).collect();
    let verified_uuids: BTreeSet<&str> = cx.refs.values().flat_map(|r| r.index_uuids.iter().map(|s| s.as_str())).collect();
    // 2. removed files
    let mut n_manifests = 0usize;
    let mut n_files = 0usize;
    let mut bytes = 0u64;
    for p in &removed {
        bytes += ev.before[*p];
        let class = file_class(p);
        if class == "manifest" {
            n_manifests += 1;
            continue;
        }
        *cx.removed_files.entry(class).or_insert(0) += 1;
        obs.label(format!("removed:{class}"));
        if matches!(class, "data" | "deletion" | "index") {
            n_files += 1;
        }
        if class == "other" {
            return Err(Failure::new("foreign-file-removed", format!("{what}: {p} was removed; it is neither a manifest nor a data/deletion/index/transaction file")));
        }
        if !ev.delete_unverified {
            let verified = match index_uuid_of(p) {
                Some(u) => verified_uuids.contains(u),
                None => verified_files.contains(*p),
            };
            if !verified && !cx.aged.contains(*p) {
                if ev.lenient_new && class == "txn" {
                    obs.label("auto:txn-of-vanished-version-removed");
                    continue;
                }
                return Err(Failure::new("young-unverified-file-removed", format!("{what}: {p} was removed although delete_unverified=false, no manifest names it and it is younger than 7 days (policy {})", ev.shape)));
            }
        }
    }
    for p in &cx.orphans {
        if ev.before.contains_key(p) && !after.contains_key(p) {
            if !ev.delete_unverified && !cx.aged.contains(p) {
                return Err(Failure::new("young-orphan-removed", format!("{what}: {p}, left by a failed write less than 7 days ago, was removed although delete_unverified=false")));
            }
            obs.label(if cx.aged.contains(p) { "aged-orphan-removed" } else { "young-orphan-removed-on-request" });
        } else if ev.before.contains_key(p) {
            obs.label(if cx.aged.contains(p) { "aged-orphan-kept" } else { "young-orphan-kept" });
        }
    }
    w.versions.retain(|v, _| !removed_versions.contains(v));
    cx.removed_all.extend(removed_versions.iter().copied());
    // 3. every version whose manifest still exists is intact
    let versions: Vec<(u64, VersionState)> = w.versions.iter().map(|(v, s)| (*v, s.clone())).collect();
    for (v, st) in &versions {
        if let Some(r) = cx.refs.get(v) {
            for f in &r.files {
                if !ev.before.contains_key(f) {
                    return Err(Failure::new("harness:ref-path-unknown", format!("{what}: version {v} names {f}, which did not exist before the cleanup")));
                }
                if !after.contains_key(f) {
                    return Err(Failure::new("needed-file-removed", format!("{what}: {f} was removed but retained version {v} names it (policy {}, removed versions {:?})", ev.shape, removed_versions)));
                }
            }
            for p in &removed {
                if let Some(u) = index_uuid_of(p) {
                    if r.index_uuids.contains(u) {
                        return Err(Failure::new("needed-index-file-removed", format!("{what}: {p} was removed but retained version {v} uses index {u} (policy {})", ev.shape)));
                    }
                }
            }
        }
        let w_ = format!("{what} [policy {}; removed versions {:?}]", ev.shape, removed_versions);
        let r = check_version(w, *v, st, probes, cx.panel_before.get(v), obs, &w_).await;
        if let Err(f) = r {
            if let Some((sv, rv)) = ev.suspect {
                if sv == *v {
                    if let Some(r) = judge_stale_commit(cx, sv, rv, &f, obs, env) {
                        return r;
                    }
                }
            }
            let prefix = if ev.racer_version == Some(*v) { "race-new-version" } else { "retained-version" };
            return Err(Failure::new(format!("{prefix}:{}", f.kind), f.msg));
        }
    }
    cx.refs.retain(|v, _| existing.contains(v));
    // 4. RemovalStats
    if let Some(s) = &ev.stats {
        if s.old_versions != n_manifests as u64 {
            return Err(Failure::new("removal-stats-old-versions", format!("{what}: RemovalStats.old_versions = {} but {} manifests disappeared from the store", s.old_versions, n_manifests)));
        }
        if s.bytes_removed != bytes {
            return Err(Failure::new("removal-stats-bytes", format!("{what}: RemovalStats.bytes_removed = {} but the removed objects ({}) had {} bytes", s.bytes_removed, removed.len(), bytes)));
        }
    }
    cx.events += 1;
    cx.removed_manifests += n_manifests;
    if n_manifests >= 1 && n_files >= 1 && versions.len() >= 2 {
        cx.nt.push(format!("{}:m{}f{}k{}", ev.shape, n_manifests.min(9), n_files.min(9), versions.len().min(9)));
    }
    if n_manifests >= 1 {
        obs.label("removed>=1-manifest");
    }
    obs.label(match (n_manifests >= 1, n_files >= 1, versions.len() >= 2) {
        (true, true, true) => "event:non-trivial",
        (false, _, _) => "event:no-manifest-removed",
        (true, false, _) => "event:manifests-but-no-file-removed",
        (true, true, false) => "event:only-latest-retained",
    });
    obs.label(format!("retained-{}", versions.len().min(9)));
    Ok(())
}

// ---------------------------------------------------------------------------
// history pieces

async fn run_orphan(w: &mut World, cx: &mut Cx, victim: &Op, kf: u16, obs: &mut Obs, what: &str) -> CheckResult {
    let step = Step { op: victim.clone(), stale: None };
    if skip_reason_at(w, &step).await.is_some() {
        return Ok(());
    }
    let store = w.store.clone();
    let snap = store.snapshot();
    // learning pass: number of mutating calls up to the commit point
    let mut wl = w.clone();
    wl.session = new_session(&store);
    wl.ds = wl.open_warm(None).await.map_err(|m| Failure::new("harness:reopen", m))?;
    store.arm(vec![]);
    store.enable_log(true);
    let mut o2 = Obs::default();
    let learned = wl.apply(&step, &mut o2).await;
    let log = store.take_log();
    store.enable_log(false);
    drop(wl);
    store.restore(&snap);
    store.disarm();
    if !matches!(learned, Ok(StepOutcome::Committed { .. })) {
        obs.label("orphan:victim-does-not-commit");
        return Ok(());
    }
    let prefix = format!("{ROOT}/");
    let commit_k: Option<u64> = log
        .iter()
        .filter(|c| c.mutating && c.op != "delete")
        .find(|c| c.to.as_deref().unwrap_or(&c.path).strip_prefix(&prefix).and_then(manifest_version).is_some())
        .and_then(|c| c.k);
    let Some(ck) = commit_k else {
        obs.label("orphan:no-commit-point");
        return Ok(());
    };
    let k = idx(kf, ck as usize + 1) as u64;
    let before = rel_objects(&store, ROOT);
    let latest_before = w.latest;
    store.arm(vec![Fault { actor: None, k, kind: FaultKind::FailNoEffect }]);
    let r = w.apply(&step, obs).await;
    store.disarm();
    let out = r.map_err(|f| Failure::new(format!("orphan-step:{}", f.kind), format!("{what}: {} with a failing storage call {k}/{ck}: {}", victim.kind(), f.msg)))?;
    match out {
        StepOutcome::Rejected(_) if w.latest == latest_before => {
            let after = rel_objects(&store, ROOT);
            let new: Vec<String> = after.keys().filter(|p| !before.contains_key(*p)).cloned().collect();
            if after.keys().any(|p| manifest_version(p).map(|v| v > latest_before).unwrap_or(false)) {
                obs.label("orphan:failed-write-left-a-manifest");
                return Ok(());
            }
            for p in new {
                obs.label(format!("orphan:{}", file_class(&p)));
                cx.orphans.insert(p);
            }
        }
        StepOutcome::Rejected(_) => obs.label("orphan:failed-write-moved-latest"),
        StepOutcome::Committed { .. } => obs.label("orphan:write-survived-the-fault"),
        StepOutcome::NoOp => {}
    }
    Ok(())
}

fn age_all(w: &World, cx: &mut Cx) {
    w.store.age_all(chrono::Duration::days(8));
    cx.aged.extend(rel_objects(&w.store, ROOT).into_keys());
}

// ---------------------------------------------------------------------------
// the race: W[0..p) ; C[0..q) ; W[p..] ; C[q..]   (W = writer's storage calls, C = cleanup's)

struct RaceInfo {
    writer_files_before_listing: bool,
    commit_pos: &'static str,
}

async fn drive<'a, A, B>(store: &VStore, mut fw: Pin<Box<dyn Future<Output = A> + 'a>>, mut fc: Pin<Box<dyn Future<Output = B> + 'a>>, p: usize, q: Option<usize>) -> Result<(A, B), Failure> {
    let mut w_done: Option<A> = None;
    let mut c_done: Option<B> = None;
    let mut phase = 0u8;
    let (mut rel_w, mut rel_c) = (0usize, 0usize);
    let mut idle = 0u64;
    loop {
        if w_done.is_none() {
            if let Poll::Ready(r) = futures::poll!(fw.as_mut()) {
                w_done = Some(r);
            }
        }
        if phase >= 1 && c_done.is_none() {
            if let Poll::Ready(r) = futures::poll!(fc.as_mut()) {
                c_done = Some(r);
            }
        }
        loop {
            let next = match phase {
                0 if w_done.is_some() || rel_w >= p => 1,
                1 if c_done.is_some() || q.map(|q| rel_c >= q).unwrap_or(false) => 2,
                2 if w_done.is_some() => 3,
                _ => phase,
            };
            if next == phase {
                break;
            }
            phase = next;
        }
        if phase == 3 && c_done.is_some() {
            break;
        }
        let want = if phase == 0 || phase == 2 { 1u32 } else { 2u32 };
        let pend = store.pending();
        if let Some(g) = pend.iter().find(|g| g.1 == want) {
            store.release(g.0);
            if want == 1 {
                rel_w += 1;
            } else {
                rel_c += 1;
            }
            idle = 0;
        } else {
            idle += 1;
            if idle % 16 == 0 {
                tokio::time::sleep(std::time::Duration::from_millis(1)).await;
            }
            if idle > 400_000 {
                return Err(Failure::new("harness:race-stalled", format!("phase {phase}: actor {want} neither finishes nor issues a storage call; parked calls {:?}", pend)));
            }
        }
        tokio::task::yield_now().await;
    }
    Ok((w_done.unwrap(), c_done.unwrap()))
}

fn race_info(log: &[Call]) -> RaceInfo {
    let root_versions = format!("{ROOT}/_versions");
    let prefix = format!("{ROOT}/");
    let list_root = log.iter().position(|c| c.actor == 2 && c.op.starts_with("list") && c.path == ROOT);
    let list_versions = log.iter().position(|c| c.actor == 2 && c.op.starts_with("list") && c.path == root_versions);
    let last_cleanup = log.iter().rposition(|c| c.actor == 2);
    let first_file = log.iter().position(|c| c.actor == 1 && c.mutating && c.op != "delete" && (c.path.starts_with(&format!("{ROOT}/data/")) || c.path.starts_with(&format!("{ROOT}/_deletions/"))));
    let commit = log.iter().position(|c| c.actor == 1 && c.mutating && c.op != "delete" && c.to.as_deref().unwrap_or(&c.path).strip_prefix(&prefix).and_then(manifest_version).is_some());
    let writer_files_before_listing = matches!((first_file, list_root), (Some(f), Some(l)) if f < l);
    let commit_pos = match (commit, list_versions, list_root, last_cleanup) {
        (None, ..) => "writer-did-not-commit",
        (Some(c), Some(lv), ..) if c < lv => "commit-before-manifest-listing",
        (Some(c), _, Some(lr), _) if c < lr => "commit-between-manifest-and-directory-listing",
        (Some(c), _, _, Some(e)) if c < e => "commit-during-deletions",
        (Some(_), ..) => "commit-after-cleanup",
    };
    RaceInfo { writer_files_before_listing, commit_pos }
}

async fn run_call(ds: &Dataset, call: &Call8) -> Result<RemovalStats, String> {
    match call {
        Call8::OlderThan(d, du, et) => ds.cleanup_old_versions(*d, *du, *et).await.map_err(|e| e.to_string()),
        Call8::Policy(p) => ds.cleanup_with_policy(p.clone()).await.map_err(|e| e.to_string()),
    }
}

// ---------------------------------------------------------------------------
// modes

#[allow(clippy::too_many_arguments)]
async fn manual(w: &mut World, cx: &mut Cx, pol: &Policy, race: Option<(&Race, u16, u16)>, post: &[Step], probes: &[u16], obs: &mut Obs, env: &Env) -> CheckResult {
    cx.capture_missing(w, probes).await?;
    let alive: Vec<u64> = w.versions.keys().copied().collect();
    let ts: BTreeMap<u64, DateTime<Utc>> = w.ds.versions().await.map_err(|e| Failure::new("versions-error", format!("{e}")))?.into_iter().map(|v| (v.version, v.timestamp)).collect();
    for v in &alive {
        if !ts.contains_key(v) {
            return Err(Failure::new("versions-incomplete", format!("versions() = {:?} lacks version {v}", ts.keys())));
        }
    }
    let racing = race.filter(|(r, _, _)| skip_reason(w, &Step { op: r.writer.clone(), stale: r.stale }).is_none());
    // the handle the cleanup runs on
    let store = w.store.clone();
    let mut cw = w.clone();
    let hv: Option<u64> = if pol.handle % 3 == 2 && alive.len() > 1 { Some(alive[idx(pol.handle_arg, alive.len())]).filter(|v| *v != w.latest) } else { None };
    let hds: Dataset = if racing.is_some() {
        cw.store = store.as_actor(2);
        cw.session = new_session(&cw.store);
        cw.open_warm(hv).await.map_err(|m| Failure::new("harness:open-cleanup-handle", m))?
    } else {
        match (pol.handle % 3, hv) {
            (_, Some(v)) => w.ds.checkout_version(v).await.map_err(|e| Failure::new("harness:open-cleanup-handle", format!("{e}")))?,
            (1, _) => w.open_fresh(None).await.map_err(|m| Failure::new("harness:open-cleanup-handle", m))?,
            _ => w.ds.clone(),
        }
    };
    obs.label(match (racing.is_some(), hv.is_some(), pol.handle % 3) {
        (_, true, _) => "handle:stale",
        (true, ..) | (_, _, 1) => "handle:fresh-session",
        _ => "handle:writer's",
    });
    let (mut call, mut model, shape) = build_policy(pol, &hds, &alive, &ts).await?;
    if racing.is_some() {
        // the property exempts cleanups with delete_unverified from the in-progress-write guarantee
        model.delete_unverified = false;
        match &mut call {
            Call8::OlderThan(_, du, _) => *du = Some(false),
            Call8::Policy(p) => p.delete_unverified = false,
        }
    }
    let shape = format!("{shape}{}{}{}", if model.delete_unverified { " +unverified" } else { "" }, if model.error_if_tagged { " +err-if-tagged" } else { "" }, if hv.is_some() { " @stale" } else { "" });
    let tagged: BTreeSet<u64> = w.tags.values().copied().collect();
    let latest = w.latest;
    let selected: BTreeSet<u64> = alive.iter().copied().filter(|v| *v != latest && !tagged.contains(v) && model.matches(*v, &alive, &ts)).collect();
    let expect_tag_error = hv.is_none() && model.error_if_tagged && tagged.iter().any(|t| *t != latest && model.matches(*t, &alive, &ts));
    obs.label(format!("policy:{}", shape.split('(').next().unwrap_or("").trim()));
    if !tagged.is_empty() {
        obs.label("has-tags");
    }
    let before = rel_objects(&store, ROOT);
    let what;
    let result: Result<RemovalStats, String>;
    let mut racer_version = None;
    let mut race_nt: Option<String> = None;
    let racer_read: Option<u64> = racing.and_then(|(r, _, _)| stale_read_version(w, &Step { op: r.writer.clone(), stale: r.stale }));
    if let Some((r, pf, qf)) = racing {
        let step = Step { op: r.writer.clone(), stale: r.stale };
        // learning passes on a snapshot: how many storage calls do the writer and the cleanup issue when run alone
        let snap = store.snapshot();
        let (nw, nc) = {
            let mut wl = w.clone();
            wl.store = store.as_actor(1);
            wl.session = new_session(&wl.store);
            wl.ds = wl.open_warm(None).await.map_err(|m| Failure::new("harness:open-writer-handle", m))?;
            store.enable_log(true);
            let _ = wl.apply(&step, &mut Obs::default()).await;
            let nw = store.take_log().iter().filter(|c| c.actor == 1).count();
            drop(wl);
            store.restore(&snap);
            let mut cl = w.clone();
            cl.store = store.as_actor(2);
            cl.session = new_session(&cl.store);
            let hl = cl.open_warm(hv).await.map_err(|m| Failure::new("harness:open-cleanup-handle", m))?;
            store.enable_log(true);
            let _ = run_call(&hl, &call).await;
            let nc = store.take_log().iter().filter(|c| c.actor == 2).count();
            store.enable_log(false);
            store.restore(&snap);
            (nw, nc)
        };
        let p = idx(pf, nw + 1);
        // 40%: the whole cleanup (its deletions included) runs before the writer resumes
        let q = if qf % 5 < 2 { nc } else { idx(qf, nc + 1) };
        what = format!("cleanup raced by {}{} (schedule: {p} of the writer's {nw} storage calls, {q} of the cleanup's {nc}, writer to completion, rest of the cleanup)", r.writer.kind(), if r.stale.is_some() { "*" } else { "" });
        let mut ww = w.clone();
        ww.store = store.as_actor(1);
        ww.session = new_session(&ww.store);
        ww.ds = ww.open_warm(None).await.map_err(|m| Failure::new("harness:open-writer-handle", m))?;
        let mut wobs = Obs::default();
        store.enable_log(true);
        store.gate_actor(1);
        store.gate_actor(2);
        let driven = {
            let fw: Pin<Box<dyn Future<Output = Result<StepOutcome, Failure>> + '_>> = Box::pin(ww.apply(&step, &mut wobs));
            let fc: Pin<Box<dyn Future<Output = Result<RemovalStats, String>> + '_>> = Box::pin(run_call(&hds, &call));
            drive(&store, fw, fc, p, Some(q)).await
        };
        store.ungate_all();
        store.disarm();
        let log = store.take_log();
        store.enable_log(false);
        let (wres, cres) = driven?;
        result = cres;
        let info = race_info(&log);
        obs.label(format!("race:{}", info.commit_pos));
        for l in wobs.labels {
            obs.label(l);
        }
        let wout = wres.map_err(|f| Failure::new(format!("race-writer:{}", f.kind), format!("{what}: {}", f.msg)))?;
        match wout {
            StepOutcome::Committed { new_version, .. } => {
                racer_version = Some(new_version);
                obs.label("race:writer-committed");
            }
            StepOutcome::Rejected(m) => {
                obs.rejected += 1;
                obs.label(format!("race:writer-failed:{}", truncate_str(&m, 40)));
            }
            StepOutcome::NoOp => obs.label("race:writer-noop"),
        }
        if info.writer_files_before_listing {
            obs.label("race:writer-files-before-directory-listing");
            race_nt = Some(format!("race:{}{}:{}:{}", r.writer.kind(), if r.stale.is_some() { "*" } else { "" }, info.commit_pos, if racer_version.is_some() { "committed" } else { "failed" }));
        }
        // the writer's world carries the model forward
        w.versions = ww.versions;
        w.latest = ww.latest;
        w.next_uid = ww.next_uid;
        w.col_counter = ww.col_counter;
        w.history = ww.history;
        w.last_effect = ww.last_effect;
        w.dropped_names = ww.dropped_names;
        w.stale_indexed_cols = ww.stale_indexed_cols;
        w.last_cast = ww.last_cast;
        w.rebased_commits = ww.rebased_commits;
        w.refresh().await?;
    } else {
        what = "cleanup".to_string();
        result = run_call(&hds, &call).await;
    }
    if std::env::var("VERIF_C08_SABOTAGE").is_ok() {
        // self-test of the oracle (inert unless the variable is set): lose one file that only an old retained version needs
        let latest_refs = cx.refs.get(&w.latest).cloned().unwrap_or_default();
        let victim = cx.refs.iter().filter(|(v, _)| **v != w.latest).flat_map(|(_, r)| r.files.iter()).find(|f| !latest_refs.files.contains(*f) && !f.starts_with("_transactions/")).cloned();
        if let Some(f) = victim {
            store.delete_raw(&object_store::path::Path::from(format!("{ROOT}/{f}")));
        }
    }
    let stats = match &result {
        Ok(s) => {
            obs.label("cleanup:ok");
            if expect_tag_error {
                obs.label("cleanup:tagged-old-version-error-not-raised");
            }
            Some(s.clone())
        }
        Err(m) => {
            if expect_tag_error && m.contains("tagged") {
                obs.label("cleanup:error-tagged-old-versions");
            } else {
                obs.rejected += 1;
                obs.label(format!("cleanup:unexpected-error:{}", truncate_str(m, 60)));
            }
            None
        }
    };
    let suspect = racer_version.zip(racer_read);
    let ev = Event { what: what.clone(), before: &before, selected, delete_unverified: model.delete_unverified, stats, lenient_new: false, racer_version, suspect, shape: shape.clone() };
    after_cleanup(w, cx, ev, probes, obs, env).await?;
    if cx.stop {
        return Ok(());
    }
    if let Some(k) = race_nt {
        cx.nt.push(k);
    }
    // the table keeps working
    w.refresh().await?;
    for (i, step) in post.iter().enumerate() {
        let rv = stale_read_version(w, step);
        let out = apply_step(w, step, obs, &format!("post-cleanup step {i}")).await?;
        if let StepOutcome::Committed { new_version, .. } = out {
            let st = w.state().clone();
            if let Err(f) = check_version(w, new_version, &st, probes, None, obs, &format!("post-cleanup step {i} ({})", step.op.kind())).await {
                if let Some(rv) = rv {
                    if let Some(r) = judge_stale_commit(cx, new_version, rv, &f, obs, env) {
                        return r;
                    }
                }
                return Err(Failure::new(format!("post-cleanup:{}", f.kind), f.msg));
            }
            obs.label("post-cleanup-commit");
            if rv.map(|rv| cx.removed_all.iter().any(|x| *x > rv && *x < new_version)).unwrap_or(false) {
                obs.label("stale-commit-over-cleaned-versions:correct");
            }
        }
    }
    Ok(())
}

fn auto_selected(alive_before: &BTreeSet<u64>, new: &[u64], tagged: &BTreeSet<u64>, interval: u64, older_than: u8, retain: Option<u8>) -> BTreeSet<u64> {
    let mut sel = BTreeSet::new();
    let mut existing: Vec<u64> = alive_before.iter().copied().collect();
    for n in new {
        existing.push(*n);
        if n % interval != 0 || older_than % 3 == 2 {
            // not a cleanup commit / nothing is older than 14 days
            continue;
        }
        let keep_from = retain.map(|r| {
            let r = r as usize;
            if existing.len() <= r {
                existing[0]
            } else {
                existing[existing.len() - r]
            }
        });
        for v in &existing {
            if v < n && !tagged.contains(v) && keep_from.map(|k| *v < k).unwrap_or(true) {
                sel.insert(*v);
            }
        }
    }
    sel
}

#[allow(clippy::too_many_arguments)]
async fn auto(w: &mut World, cx: &mut Cx, interval: u8, older_than: u8, retain: Option<u8>, steps: &[Step], probes: &[u16], obs: &mut Obs, env: &Env) -> CheckResult {
    let interval = interval.max(1) as u64;
    let shape = format!("auto(interval={interval},older_than={},retain={:?})", ["-", "0s", "14days"][older_than as usize % 3], retain);
    obs.label(format!("policy:auto older_than={} retain={}", ["-", "0s", "14days"][older_than as usize % 3], retain.is_some()));
    // enable the hook through table config
    cx.capture_missing(w, probes).await?;
    let before = rel_objects(&w.store, ROOT);
    let alive_before: BTreeSet<u64> = w.versions.keys().copied().collect();
    let lb = w.latest;
    let interval_s = interval.to_string();
    let retain_s = retain.map(|r| r.to_string());
    let mut kv: Vec<(&str, Option<&str>)> = vec![("lance.auto_cleanup.interval", Some(interval_s.as_str()))];
    match older_than % 3 {
        1 => kv.push(("lance.auto_cleanup.older_than", Some("0s"))),
        2 => kv.push(("lance.auto_cleanup.older_than", Some("14days"))),
        _ => {}
    }
    if let Some(r) = &retain_s {
        kv.push(("lance.auto_cleanup.retain_versions", Some(r.as_str())));
    }
    if let Err(e) = w.ds.update_config(kv).await {
        obs.rejected += 1;
        obs.label(format!("auto:config-rejected:{}", truncate_str(&e.to_string(), 40)));
        return Ok(());
    }
    w.refresh().await?;
    let now = w.ds.version().version;
    if now != lb + 1 {
        return Err(Failure::new("harness:config-commit", format!("update_config moved latest from {lb} to {now}")));
    }
    let st = w.versions[&lb].clone();
    w.versions.insert(now, st);
    w.latest = now;
    w.history.push("update_config".into());
    let tagged: BTreeSet<u64> = w.tags.values().copied().collect();
    let selected = auto_selected(&alive_before, &[now], &tagged, interval, older_than, retain);
    let ev = Event { what: format!("commit {now} that enables {shape}"), before: &before, selected, delete_unverified: false, stats: None, lenient_new: true, racer_version: None, suspect: None, shape: shape.clone() };
    after_cleanup(w, cx, ev, probes, obs, env).await?;
    for (i, step) in steps.iter().enumerate() {
        cx.capture_missing(w, probes).await?;
        let before = rel_objects(&w.store, ROOT);
        let alive_before: BTreeSet<u64> = w.versions.keys().copied().collect();
        let lb = w.latest;
        let tagged: BTreeSet<u64> = w.tags.values().copied().collect();
        let rv = stale_read_version(w, step);
        apply_step(w, step, obs, &format!("auto step {i}")).await?;
        if w.latest == lb {
            continue;
        }
        let new: Vec<u64> = (lb + 1..=w.latest).collect();
        let selected = auto_selected(&alive_before, &new, &tagged, interval, older_than, retain);
        if new.iter().any(|n| n % interval == 0) {
            obs.label("auto:hook-commit");
        }
        let ev = Event { what: format!("auto step {i} ({}) publishing {:?} under {shape}", step.op.kind(), new), before: &before, selected, delete_unverified: false, stats: None, lenient_new: true, racer_version: None, suspect: rv.map(|rv| (w.latest, rv)), shape: shape.clone() };
        after_cleanup(w, cx, ev, probes, obs, env).await?;
        if cx.stop {
            return Ok(());
        }
    }
    Ok(())
}

pub async fn run(input: &Input, obs: &mut Obs, env: &Env) -> CheckResult {
    let store = VStore::new();
    let mut w = match World::create(store, ROOT, &input.cfg, &input.initial, input.init_file_rows as usize).await {
        Ok(w) => w,
        Err(_) => {
            obs.rejected += 1;
            return Ok(());
        }
    };
    let mut cx = Cx::default();
    for (i, hs) in input.steps.iter().enumerate() {
        match hs {
            HStep::Op(step) => {
                apply_step(&mut w, step, obs, &format!("step {i}")).await?;
            }
            HStep::Orphan { victim, k } => run_orphan(&mut w, &mut cx, victim, *k, obs, &format!("step {i}")).await?,
            HStep::Age => age_all(&w, &mut cx),
        }
    }
    if input.age_before_cleanup {
        age_all(&w, &mut cx);
        obs.label("aged-before-cleanup");
    }
    obs.label(format!("versions-before-{}", w.versions.len().min(12)));
    if !cx.orphans.is_empty() {
        obs.label("has-orphans");
    }
    let kinds: String = input
        .steps
        .iter()
        .map(|s| match s {
            HStep::Op(s) => format!("{}{}", s.op.kind(), if s.stale.is_some() { "*" } else { "" }),
            HStep::Orphan { victim, .. } => format!("!{}", victim.kind()),
            HStep::Age => "age".into(),
        })
        .collect::<Vec<_>>()
        .join(",");
    match &input.mode {
        Mode::Manual { policy, race: None, post } => {
            obs.label("mode:manual");
            manual(&mut w, &mut cx, policy, None, post, &input.probes, obs, env).await?
        }
        Mode::Manual { policy, race: Some(r), post } => {
            obs.label("mode:race");
            // every schedule starts from the same store and model state
            let snap = w.store.snapshot();
            for (pf, qf) in &r.schedules {
                w.store.restore(&snap);
                w.store.disarm();
                let mut w2 = w.clone();
                w2.session = new_session(&w2.store);
                w2.ds = w2.open_warm(None).await.map_err(|m| Failure::new("harness:reopen", m))?;
                let mut cx2 = cx.clone();
                cx2.nt.clear();
                manual(&mut w2, &mut cx2, policy, Some((r, *pf, *qf)), post, &input.probes, obs, env).await?;
                cx.nt.extend(cx2.nt);
            }
        }
        Mode::Auto { interval, older_than, retain, steps } => {
            obs.label("mode:auto");
            auto(&mut w, &mut cx, *interval, *older_than, *retain, steps, &input.probes, obs, env).await?
        }
    }
    if !cx.nt.is_empty() {
        obs.nontrivial(format!("{}|{}", cx.nt.join(";"), kinds));
    }
    Ok(())
}

impl Property for C08 {
    type Input = Input;
    fn id(&self) -> &'static str {
        "C08"
    }
    fn level(&self) -> &'static str {
        "exploration"
    }
    fn rule(&self) -> String {
        "Histories of 3-11 steps on the controlled store (append, delete, update, overwrite, compaction incl. task-wise, BTree/Bitmap index create/replace/drop/optimize, tags, restore, schema ops, merge_insert; 8% on stale handles; writes that fail at a generated mutating storage call at or before their commit point and leave orphan data/deletion/index/transaction/temporary-manifest files; steps that make every existing object 8 days older), storage 2.0-2.2, stable row ids on/off, V1/V2 manifest names, both commit handlers. Then one of: (manual) Dataset::cleanup_old_versions(older_than 0 | 1h) or cleanup_with_policy built with CleanupPolicyBuilder (before_timestamp = manifest time of a generated version -1ns/exact/+1ns, retain_n_versions(1..=len+1), before_version in [first, latest+1], delete_unverified, error_if_tagged_old_versions) on the writer's handle, a fresh session or a stale handle, followed by 0-3 further writes (35% on stale handles); (race) the same with delete_unverified=false while a concurrent append/delete (50% on a stale handle) runs through its own gated store actor under 2 (thorough: 6) schedules W[0..p) C[0..q) W[p..] C[q..] over both sides' storage calls, each from the same pre-race state (p, q generated as fractions of the call counts learned in solo runs; 40% of the schedules run the whole cleanup before the writer resumes; half of the races use before_version = latest); (auto) lance.auto_cleanup.{interval 1-3, older_than absent|0s|14days, retain_versions 2-4} set through update_config and 1-4 further commits each of which may trigger the hook. Model: selected = matches the policy, not latest, not tagged. After every cleanup event: only manifests of selected versions are gone; every version whose manifest exists opens in a fresh session, validate()s, scans to its model state and answers indexed-column query panels identically with/without index and in the model (a version whose panel already disagreed before the cleanup must disagree in the same way afterwards); no file named by such a version (names read from its manifest before the cleanup) is gone; nothing but manifests, data, deletion, index, transaction and temporary manifest files is removed; with delete_unverified=false no removed file is both un-aged and named by no manifest that existed at the start, and orphans of failed writes that were not aged still exist; RemovalStats.old_versions / bytes_removed equal the store diff; the racing writer fails or its version passes the same checks. One hand-built case (the minimal witness of the known finding C08-stale-commit-skips-cleaned-up-transactions) runs before the random ones. Non-trivial = a cleanup event that removed >=1 manifest and >=1 data/deletion/index file while >=2 versions stayed, or a race in which the writer's data/deletion files existed before the cleanup listed the table directory; distinct by policy shape, counts and op-kind sequence.".into()
    }
    fn assumptions(&self) -> Vec<String> {
        vec![
            "object age is controlled through the store (last_modified shifted by 8 days); nothing is generated near the 7-day boundary, manifest timestamps are the real commit times".into(),
            "racing cleanups always use delete_unverified=false (the property exempts the other case)".into(),
            "retain_n_versions(0) is not generated (it indexes past the end of the version list and panics)".into(),
            "predicates hitting C16-simplifier-null-tautology and optimize_indices after an indexed update under stable row ids (C19-stale-index-after-update-stable-rowids) are skipped; create_index is not run on stale handles (a CreateIndex committed after a deferred-remap compaction that rewrote part of the fragments it covers makes load_indices panic: concurrent-commit territory); an eager compaction is skipped while a fragment-reuse index of an earlier deferred-remap compaction exists (the eager remap then leaves older scalar indices answering wrongly)".into(),
            "a version committed from a stale handle across versions that a cleanup removed is judged under the known finding C08-stale-commit-skips-cleaned-up-transactions; the case ends there because the model no longer describes the table".into(),
        ]
    }
    fn cases(&self, tier: Tier) -> u32 {
        tier.pick(600, 9000)
    }
    /// One hand-built case run before the random ones: the smallest witness of F_STALE (v1 ten rows; v2 deletes
    /// uid < 3; v3 appends; a writer holding v1 deletes uid >= 8 while a cleanup with before_version = 3 removes v1
    /// and v2; the writer's commit is rebased onto v3 without seeing v2's transaction).
    fn enumerate(&self, _tier: Tier) -> Vec<Input> {
        let uid_cmp = |op: u8, lit: u16| RawPred::Cmp { col: 1, op, lit };
        vec![Input {
            cfg: TableCfg { cols: vec![(2, false)], stable_row_ids: false, storage: 1, v2_manifest: true, handler: 0 },
            initial: (0..10u16).map(|i| RowSeed(vec![i; ROW_WIDTH])).collect(),
            init_file_rows: 1000,
            steps: vec![
                HStep::Op(Step { op: Op::Delete { pred: uid_cmp(2, 3) }, stale: None }),
                HStep::Op(Step { op: Op::Append { rows: vec![RowSeed(vec![1; ROW_WIDTH])], splits: vec![], max_rows_per_file: 1000 }, stale: None }),
            ],
            age_before_cleanup: false,
            mode: Mode::Manual {
                policy: Policy { by_version: 1, version_arg: 0, by_time: 0, time_arg: 0, delete_unverified: false, error_if_tagged: false, handle: 0, handle_arg: 0 },
                race: Some(Race { writer: Op::Delete { pred: uid_cmp(5, 8) }, stale: Some(0), schedules: vec![(13000, 0), (26000, 0), (39000, 0), (52000, 0), (60000, 0)] }),
                post: vec![],
            },
            probes: vec![1, 2],
        }]
    }
    fn max_shrink_iters(&self) -> u32 {
        150
    }
    fn strategy(&self, tier: Tier) -> BoxedStrategy<Input> {
        (
            table_cfg(COMMON_TYPES, V2_STORAGES),
            prop::collection::vec(row_seed(), 1..12),
            prop_oneof![Just(3u16), Just(6), Just(1000)],
            prop::collection::vec(hstep(), 3..12),
            prop::bool::weighted(0.4),
            mode(tier.pick(2, 6)),
            prop::collection::vec(0u16..40, 2..4),
        )
            .prop_map(|(cfg, initial, init_file_rows, steps, age_before_cleanup, mode, probes)| Input { cfg, initial, init_file_rows, steps, age_before_cleanup, mode, probes })
            .boxed()
    }
    fn check(&self, input: &Input, obs: &mut Obs, env: &Env) -> CheckResult {
        env.block_on(run(input, obs, env))
    }
}
