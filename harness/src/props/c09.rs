//! C09 — Branches, tags and shallow clones are isolated references.
//!
//! Two input domains in one `Input` enum:
//!
//! * `Name`: a candidate ref name.  `check_valid_branch` / `check_valid_tag` must agree with an
//!   independent implementation of the rules of docs/src/format/table/branch_tag.md, and a name
//!   that lance accepts must round-trip create -> list -> get -> checkout (-> write -> delete) on a
//!   real two-row table.
//! * `Hist`: a history of branch / tag / clone / write operations on one tiny table with branch
//!   names drawn from a small pool whose members share character prefixes.  A plain-Rust model keeps
//!   tag -> (branch, version) and a row snapshot per (line, version); after every step everything
//!   is read back, and after `delete_branch` the set of objects that disappeared is compared with
//!   the deleted branch's own storage.
//!
//! The tables live on the local file system (`env.fresh_dir()`): `Dataset::create_branch` and
//! `Dataset::shallow_clone` commit through a *default* session and cannot resolve the controlled
//! store's `vs://` scheme.  The "store diff" is a directory walk.

use crate::engine::*;
use crate::model::*;
use crate::world::{diff_rows, scan_rows, sorted, storage_version};
use arrow_array::RecordBatchIterator;
use lance::dataset::builder::DatasetBuilder;
use lance::dataset::optimize::{compact_files, CompactionOptions};
use lance::dataset::refs::{check_valid_branch, check_valid_tag, Ref};
use lance::dataset::{WriteMode, WriteParams};
use lance::session::Session;
use lance::Dataset;
use proptest::prelude::*;
use serde::{Deserialize, Serialize};
use std::collections::{BTreeMap, BTreeSet};
use std::path::{Path, PathBuf};
use std::sync::Arc;

pub struct C09;

pub const ALPHABET: [char; 10] = ['a', 'B', '1', '.', '-', '_', '/', '\\', ' ', '%'];
pub const POOL: [&str; 6] = ["a", "ab", "a/b", "a/b/c", "dev", "dev2"];
pub const TAGS: [&str; 3] = ["t0", "t1", "v1.0"];
/// longer hand-picked names: (name, grammar asserted)
const SPECIALS: [(&str, bool); 22] = [
    ("x.lock", true),
    ("main", true),
    ("a..b", true),
    (".lock", true),
    ("x.locka", true),
    ("a.lock.b", true),
    ("x.lock/a", true),
    ("a/x.lock", true),
    ("a/main", true),
    ("main/a", true),
    ("Main", true),
    ("feature/user-auth", true),
    ("bugfix/issue-123", true),
    ("v1.2.3-rc4", true),
    ("a/b/c/d/e", true),
    ("a/./b", true),
    ("a%2Fb", true),
    ("refs/heads/x", true),
    // "alphanumeric" is ambiguous outside ASCII: round trip only
    ("é", false),
    ("中", false),
    ("a/ß", false),
    ("x²", false),
];

#[derive(Clone, Debug, PartialEq, Eq, Serialize, Deserialize)]
pub enum Input {
    Name {
        s: String,
        /// false for names on which the documented grammar is ambiguous (non-ASCII letters)
        assert_grammar: bool,
    },
    Hist(BHist),
}

#[derive(Clone, Debug, PartialEq, Eq, Serialize, Deserialize)]
pub struct BHist {
    pub stable_row_ids: bool,
    /// 1 = 2.0, 2 = 2.1, 3 = 2.2
    pub storage: u8,
    pub v2_manifest: bool,
    pub initial: u8,
    pub steps: Vec<BOp>,
}

#[derive(Clone, Debug, PartialEq, Eq, Serialize, Deserialize)]
pub enum BOp {
    /// create branch POOL[name] from (line `src`, version `ver`).  `own_handle`: call it on a handle checked
    /// out on the source line (the in-tree convention); otherwise on the line picked by `handle`.
    /// `by_tag`: pass a tag that points at exactly (src, ver), if one exists.
    /// `name` picks among the pool names that are NOT live (among the live ones when `dup`).
    CreateBranch { name: u16, dup: bool, src: u16, ver: u16, own_handle: bool, handle: u16, by_tag: bool },
    Append { line: u16, n: u8 },
    /// delete where uid % m = r
    Delete { line: u16, m: u8, r: u8 },
    Compact { line: u16 },
    /// action 0 create, 1 update, 2 delete; the call is made on the handle of line `via`
    Tag { action: u8, tag: u8, line: u16, ver: u16, via: u16 },
    /// `name` picks among the live branches (among the pool names that are not live when `missing`)
    DeleteBranch { name: u16, missing: bool, via: u16 },
    Clone { line: u16, ver: u16, by_tag: bool },
}

impl BOp {
    fn kind(&self) -> &'static str {
        match self {
            BOp::CreateBranch { .. } => "create_branch",
            BOp::Append { .. } => "append",
            BOp::Delete { .. } => "delete",
            BOp::Compact { .. } => "compact",
            BOp::Tag { action, .. } => match action % 3 {
                0 => "tag_create",
                1 => "tag_update",
                _ => "tag_delete",
            },
            BOp::DeleteBranch { .. } => "delete_branch",
            BOp::Clone { .. } => "shallow_clone",
        }
    }
}

// ---------------------------------------------------------------------------
// the documented grammar, written independently of refs.rs (character scanner)

/// docs/src/format/table/branch_tag.md, "Branch Name", rules 1-7
pub fn doc_branch_ok(s: &str) -> bool {
    let cs: Vec<char> = s.chars().collect();
    // 1. cannot be empty
    if cs.is_empty() {
        return false;
    }
    // 2. cannot start or end with '/'
    if cs[0] == '/' || cs[cs.len() - 1] == '/' {
        return false;
    }
    for i in 0..cs.len() {
        let c = cs[i];
        let next = cs.get(i + 1).copied();
        // 3. no "//"    4. no ".." and no '\'
        if (c == '/' && next == Some('/')) || (c == '.' && next == Some('.')) || c == '\\' {
            return false;
        }
        // 5. segments (the parts between '/') contain only alphanumerics, '.', '-', '_'
        if c != '/' && !(c.is_ascii_alphanumeric() || c == '.' || c == '-' || c == '_') {
            return false;
        }
    }
    // 6. cannot end with ".lock"
    let n = cs.len();
    if n >= 5 && cs[n - 5..] == ['.', 'l', 'o', 'c', 'k'] {
        return false;
    }
    // 7. cannot be named "main"
    if cs == ['m', 'a', 'i', 'n'] {
        return false;
    }
    true
}

/// docs/src/format/table/branch_tag.md, "Tag Name", rules 1-5
pub fn doc_tag_ok(s: &str) -> bool {
    let cs: Vec<char> = s.chars().collect();
    if cs.is_empty() {
        return false; // 1
    }
    if cs.iter().any(|c| !(c.is_ascii_alphanumeric() || *c == '.' || *c == '-' || *c == '_')) {
        return false; // 2
    }
    if cs[0] == '.' || cs[cs.len() - 1] == '.' {
        return false; // 3
    }
    let n = cs.len();
    if n >= 5 && cs[n - 5..] == ['.', 'l', 'o', 'c', 'k'] {
        return false; // 4
    }
    if cs.windows(2).any(|w| w[0] == '.' && w[1] == '.') {
        return false; // 5
    }
    true
}

/// some single-character edit (delete / substitute / insert over the alphabet) flips a verdict
fn near_boundary(s: &str) -> bool {
    let cs: Vec<char> = s.chars().collect();
    let base = (doc_branch_ok(s), doc_tag_ok(s));
    let verdict = |v: &[char]| {
        let t: String = v.iter().collect();
        (doc_branch_ok(&t), doc_tag_ok(&t))
    };
    for i in 0..cs.len() {
        let mut d = cs.clone();
        d.remove(i);
        if verdict(&d) != base {
            return true;
        }
        for a in ALPHABET {
            if a != cs[i] {
                let mut d = cs.clone();
                d[i] = a;
                if verdict(&d) != base {
                    return true;
                }
            }
        }
    }
    for i in 0..=cs.len() {
        for a in ALPHABET {
            let mut d = cs.clone();
            d.insert(i, a);
            if verdict(&d) != base {
                return true;
            }
        }
    }
    false
}

// ---------------------------------------------------------------------------
// table helpers (local file system)

fn schema() -> TableSchema {
    TableSchema { cols: vec![ColSpec { name: "c0".into(), ty: ColType::I64, nullable: false, cid: 1 }] }
}

fn mk_row(uid: i64) -> Row {
    Row { uid, vals: vec![Val::I(((uid * 7 + 3) % 40) as i128)] }
}

fn fresh_session() -> Arc<Session> {
    // caching is C38's business: every handle gets its own session with the caches switched off
    Arc::new(Session::new(0, 0, Default::default()))
}

fn lerr(e: lance::Error) -> String {
    format!("{e}")
}

fn reader_of(rows: &[Row]) -> RecordBatchIterator<std::vec::IntoIter<Result<arrow_array::RecordBatch, arrow_schema::ArrowError>>> {
    let s = schema();
    let arrow = Arc::new(s.arrow());
    RecordBatchIterator::new(vec![Ok(rows_to_batch(&s, rows))].into_iter(), arrow)
}

fn write_params(mode: WriteMode, storage: u8, stable: bool, v2: bool) -> WriteParams {
    WriteParams {
        mode,
        data_storage_version: Some(storage_version(storage)),
        enable_stable_row_ids: stable,
        enable_v2_manifest_paths: v2,
        session: Some(fresh_session()),
        auto_cleanup: None,
        ..Default::default()
    }
}

/// every file below `root`, as '/'-separated paths relative to it
fn walk(root: &Path) -> BTreeSet<String> {
    fn rec(dir: &Path, rel: &str, out: &mut BTreeSet<String>) {
        let Ok(rd) = std::fs::read_dir(dir) else { return };
        for e in rd.flatten() {
            let name = e.file_name().to_string_lossy().to_string();
            let r = if rel.is_empty() { name.clone() } else { format!("{rel}/{name}") };
            match e.file_type() {
                Ok(t) if t.is_dir() => rec(&e.path(), &r, out),
                Ok(_) => {
                    out.insert(r);
                }
                Err(_) => {}
            }
        }
    }
    let mut out = BTreeSet::new();
    rec(root, "", &mut out);
    out
}

fn branch_meta_file(name: &str) -> String {
    format!("_refs/branches/{}.json", name.replace('/', "%2F"))
}

async fn rows_of(ds: &Dataset) -> Result<Vec<Row>, String> {
    scan_rows(ds, &schema(), false).await.map(sorted)
}

// ---------------------------------------------------------------------------
// NAME cases

async fn run_name(s: &str, assert_grammar: bool, obs: &mut Obs, env: &Env) -> CheckResult {
    let lb = check_valid_branch(s).is_ok();
    let lt = check_valid_tag(s).is_ok();
    let db = doc_branch_ok(s);
    let dt = doc_tag_ok(s);
    obs.inner += 2;
    if assert_grammar {
        ensure!(lb == db, "branch-grammar-mismatch", "check_valid_branch({s:?}) {} the name but the documented rules {} it", if lb { "accepts" } else { "rejects" }, if db { "accept" } else { "reject" });
        ensure!(lt == dt, "tag-grammar-mismatch", "check_valid_tag({s:?}) {} the name but the documented rules {} it", if lt { "accepts" } else { "rejects" }, if dt { "accept" } else { "reject" });
        obs.label(format!("len-{}", s.chars().count().min(6)));
        if near_boundary(s) {
            obs.nontrivial(format!("name:{s}"));
            obs.label("name:near-boundary");
        } else {
            obs.label("name:far-from-boundary");
        }
    } else {
        obs.label("name:non-ascii(round-trip-only)");
        if lb || lt {
            obs.nontrivial(format!("name:{s}"));
        }
    }
    obs.label(format!("name:branch-{}-tag-{}", if lb { "ok" } else { "no" }, if lt { "ok" } else { "no" }));

    // the table part: accepted names round-trip; rejected names are rejected by the operations too
    // (for rejected names that is a direct consequence of the validators being called: only checked near the boundary)
    if !lb && !lt && assert_grammar && obs.nontrivial.is_none() {
        obs.label("name:grammar-only");
        return Ok(());
    }
    let dir = env.fresh_dir();
    let root = dir.join("t");
    let uri = root.to_string_lossy().to_string();
    let r0: Vec<Row> = vec![mk_row(0), mk_row(1)];
    let mut ds = Dataset::write(reader_of(&r0), &uri, Some(write_params(WriteMode::Create, 1, false, true))).await.map_err(|e| Failure::new("setup-error", lerr(e)))?;
    let files0 = walk(&root);

    // ---- branch ----
    let r = ds.create_branch(s, 1u64, None).await;
    match (lb, r) {
        (true, Err(e)) => {
            // a name made of legal characters that the storage layer cannot represent ("." as a path segment)
            let dot_segment = s.split('/').any(|seg| seg == ".");
            if dot_segment && env.known("C09-branch-dot-segment") {
                obs.known_hit("C09-branch-dot-segment", format!("create_branch({s:?}): {e}"));
            } else if dot_segment {
                fail!("valid-branch-name-unusable:dot-segment", "check_valid_branch accepts {s:?} (and so do the documented rules) but create_branch fails: {e}");
            } else {
                fail!("valid-branch-name-unusable", "check_valid_branch accepts {s:?} but create_branch fails: {e}");
            }
        }
        (true, Ok(_b)) => {
            obs.label("roundtrip:branch");
            let list = ds.list_branches().await.map_err(|e| Failure::new("list-branches-error", format!("{s:?}: {e}")))?;
            let names: Vec<&String> = list.keys().collect();
            ensure!(names == vec![&s.to_string()], "branch-roundtrip-list", "created branch {s:?} but list_branches returns {names:?}");
            let got = ds.branches().get(s).await.map_err(|e| Failure::new("branch-roundtrip-get", format!("branches().get({s:?}): {e}")))?;
            ensure!(got.parent_branch.is_none() && got.parent_version == 1, "branch-roundtrip-get", "branch {s:?}: contents {got:?}");
            let co = ds.checkout_branch(s).await.map_err(|e| Failure::new("branch-roundtrip-checkout", format!("checkout_branch({s:?}): {e}")))?;
            ensure!(co.manifest().branch.as_deref() == Some(s), "branch-roundtrip-checkout", "checkout_branch({s:?}) yields branch {:?}", co.manifest().branch);
            let rows = rows_of(&co).await.map_err(|m| Failure::new("branch-roundtrip-read", format!("{s:?}: {m}")))?;
            ensure!(rows == r0, "branch-roundtrip-read", "branch {s:?} reads {}", diff_rows(&rows, &r0));
            // write on the branch; main is unchanged; open the branch by builder
            let mut co = co;
            co.append(reader_of(&[mk_row(2)]), Some(write_params(WriteMode::Append, 1, false, true))).await.map_err(|e| Failure::new("branch-roundtrip-append", format!("{s:?}: {e}")))?;
            let b2 = DatasetBuilder::from_uri(&uri).with_session(fresh_session()).with_branch(s, None).load().await.map_err(|e| Failure::new("branch-roundtrip-open", format!("with_branch({s:?}): {e}")))?;
            let rows = rows_of(&b2).await.map_err(|m| Failure::new("branch-roundtrip-read", format!("{s:?}: {m}")))?;
            let r3 = vec![mk_row(0), mk_row(1), mk_row(2)];
            ensure!(rows == r3 && b2.version().version == 2, "branch-roundtrip-read", "branch {s:?} after append: version {} {}", b2.version().version, diff_rows(&rows, &r3));
            let m = DatasetBuilder::from_uri(&uri).with_session(fresh_session()).load().await.map_err(|e| Failure::new("open-error", lerr(e)))?;
            let rows = rows_of(&m).await.map_err(|m| Failure::new("main-read-error", m))?;
            ensure!(rows == r0 && m.version().version == 1, "branch-write-changed-main", "after a write on branch {s:?} main reads version {} {}", m.version().version, diff_rows(&rows, &r0));
            // a tag on the branch resolves to it
            ds.tags().create_on_branch("rt", 2, Some(s)).await.map_err(|e| Failure::new("branch-roundtrip-tag", format!("tag on ({s:?}, 2): {e}")))?;
            let t = ds.checkout_version("rt").await.map_err(|e| Failure::new("branch-roundtrip-tag", format!("checkout tag on ({s:?}, 2): {e}")))?;
            ensure!(t.manifest().branch.as_deref() == Some(s) && t.version().version == 2, "branch-roundtrip-tag", "tag on ({s:?}, 2) resolves to ({:?}, {})", t.manifest().branch, t.version().version);
            ds.tags().delete("rt").await.map_err(|e| Failure::new("branch-roundtrip-tag", format!("{e}")))?;
            ds.delete_branch(s).await.map_err(|e| Failure::new("branch-roundtrip-delete", format!("delete_branch({s:?}): {e}")))?;
            let list = ds.list_branches().await.map_err(|e| Failure::new("list-branches-error", format!("{e}")))?;
            ensure!(list.is_empty(), "branch-roundtrip-delete", "after delete_branch({s:?}) list_branches returns {:?}", list.keys());
            let after = walk(&root);
            let gone: Vec<&String> = files0.difference(&after).collect();
            ensure!(gone.is_empty(), "delete-branch-removed-foreign-object", "delete_branch({s:?}) removed {gone:?}");
            if after.iter().any(|p| p.starts_with("tree/")) {
                obs.label("delete-branch-left-storage");
            }
            obs.inner += 8;
        }
        (false, Ok(_)) => fail!("invalid-branch-name-created", "check_valid_branch rejects {s:?} but create_branch succeeded"),
        (false, Err(_)) => {
            obs.rejected += 1;
            let list = ds.list_branches().await.map_err(|e| Failure::new("list-branches-error", format!("{e}")))?;
            ensure!(list.is_empty(), "invalid-branch-name-created", "create_branch({s:?}) failed but list_branches returns {:?}", list.keys());
            if walk(&root) != files0 {
                // create_branch commits the clone before it validates the name: not part of the property, but worth seeing
                obs.label("rejected-branch-name-left-storage");
            }
        }
    }

    // ---- tag ----
    let r = ds.tags().create(s, 1).await;
    match (lt, r) {
        (true, Err(e)) => fail!("valid-tag-name-unusable", "check_valid_tag accepts {s:?} but tags().create fails: {e}"),
        (true, Ok(())) => {
            obs.label("roundtrip:tag");
            match ds.tags().list().await {
                Ok(list) => {
                    let names: Vec<&String> = list.keys().collect();
                    ensure!(names == vec![&s.to_string()], "tag-roundtrip-list", "created tag {s:?} but tags().list returns {names:?}");
                }
                // the tag file name is percent-encoded once when written and once more when the listing is read back
                Err(e) if !s.is_ascii() && format!("{e}").contains("%25") => {
                    if env.known("C09-tag-non-ascii-unlistable") {
                        obs.known_hit("C09-tag-non-ascii-unlistable", format!("tag {s:?}: tags().list(): {e}"));
                    } else {
                        fail!("tag-roundtrip-list:non-ascii", "check_valid_tag accepts {s:?} and tags().create succeeds, but from then on tags().list() fails: {e}");
                    }
                }
                Err(e) => fail!("list-tags-error", "{e}"),
            }
            let got = ds.tags().get(s).await.map_err(|e| Failure::new("tag-roundtrip-get", format!("tags().get({s:?}): {e}")))?;
            ensure!(got.branch.is_none() && got.version == 1, "tag-roundtrip-get", "tag {s:?}: {got:?}");
            let t = ds.checkout_version(s).await.map_err(|e| Failure::new("tag-roundtrip-checkout", format!("checkout_version({s:?}): {e}")))?;
            let rows = rows_of(&t).await.map_err(|m| Failure::new("tag-roundtrip-read", m))?;
            ensure!(rows == r0 && t.version().version == 1 && t.manifest().branch.is_none(), "tag-roundtrip-read", "tag {s:?} reads version {} {}", t.version().version, diff_rows(&rows, &r0));
            let t2 = DatasetBuilder::from_uri(&uri).with_session(fresh_session()).with_tag(s).load().await.map_err(|e| Failure::new("tag-roundtrip-checkout", format!("with_tag({s:?}): {e}")))?;
            ensure!(t2.version().version == 1, "tag-roundtrip-read", "with_tag({s:?}) opens version {}", t2.version().version);
            ds.tags().delete(s).await.map_err(|e| Failure::new("tag-roundtrip-delete", format!("tags().delete({s:?}): {e}")))?;
            let list = ds.tags().list().await.map_err(|e| Failure::new("list-tags-error", format!("{e}")))?;
            ensure!(list.is_empty(), "tag-roundtrip-delete", "after delete of tag {s:?} the list is {:?}", list.keys());
            obs.inner += 5;
        }
        (false, Ok(())) => fail!("invalid-tag-name-created", "check_valid_tag rejects {s:?} but tags().create succeeded"),
        (false, Err(_)) => {
            obs.rejected += 1;
            let list = ds.tags().list().await.map_err(|e| Failure::new("list-tags-error", format!("{e}")))?;
            ensure!(list.is_empty(), "invalid-tag-name-created", "tags().create({s:?}) failed but the list is {:?}", list.keys());
        }
    }
    let _ = std::fs::remove_dir_all(&dir);
    Ok(())
}

// ---------------------------------------------------------------------------
// HISTORY cases

#[derive(Clone, Debug, PartialEq, Eq, PartialOrd, Ord)]
enum LineId {
    Main,
    Branch(String),
    Clone(usize),
}

impl LineId {
    fn branch_name(&self) -> Option<String> {
        match self {
            LineId::Branch(n) => Some(n.clone()),
            _ => None,
        }
    }
}

#[derive(Clone, Debug)]
struct Line {
    versions: BTreeMap<u64, Vec<Row>>,
    latest: u64,
    /// (source line, version) this line was forked from
    parent: Option<(LineId, u64)>,
    /// storage destroyed by a listed known finding: no longer read or written
    damaged: bool,
}

struct M {
    dir: PathBuf,
    root: PathBuf,
    uri: String,
    cfg: (u8, bool, bool),
    lines: BTreeMap<LineId, Line>,
    tags: BTreeMap<String, (Option<String>, u64)>,
    next_uid: i64,
    clones: usize,
    step: usize,
    known_builder: bool,
    known_with_tag: bool,
    hits: Vec<(String, String)>,
}

impl M {
    fn clone_uri(&self, k: usize) -> String {
        self.dir.join(format!("clone{k}")).to_string_lossy().to_string()
    }

    /// lines that can be read / written / used as handles
    fn usable(&self, with_clones: bool) -> Vec<LineId> {
        self.lines.iter().filter(|(id, l)| !l.damaged && (with_clones || !matches!(id, LineId::Clone(_)))).map(|(id, _)| id.clone()).collect()
    }

    /// a pool name that is live (`live` = true) or not live, picked by the fraction `f`
    fn pool_name(&self, f: u16, live: bool) -> Option<String> {
        let c: Vec<String> = POOL.iter().map(|n| n.to_string()).filter(|n| self.lines.contains_key(&LineId::Branch(n.clone())) == live).collect();
        if c.is_empty() {
            None
        } else {
            Some(pick(&c, f))
        }
    }

    /// lines forked from the branch or tags pointing into it
    fn has_dependents(&self, name: &str) -> bool {
        let id = LineId::Branch(name.to_string());
        self.lines.values().any(|l| l.parent.as_ref().map(|(p, _)| *p == id).unwrap_or(false)) || self.tags.values().any(|(b, _)| b.as_deref() == Some(name))
    }

    fn live_branches(&self) -> Vec<String> {
        self.lines.keys().filter_map(|l| l.branch_name()).collect()
    }

    /// open a line (latest when `v` is None); the way of opening rotates
    async fn open(&mut self, id: &LineId, v: Option<u64>) -> Result<Dataset, String> {
        // deterministic rotation over the three ways of opening a branch
        let mode = (self.step + v.unwrap_or(0) as usize + self.lines.keys().position(|k| k == id).unwrap_or(0)) % 3;
        match id {
            LineId::Main => {
                let mut b = DatasetBuilder::from_uri(&self.uri).with_session(fresh_session());
                if let Some(v) = v {
                    b = b.with_version(v);
                }
                b.load().await.map_err(lerr)
            }
            LineId::Branch(n) => match mode {
                0 => {
                    let root = DatasetBuilder::from_uri(&self.uri).with_session(fresh_session()).load().await.map_err(lerr)?;
                    match v {
                        Some(v) => root.checkout_version((n.as_str(), v)).await.map_err(lerr),
                        None => root.checkout_branch(n).await.map_err(lerr),
                    }
                }
                1 => {
                    let r = DatasetBuilder::from_uri(&self.uri).with_session(fresh_session()).with_branch(n, v).load().await.map_err(lerr);
                    match (r, v) {
                        // the builder first resolves the version number under the *root*; when main has no such version it gives up
                        (Err(e), Some(v)) if !self.lines[&LineId::Main].versions.contains_key(&v) && e.contains(&format!("{}/_versions/", self.uri.trim_start_matches('/'))) => {
                            if self.known_builder {
                                self.hits.push(("C09-builder-branch-version-not-on-main".into(), format!("with_branch({n:?}, Some({v})): {e}")));
                                let root = DatasetBuilder::from_uri(&self.uri).with_session(fresh_session()).load().await.map_err(lerr)?;
                                root.checkout_version((n.as_str(), v)).await.map_err(lerr)
                            } else {
                                Err(format!("[builder-branch-version-not-on-main] DatasetBuilder::with_branch({n:?}, Some({v})): {e}"))
                            }
                        }
                        (r, _) => r,
                    }
                }
                _ => {
                    let mut b = DatasetBuilder::from_uri(format!("{}/tree/{}", self.uri, n)).with_session(fresh_session());
                    if let Some(v) = v {
                        b = b.with_version(v);
                    }
                    b.load().await.map_err(lerr)
                }
            },
            LineId::Clone(k) => {
                let mut b = DatasetBuilder::from_uri(self.clone_uri(*k)).with_session(fresh_session());
                if let Some(v) = v {
                    b = b.with_version(v);
                }
                b.load().await.map_err(lerr)
            }
        }
    }

    /// the live branch whose directory holds `path` (relative to the root): the longest name n with path under tree/n/
    fn owner(path: &str, live: &[String]) -> Option<String> {
        live.iter().filter(|n| path.starts_with(&format!("tree/{n}/"))).max_by_key(|n| n.len()).cloned()
    }

    /// read everything back
    async fn verify_all(&mut self, what: &str, obs: &mut Obs) -> CheckResult {
        let ids: Vec<LineId> = self.lines.keys().cloned().collect();
        for id in &ids {
            let line = self.lines[id].clone();
            if line.damaged {
                continue;
            }
            // the line's head is where the model says it is (no version appeared behind our back)
            let head = self.open(id, None).await.map_err(|m| Failure::new("line-unreadable", format!("{what}: {id:?} cannot be opened: {m}")))?;
            ensure!(head.version().version == line.latest, "line-head-moved", "{what}: latest version of {id:?} is {} but the model says {}", head.version().version, line.latest);
            ensure!(head.manifest().branch == id.branch_name(), "line-branch-field", "{what}: {id:?} opens with manifest.branch = {:?}", head.manifest().branch);
            for (v, want) in &line.versions {
                let d = self.open(id, Some(*v)).await.map_err(|m| Failure::new(if m.starts_with("[builder-branch-version-not-on-main]") { "builder-branch-version-not-on-main" } else { "line-unreadable" }, format!("{what}: {id:?} version {v} cannot be opened: {m}")))?;
                ensure!(d.version().version == *v, "line-version-mismatch", "{what}: asked {id:?} version {v}, got {}", d.version().version);
                let got = rows_of(&d).await.map_err(|m| Failure::new("line-unreadable", format!("{what}: {id:?} version {v} cannot be scanned: {m}")))?;
                obs.inner += 1;
                ensure!(&got == want, "line-rows-mismatch", "{what}: {id:?} version {v}: {}", diff_rows(&got, want));
                let n = d.count_rows(None).await.map_err(|e| Failure::new("line-unreadable", format!("{what}: {id:?} version {v}: count_rows: {e}")))?;
                ensure!(n == want.len(), "line-rows-mismatch", "{what}: {id:?} version {v}: count_rows {n}, model {}", want.len());
            }
        }
        // branch list
        let root = self.open(&LineId::Main, None).await.map_err(|m| Failure::new("line-unreadable", format!("{what}: main: {m}")))?;
        let listed = root.list_branches().await.map_err(|e| Failure::new("list-branches-error", format!("{what}: {e}")))?;
        let got: BTreeSet<String> = listed.keys().cloned().collect();
        let want: BTreeSet<String> = self.live_branches().into_iter().collect();
        ensure!(got == want, "branch-list-mismatch", "{what}: list_branches = {got:?}, model {want:?}");
        for (n, c) in &listed {
            let (pl, pv) = self.lines[&LineId::Branch(n.clone())].parent.clone().unwrap();
            ensure!(c.parent_version == pv && c.parent_branch == pl.branch_name(), "branch-contents-mismatch", "{what}: branch {n}: parent ({:?}, {}), model ({:?}, {pv})", c.parent_branch, c.parent_version, pl.branch_name());
        }
        // tags
        let listed = root.tags().list().await.map_err(|e| Failure::new("list-tags-error", format!("{what}: {e}")))?;
        let got: BTreeMap<String, (Option<String>, u64)> = listed.iter().map(|(k, v)| (k.clone(), (v.branch.clone(), v.version))).collect();
        ensure!(got == self.tags, "tag-resolution-mismatch", "{what}: tags().list = {got:?}, model {:?}", self.tags);
        let tags = self.tags.clone();
        for (k, (t, (b, v))) in tags.iter().enumerate() {
            let target = b.clone().map(LineId::Branch).unwrap_or(LineId::Main);
            let Some(line) = self.lines.get(&target).cloned() else {
                fail!("model-error", "tag {t} points at the dead line {target:?}");
            };
            // resolve through a handle on some other line
            let handles = self.usable(false);
            let via = handles[(k + self.step) % handles.len()].clone();
            let h = self.open(&via, None).await.map_err(|m| Failure::new("line-unreadable", format!("{what}: {via:?}: {m}")))?;
            let c = h.tags().get(t).await.map_err(|e| Failure::new("tag-resolution-mismatch", format!("{what}: tags().get({t}) via {via:?}: {e}")))?;
            ensure!((c.branch.clone(), c.version) == (b.clone(), *v), "tag-resolution-mismatch", "{what}: tag {t} via {via:?} = ({:?}, {}), model ({b:?}, {v})", c.branch, c.version);
            if line.damaged {
                continue;
            }
            let d = h.checkout_version(t.as_str()).await.map_err(|e| Failure::new("tag-checkout-error", format!("{what}: checkout_version({t}) via {via:?}: {e}")))?;
            ensure!(d.version().version == *v && d.manifest().branch == *b, "tag-resolution-mismatch", "{what}: checkout of tag {t} via {via:?} lands on ({:?}, {}), model ({b:?}, {v})", d.manifest().branch, d.version().version);
            let got = rows_of(&d).await.map_err(|m| Failure::new("tag-checkout-error", format!("{what}: tag {t}: {m}")))?;
            obs.inner += 1;
            ensure!(got == line.versions[v], "tag-rows-mismatch", "{what}: tag {t} -> ({b:?}, {v}): {}", diff_rows(&got, &line.versions[v]));
            // the same through the builder
            {
                match DatasetBuilder::from_uri(&self.uri).with_session(fresh_session()).with_tag(t).load().await {
                    // the builder looks the tag up, keeps its version number and forgets its branch
                    Ok(d) if b.is_some() && d.manifest().branch.is_none() && d.version().version == *v => {
                        if self.known_with_tag {
                            self.hits.push(("C09-builder-with-tag-ignores-branch".into(), format!("with_tag({t}) -> ({b:?}, {v}) opened main version {v}")));
                        } else {
                            fail!("builder-with-tag-ignores-branch", "{what}: DatasetBuilder::from_uri(root).with_tag({t}) with {t} -> ({b:?}, {v}) opens version {v} of MAIN (manifest.branch = None)");
                        }
                    }
                    Ok(d) => {
                        ensure!(d.version().version == *v && d.manifest().branch == *b, "tag-resolution-mismatch", "{what}: DatasetBuilder::with_tag({t}) lands on ({:?}, {}), model ({b:?}, {v})", d.manifest().branch, d.version().version);
                        let got = rows_of(&d).await.map_err(|m| Failure::new("tag-checkout-error", format!("{what}: tag {t}: {m}")))?;
                        ensure!(got == line.versions[v], "tag-rows-mismatch", "{what}: with_tag({t}) -> ({b:?}, {v}): {}", diff_rows(&got, &line.versions[v]));
                    }
                    Err(e) if b.is_some() && !self.lines[&LineId::Main].versions.contains_key(v) && format!("{e}").contains(&format!("{}/_versions/", self.uri.trim_start_matches('/'))) => {
                        if self.known_builder {
                            self.hits.push(("C09-builder-branch-version-not-on-main".into(), format!("with_tag({t}) -> ({b:?}, {v}): {e}")));
                        } else {
                            fail!("builder-branch-version-not-on-main", "{what}: DatasetBuilder::with_tag({t}) (tag -> ({b:?}, {v})): {e}");
                        }
                    }
                    Err(e) => fail!("tag-checkout-error", "{what}: DatasetBuilder::with_tag({t}): {e}"),
                }
            }
        }
        for (id, d) in self.hits.drain(..) {
            obs.known_hit(&id, d);
        }
        Ok(())
    }

    /// commit bookkeeping after a write on `id`: versions between the old and the new head equal the pre-state
    async fn after_write(&mut self, id: &LineId, post: Vec<Row>, what: &str, must_commit: bool) -> CheckResult {
        let h = self.open(id, None).await.map_err(|m| Failure::new("line-unreadable", format!("{what}: {id:?}: {m}")))?;
        let now = h.version().version;
        let line = self.lines.get_mut(id).unwrap();
        let before = line.latest;
        let pre = line.versions[&before].clone();
        ensure!(now >= before, "line-head-moved", "{what}: head of {id:?} went back from {before} to {now}");
        if now == before {
            ensure!(!must_commit || post == pre, "ok-without-version", "{what}: returned Ok but {id:?} has no new version");
            return Ok(());
        }
        for v in before + 1..now {
            line.versions.insert(v, pre.clone());
        }
        line.versions.insert(now, post);
        line.latest = now;
        Ok(())
    }
}

fn pick<T: Clone>(v: &[T], f: u16) -> T {
    v[idx(f, v.len())].clone()
}

async fn run_hist(h: &BHist, obs: &mut Obs, env: &Env) -> CheckResult {
    let dir = env.fresh_dir();
    let root = dir.join("t");
    let uri = root.to_string_lossy().to_string();
    let cfg = (h.storage.clamp(1, 3), h.stable_row_ids, h.v2_manifest);
    let n0 = (h.initial % 6 + 1) as i64;
    let r0: Vec<Row> = (0..n0).map(mk_row).collect();
    Dataset::write(reader_of(&r0), &uri, Some(write_params(WriteMode::Create, cfg.0, cfg.1, cfg.2))).await.map_err(|e| Failure::new("setup-error", lerr(e)))?;
    let mut m = M { dir: dir.clone(), root: root.clone(), uri, cfg, lines: BTreeMap::new(), tags: BTreeMap::new(), next_uid: n0, clones: 0, step: 0, known_builder: env.known("C09-builder-branch-version-not-on-main"), known_with_tag: env.known("C09-builder-with-tag-ignores-branch"), hits: vec![] };
    m.lines.insert(LineId::Main, Line { versions: BTreeMap::from([(1, r0)]), latest: 1, parent: None, damaged: false });

    let mut kinds: Vec<String> = vec![];
    let mut refs_created = 0usize;
    let mut prefix_delete = false;
    let mut writes_off_main = 0usize;

    for (i, op) in h.steps.iter().enumerate() {
        let what = format!("step {i} ({})", op.kind());
        m.step = i;
        if std::env::var("VERIF_TRACE").is_ok() {
            eprintln!("[trace] {what}: {op:?}; lines {:?}; tags {:?}", m.lines.iter().map(|(k, l)| (k.clone(), l.versions.keys().copied().collect::<Vec<_>>(), l.damaged)).collect::<Vec<_>>(), m.tags);
        }
        let files_before = walk(&m.dir);
        let mut removed_allowed: BTreeSet<String> = BTreeSet::new();
        match op {
            BOp::Append { line, .. } | BOp::Delete { line, .. } | BOp::Compact { line } => {
                let id = pick(&m.usable(true), *line);
                let mut hd = m.open(&id, None).await.map_err(|e| Failure::new("line-unreadable", format!("{what}: {id:?}: {e}")))?;
                let pre = m.lines[&id].versions[&m.lines[&id].latest].clone();
                let (r, post, must) = match op {
                    BOp::Append { n, .. } => {
                        let k = (*n % 4 + 1) as i64;
                        let new: Vec<Row> = (m.next_uid..m.next_uid + k).map(mk_row).collect();
                        m.next_uid += k;
                        let r = hd.append(reader_of(&new), Some(write_params(WriteMode::Append, m.cfg.0, m.cfg.1, m.cfg.2))).await.map_err(lerr);
                        let mut post = pre.clone();
                        post.extend(new);
                        (r, sorted(post), true)
                    }
                    BOp::Delete { m: md, r: rem, .. } => {
                        let md = (*md % 3 + 2) as i64;
                        let rem = *rem as i64 % md;
                        let r = hd.delete(&format!("uid % {md} = {rem}")).await.map_err(lerr);
                        let post: Vec<Row> = pre.iter().filter(|r| r.uid % md != rem).cloned().collect();
                        obs.label(if post.len() == pre.len() { "delete-none" } else { "delete-some" });
                        (r, post, false)
                    }
                    _ => {
                        let r = compact_files(&mut hd, CompactionOptions { num_threads: Some(1), ..Default::default() }, None).await.map(|_| ()).map_err(lerr);
                        (r, pre.clone(), false)
                    }
                };
                match r {
                    Ok(()) => {
                        m.after_write(&id, post, &what, must).await?;
                        if id != LineId::Main {
                            writes_off_main += 1;
                        }
                        obs.label(format!(
                            "{}-on-{}",
                            op.kind(),
                            match id {
                                LineId::Main => "main",
                                LineId::Branch(_) => "branch",
                                LineId::Clone(_) => "clone",
                            }
                        ));
                    }
                    Err(e) => fail!("write-error", "{what} on {id:?}: {e}"),
                }
            }
            BOp::CreateBranch { name, dup, src, ver, own_handle, handle, by_tag } => {
                let Some(name) = m.pool_name(*name, *dup) else { continue };
                let sources = m.usable(false);
                let sline = pick(&sources, *src);
                let vs: Vec<u64> = m.lines[&sline].versions.keys().copied().collect();
                let v = pick(&vs, *ver);
                let hline = if *own_handle { sline.clone() } else { pick(&sources, *handle) };
                let foreign = hline != sline;
                let tag = if *by_tag { m.tags.iter().find(|(_, t)| **t == (sline.branch_name(), v)).map(|(k, _)| k.clone()) } else { None };
                let exists = m.lines.contains_key(&LineId::Branch(name.clone()));
                let zombie = !exists && files_before.iter().any(|p| p.starts_with(&format!("t/tree/{name}/_versions/")));
                if foreign && env.known("C09-create-branch-foreign-handle") {
                    obs.known_hit("C09-create-branch-foreign-handle", format!("{what}: create_branch({name:?}, ({:?}, {v})) on a handle of {hline:?} skipped", sline.branch_name()));
                    continue;
                }
                let mut hd = m.open(&hline, None).await.map_err(|e| Failure::new("line-unreadable", format!("{what}: {hline:?}: {e}")))?;
                let reference: Ref = match (&tag, &sline, foreign) {
                    (Some(t), _, _) => Ref::Tag(t.clone()),
                    (None, LineId::Main, false) => Ref::from(v),
                    _ => Ref::Version(sline.branch_name(), Some(v)),
                };
                let how = format!("create_branch({name:?}, {reference}) on a handle of {hline:?}");
                let r = hd.create_branch(&name, reference, None).await;
                obs.label(format!("create-branch:{}{}{}", if foreign { "foreign-handle" } else { "own-handle" }, if tag.is_some() { ":by-tag" } else { "" }, if exists { ":existing-name" } else if zombie { ":over-leaked-storage" } else { "" }));
                match r {
                    Ok(_) if exists => fail!("create-branch-duplicate-accepted", "{what}: {how} succeeded although the branch exists"),
                    Ok(nb) => {
                        let snap = m.lines[&sline].versions[&v].clone();
                        if foreign {
                            // the new branch must hold the source's rows, not those of the line the call was made on
                            let got = rows_of(&nb).await.map_err(|e| Failure::new("create-branch-foreign-handle", format!("{what}: {how}: new branch unreadable: {e}")))?;
                            ensure!(got == snap, "create-branch-foreign-handle", "{what}: {how}: the new branch does not hold the rows of ({:?}, {v}): {}", sline.branch_name(), diff_rows(&got, &snap));
                        }
                        m.lines.insert(LineId::Branch(name.clone()), Line { versions: BTreeMap::from([(v, snap)]), latest: v, parent: Some((sline.clone(), v)), damaged: false });
                        refs_created += 1;
                    }
                    Err(e) if exists || zombie => {
                        // an existing name is refused; leftover storage of a deleted branch makes creation fail (documented on create_branch)
                        obs.rejected += 1;
                        let _ = e;
                        // whatever the failed attempt wrote stays inside tree/<name>/
                    }
                    Err(e) if foreign => fail!("create-branch-foreign-handle", "{what}: {how}: {e}"),
                    Err(e) => fail!("create-branch-error", "{what}: {how}: {e}"),
                }
            }
            BOp::DeleteBranch { name, missing, via } => {
                let deletable: Vec<String> = m.live_branches().into_iter().filter(|n| !m.lines[&LineId::Branch(n.clone())].damaged && !m.has_dependents(n)).collect();
                let name = if !*missing && !deletable.is_empty() {
                    pick(&deletable, *name)
                } else {
                    let Some(n) = m.pool_name(*name, !*missing) else { continue };
                    n
                };
                let id = LineId::Branch(name.clone());
                let Some(line) = m.lines.get(&id).cloned() else {
                    // deleting a branch that does not exist is an error and changes nothing
                    let mut hd = m.open(&LineId::Main, None).await.map_err(|e| Failure::new("line-unreadable", format!("{what}: main: {e}")))?;
                    match hd.delete_branch(&name).await {
                        Ok(()) => fail!("delete-missing-branch-accepted", "{what}: delete_branch({name:?}) succeeded although no such branch exists"),
                        Err(_) => obs.rejected += 1,
                    }
                    obs.label("delete-branch:missing");
                    let after = walk(&m.dir);
                    let live = m.live_branches();
                    let gone: Vec<&String> = files_before.difference(&after).filter(|p| !p.starts_with("t/tree/") || M::owner(&p[2..], &live).is_some()).collect();
                    ensure!(gone.is_empty(), "failed-delete-branch-removed-objects", "{what}: delete_branch({name:?}) failed but removed {gone:?}");
                    kinds.push(format!("{}:{name}:missing", op.kind()));
                    m.verify_all(&what, obs).await?;
                    continue;
                };
                // a branch that others were forked from (or that is tagged) is not deleted: what that means is not specified
                let dependents = m.has_dependents(&name);
                if line.damaged || dependents {
                    obs.label("excluded:delete-branch-with-dependents");
                    continue;
                }
                let handles: Vec<LineId> = m.usable(false).into_iter().filter(|l| *l != id).collect();
                let vline = pick(&handles, *via);
                let mut hd = m.open(&vline, None).await.map_err(|e| Failure::new("line-unreadable", format!("{what}: {vline:?}: {e}")))?;
                let live = m.live_branches();
                let shares_prefix = live.iter().any(|o| *o != name && o.chars().next() == name.chars().next());
                let meta = format!("t/{}", branch_meta_file(&name));
                if let Err(e) = hd.delete_branch(&name).await {
                    // the cleanup path is computed from the character-wise common prefix with the other branch names:
                    // it may name a directory that does not exist (tree/dev/2 for "dev2" next to "dev")
                    let msg = format!("{e}");
                    let own_dir = format!("/tree/{name}");
                    let wrong_dir = msg.contains("Not found") && msg.contains("/tree/") && !msg.split(',').next().unwrap_or("").trim_end().ends_with(&own_dir);
                    if shares_prefix && wrong_dir {
                        let detail = format!("{what}: delete_branch({name:?}) with live branches {live:?} fails after removing the branch metadata: {msg}");
                        if env.known("C09-delete-branch-char-prefix") {
                            obs.known_hit("C09-delete-branch-char-prefix", detail);
                            obs.label("delete-branch:failed-on-wrong-cleanup-path");
                        } else {
                            fail!("delete-branch-char-prefix", "{detail}");
                        }
                        if walk(&m.dir).contains(&meta) {
                            // nothing happened
                            continue;
                        }
                    } else {
                        fail!("delete-branch-error", "{what}: delete_branch({name:?}) via {vline:?}: {e}");
                    }
                }
                let after = walk(&m.dir);
                let mut foreign_owned: BTreeMap<String, Vec<String>> = BTreeMap::new();
                let mut foreign_other: Vec<String> = vec![];
                for p in files_before.difference(&after) {
                    if *p == meta {
                        removed_allowed.insert(p.clone());
                        continue;
                    }
                    let rel = p.strip_prefix("t/").unwrap_or("");
                    match (p.starts_with("t/tree/"), M::owner(rel, &live)) {
                        (true, Some(o)) if o == name => {
                            removed_allowed.insert(p.clone());
                        }
                        (true, Some(o)) => foreign_owned.entry(o).or_default().push(p.clone()),
                        // storage under tree/ that belongs to no live branch (left behind by an earlier delete)
                        (true, None) => {
                            removed_allowed.insert(p.clone());
                        }
                        (false, _) => foreign_other.push(p.clone()),
                    }
                }
                ensure!(foreign_other.is_empty(), "delete-branch-removed-foreign-object", "{what}: delete_branch({name:?}) removed objects outside tree/: {foreign_other:?}");
                ensure!(!after.contains(&meta), "delete-branch-left-metadata", "{what}: delete_branch({name:?}) left {meta}");
                if shares_prefix {
                    prefix_delete = true;
                    obs.label("delete-branch:shares-char-prefix-with-live-branch");
                } else {
                    obs.label("delete-branch:no-shared-prefix");
                }
                if after.iter().any(|p| p.strip_prefix("t/").map(|rel| M::owner(rel, &live).as_deref() == Some(name.as_str())).unwrap_or(false)) {
                    obs.label("delete-branch:left-storage-behind");
                }
                m.lines.remove(&id);
                if !foreign_owned.is_empty() {
                    // the deleted name and the victim share a non-empty character prefix but the victim is not inside the deleted branch's directory
                    let all_prefix = foreign_owned.keys().all(|o| o.chars().next() == name.chars().next());
                    let detail = format!("{what}: delete_branch({name:?}) with live branches {live:?} removed storage of {:?} (e.g. {:?})", foreign_owned.keys().collect::<Vec<_>>(), foreign_owned.values().next().unwrap().first());
                    if all_prefix && env.known("C09-delete-branch-char-prefix") {
                        obs.known_hit("C09-delete-branch-char-prefix", detail);
                        for (o, ps) in &foreign_owned {
                            m.lines.get_mut(&LineId::Branch(o.clone())).unwrap().damaged = true;
                            removed_allowed.extend(ps.iter().cloned());
                        }
                        // everything forked from a destroyed branch reads its files: destroyed as well
                        loop {
                            let dead: Vec<LineId> = m.lines.iter().filter(|(_, l)| l.damaged).map(|(k, _)| k.clone()).collect();
                            let next: Vec<LineId> = m.lines.iter().filter(|(_, l)| !l.damaged && l.parent.as_ref().map(|(p, _)| dead.contains(p)).unwrap_or(false)).map(|(k, _)| k.clone()).collect();
                            if next.is_empty() {
                                break;
                            }
                            for k in next {
                                m.lines.get_mut(&k).unwrap().damaged = true;
                            }
                        }
                    } else if all_prefix {
                        fail!("delete-branch-char-prefix", "{detail}");
                    } else {
                        fail!("delete-branch-removed-other-branch", "{detail}");
                    }
                }
                kinds.push(format!("{}:{name}", op.kind()));
            }
            BOp::Tag { action, tag, line, ver, via } => {
                let t = TAGS[*tag as usize % TAGS.len()].to_string();
                let lines = m.usable(false);
                let target = pick(&lines, *line);
                let vs: Vec<u64> = m.lines[&target].versions.keys().copied().collect();
                let v = pick(&vs, *ver);
                let vline = pick(&lines, *via);
                let hd = m.open(&vline, None).await.map_err(|e| Failure::new("line-unreadable", format!("{what}: {vline:?}: {e}")))?;
                let b = target.branch_name();
                let exists = m.tags.contains_key(&t);
                match action % 3 {
                    0 => match (hd.tags().create_on_branch(&t, v, b.as_deref()).await, exists) {
                        (Ok(()), false) => {
                            m.tags.insert(t.clone(), (b.clone(), v));
                            refs_created += 1;
                        }
                        (Ok(()), true) => fail!("tag-create-duplicate-accepted", "{what}: tag {t} created twice"),
                        (Err(_), true) => obs.rejected += 1,
                        (Err(e), false) => fail!("tag-create-error", "{what}: create tag {t} -> ({b:?}, {v}) via {vline:?}: {e}"),
                    },
                    1 => match (hd.tags().update_on_branch(&t, v, b.as_deref()).await, exists) {
                        (Ok(()), true) => {
                            m.tags.insert(t.clone(), (b.clone(), v));
                        }
                        (Ok(()), false) => fail!("tag-update-missing-accepted", "{what}: update of the missing tag {t} accepted"),
                        (Err(_), false) => obs.rejected += 1,
                        (Err(e), true) => fail!("tag-update-error", "{what}: update tag {t} -> ({b:?}, {v}) via {vline:?}: {e}"),
                    },
                    _ => match (hd.tags().delete(&t).await, exists) {
                        (Ok(()), true) => {
                            removed_allowed.insert(format!("t/_refs/tags/{t}.json"));
                            m.tags.remove(&t);
                        }
                        (Ok(()), false) => fail!("tag-delete-missing-accepted", "{what}: delete of the missing tag {t} accepted"),
                        (Err(_), false) => obs.rejected += 1,
                        (Err(e), true) => fail!("tag-delete-error", "{what}: delete tag {t} via {vline:?}: {e}"),
                    },
                }
                obs.label(format!("{}:{}", op.kind(), if b.is_some() { "on-branch" } else { "on-main" }));
            }
            BOp::Clone { line, ver, by_tag } => {
                if m.clones >= 2 {
                    continue;
                }
                let sources = m.usable(false);
                let sline = pick(&sources, *line);
                let vs: Vec<u64> = m.lines[&sline].versions.keys().copied().collect();
                let v = pick(&vs, *ver);
                let tag = if *by_tag { m.tags.iter().find(|(_, t)| **t == (sline.branch_name(), v)).map(|(k, _)| k.clone()) } else { None };
                let mut hd = m.open(&sline, None).await.map_err(|e| Failure::new("line-unreadable", format!("{what}: {sline:?}: {e}")))?;
                let reference: Ref = match (&tag, &sline) {
                    (Some(t), _) => Ref::Tag(t.clone()),
                    (None, LineId::Main) => Ref::from(v),
                    _ => Ref::Version(sline.branch_name(), Some(v)),
                };
                m.clones += 1;
                let k = m.clones;
                let target = m.clone_uri(k);
                let how = format!("shallow_clone({reference}) of {sline:?}");
                match hd.shallow_clone(&target, reference, None).await {
                    Ok(_) => {
                        let snap = m.lines[&sline].versions[&v].clone();
                        m.lines.insert(LineId::Clone(k), Line { versions: BTreeMap::from([(v, snap)]), latest: v, parent: Some((sline.clone(), v)), damaged: false });
                        refs_created += 1;
                        obs.label(format!("shallow-clone:of-{}{}", if sline == LineId::Main { "main" } else { "branch" }, if tag.is_some() { ":by-tag" } else { "" }));
                    }
                    Err(e) => fail!("shallow-clone-error", "{what}: {how}: {e}"),
                }
            }
        }
        if !matches!(op, BOp::DeleteBranch { .. }) {
            kinds.push(op.kind().to_string());
        }
        // nothing but the allowed objects disappeared
        let after = walk(&m.dir);
        let gone: Vec<&String> = files_before.difference(&after).filter(|p| !removed_allowed.contains(*p)).collect();
        ensure!(gone.is_empty(), "objects-disappeared", "{what}: objects disappeared: {gone:?}");
        m.verify_all(&what, obs).await?;
    }
    let _ = m.root;
    obs.label(format!("refs-{}", refs_created.min(6)));
    obs.label(format!("lines-{}", m.lines.len().min(6)));
    if writes_off_main > 0 {
        obs.label("wrote-on-branch-or-clone");
    }
    if refs_created >= 3 && prefix_delete {
        obs.nontrivial(kinds.join(","));
    }
    let _ = std::fs::remove_dir_all(&dir);
    Ok(())
}

// ---------------------------------------------------------------------------
// strategies

fn name_strategy() -> BoxedStrategy<Input> {
    prop::collection::vec(prop::sample::select(ALPHABET.to_vec()), 3..=5).prop_map(|cs| Input::Name { s: cs.into_iter().collect(), assert_grammar: true }).boxed()
}

fn bop() -> BoxedStrategy<BOp> {
    prop_oneof![
        4 => (any::<u16>(), prop::bool::weighted(0.1), any::<u16>(), any::<u16>(), prop::bool::weighted(0.75), any::<u16>(), prop::bool::weighted(0.3)).prop_map(|(name, dup, src, ver, own_handle, handle, by_tag)| BOp::CreateBranch { name, dup, src, ver, own_handle, handle, by_tag }),
        4 => (any::<u16>(), any::<u8>()).prop_map(|(line, n)| BOp::Append { line, n }),
        2 => (any::<u16>(), any::<u8>(), any::<u8>()).prop_map(|(line, m, r)| BOp::Delete { line, m, r }),
        1 => any::<u16>().prop_map(|line| BOp::Compact { line }),
        3 => (prop_oneof![3 => Just(0u8), 2 => Just(1u8), 1 => Just(2u8)], any::<u8>(), any::<u16>(), any::<u16>(), any::<u16>()).prop_map(|(action, tag, line, ver, via)| BOp::Tag { action, tag, line, ver, via }),
        4 => (any::<u16>(), prop::bool::weighted(0.08), any::<u16>()).prop_map(|(name, missing, via)| BOp::DeleteBranch { name, missing, via }),
        1 => (any::<u16>(), any::<u16>(), any::<bool>()).prop_map(|(line, ver, by_tag)| BOp::Clone { line, ver, by_tag }),
    ]
    .boxed()
}

fn hist_strategy() -> BoxedStrategy<Input> {
    let create = (any::<u16>(), any::<u16>(), any::<u16>()).prop_map(|(name, src, ver)| BOp::CreateBranch { name, dup: false, src, ver, own_handle: true, handle: 0, by_tag: false });
    (any::<bool>(), 1u8..4, any::<bool>(), any::<u8>(), prop::collection::vec(create, 2..4), prop::collection::vec(bop(), 2..10))
        .prop_map(|(stable_row_ids, storage, v2_manifest, initial, mut head, tail)| {
            // an append between the leading creates so that branches fork from different versions
            head.insert(1, BOp::Append { line: 0, n: 1 });
            head.extend(tail);
            Input::Hist(BHist { stable_row_ids, storage, v2_manifest, initial, steps: head })
        })
        .boxed()
}

fn all_names(max_len: usize) -> Vec<String> {
    let mut out = vec![String::new()];
    let mut frontier = vec![String::new()];
    for _ in 0..max_len {
        let mut next = vec![];
        for p in &frontier {
            for a in ALPHABET {
                let mut s = p.clone();
                s.push(a);
                next.push(s);
            }
        }
        out.extend(next.iter().cloned());
        frontier = next;
    }
    out
}

impl Property for C09 {
    type Input = Input;
    fn id(&self) -> &'static str {
        "C09"
    }
    fn rule(&self) -> String {
        format!(
            "NAMES: strings over the alphabet {:?}; quick = all {} strings of length <= 2 and {} hand-picked longer names enumerated, plus random strings of length 3..=5; thorough = all {} strings of length <= 5 enumerated. check_valid_branch / check_valid_tag must equal an independent scanner for the 7 + 5 documented rules; every name lance accepts round-trips create -> list -> get -> checkout -> write -> tag -> delete on a two-row table, every rejected name within one edit of the boundary is refused by create_branch / tags().create. Non-trivial name = a single-character edit flips a documented verdict (distinct by name). \
             HISTORIES: a 1-6 row table on the local file system, 2-3 leading create_branch ops then 2-9 ops from {{create_branch (own / foreign handle, by version or tag), append, delete, compact on any line, tag create/update/delete through any handle, delete_branch, shallow_clone}}, branch names from the pool {:?}. Model: tag -> (branch, version), row snapshot per (line, version). After every step every version of every live line, every tag (get + checkout), the branch list and BranchContents are read back; objects may disappear only under the deleted branch's own directory (plus its metadata file). Non-trivial history = >= 3 refs created and >= 1 delete_branch of a name that shares a character prefix with another live branch (distinct by op/name sequence).",
            ALPHABET,
            all_names(2).len(),
            SPECIALS.len(),
            all_names(5).len(),
            POOL
        )
    }
    fn assumptions(&self) -> Vec<String> {
        vec![
            "Tables live on the local file system: Dataset::create_branch / shallow_clone commit through a default session and cannot address the controlled in-memory store.".into(),
            "Non-ASCII letters: 'alphanumeric' in branch_tag.md is ambiguous, the grammar is not asserted for them (round trip only).".into(),
            "Rule 6 ('cannot end with .lock') is read literally as a rule about the whole branch name, not about each segment.".into(),
            "A branch that has dependents (branches or clones forked from it, tags pointing into it) is never deleted: the documentation does not say what that means.".into(),
            "create_branch((branch, version)) is called on a handle of the source line (in-tree convention) in 75% of the cases, on a handle of another line otherwise; a plain version number is only passed on a main handle.".into(),
            "No cleanup is generated (hypothesis H(2) belongs to C08).".into(),
            "Every handle uses its own session with caches of capacity 0 (cache transparency is C38).".into(),
        ]
    }
    fn cases(&self, tier: Tier) -> u32 {
        tier.pick(2600, 3300)
    }
    fn max_shrink_iters(&self) -> u32 {
        150
    }
    fn strategy(&self, tier: Tier) -> BoxedStrategy<Input> {
        match tier {
            Tier::Quick => prop_oneof![16 => name_strategy(), 1 => hist_strategy()].boxed(),
            Tier::Thorough => prop_oneof![1 => name_strategy(), 10 => hist_strategy()].boxed(),
        }
    }
    fn enumerate(&self, tier: Tier) -> Vec<Input> {
        let mut v: Vec<Input> = SPECIALS.iter().map(|(s, a)| Input::Name { s: s.to_string(), assert_grammar: *a }).collect();
        v.extend(all_names(tier.pick(2, 5)).into_iter().map(|s| Input::Name { s, assert_grammar: true }));
        v
    }
    fn check(&self, input: &Input, obs: &mut Obs, env: &Env) -> CheckResult {
        match input {
            Input::Name { s, assert_grammar } => {
                obs.label("domain:name");
                env.block_on(run_name(s, *assert_grammar, obs, env))
            }
            Input::Hist(h) => {
                obs.label("domain:history");
                env.block_on(run_hist(h, obs, env))
            }
        }
    }
}
