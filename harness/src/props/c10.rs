//! C10 — External manifest store protocol keeps versions unique, durable and portable.
//!
//! Uses the commit-protocol simulator of `c02.rs` with `ExternalManifestCommitHandler` over the in-memory, atomic external
//! store `VExt`: 1-2 writers and 0-1 reader, every object-store and external-store call gated, crashes / failed calls /
//! lost responses at a chosen protocol call of a writer or of the reader, optional stale reads of the external store,
//! tables born with the external store or pre-dating it.

use super::c02::*;
use crate::engine::*;
use crate::store::FaultKind;
use lance_table::io::commit::{CommitHandler, ConditionalPutCommitHandler};
use object_store::path::Path;
use proptest::prelude::*;
use std::collections::{BTreeMap, BTreeSet};
use std::sync::Arc;

pub struct C10;

fn fault_label(sc: &Scenario, rep: &RunReport) -> Option<String> {
    let f = sc.fault.as_ref()?;
    let (op, _) = rep.fault_fired.as_ref()?;
    Some(format!("{:?}@{}{}", f.fault_kind(), if f.who == 255 { "reader:" } else { "" }, op))
}

/// the fault hit between the external commit and the end of finalisation
fn fault_in_finalisation_window(sc: &Scenario, rep: &RunReport) -> bool {
    match (&sc.fault, &rep.fault_fired) {
        (Some(f), Some((op, path))) => match *op {
            "copy" | "ext_put_if_exists" => true,
            "delete" => is_staging_manifest(path) && {
                // the delete of the staging file after a SUCCESSFUL external commit (not the clean-up after a conflict)
                let ext = rep.sim.ext.data.lock().unwrap();
                ext.log.iter().any(|(_, o, _, p, out)| *o == "ext_put_if_not_exists" && p == path && *out != "precondition-failed" && *out != "fail-no-effect")
            },
            "ext_put_if_not_exists" => matches!(f.fault_kind(), FaultKind::CrashAfter | FaultKind::FailAfterEffect),
            // the reader's own reads of an unfinalised entry
            "ext_get" | "ext_latest" => f.who == 255,
            _ => false,
        },
        _ => false,
    }
}

pub fn judge_c10(sc: &Scenario, rep: &RunReport, env: &Env) -> Result<Verdict, Failure> {
    let n = sc.writers.len();
    let mut labels: Vec<String> = vec![];
    let mut rejected = 0u64;
    let shape = shape_of(&rep.trace, n);
    let stale = !sc.ext_stale.is_empty();
    let what = format!(
        "external handler ({}{}{}), fault {}, order of protocol calls {}",
        if sc.ext_predated { "pre-dated table" } else { "table born with the store" },
        if sc.ext_with_size { ", store returns sizes" } else { "" },
        if stale { ", stale reads" } else { "" },
        fault_label(sc, rep).unwrap_or_else(|| "none".into()),
        shape.pattern
    );
    for (a, m) in &rep.panicked {
        if is_known_rebase_unwrap(sc, rep, *a, m) && env.known(KNOWN_REBASE_UNWRAP) {
            return Ok(Verdict { labels, nontrivial: None, rejected, known: Some((KNOWN_REBASE_UNWRAP.to_string(), format!("{what}: writer {} panicked: {m}", a - 1))) });
        }
        fail!("panic", "{what}: task of actor {a} panicked: {m}");
    }
    let viol = rep.sim.store.watch_violations();
    if !viol.is_empty() {
        fail!("manifest-mutated", "{what}: {}", viol.join("; "));
    }
    if let Some(l) = fault_label(sc, rep) {
        labels.push(format!("fault:{l}"));
        if matches!(sc.fault.as_ref().map(|f| f.fault_kind()), Some(FaultKind::FailAfterEffect)) {
            labels.push("class:lost-response".into());
        }
    } else if sc.fault.is_some() {
        labels.push(if rep.fault_not_applicable { "fault:not-applicable-to-call".to_string() } else { "fault:unfired".to_string() });
    }
    labels.push(if sc.ext_predated { "table:pre-dated" } else { "table:born-external" }.to_string());
    if stale {
        labels.push(format!("stale-reads:{}", if rep.sim.ext.data.lock().unwrap().stale_reads > 0 { "some" } else { "none-hit" }));
    }

    // Listed finding C10-ext-lost-response-dangling: once the response of a put_if_not_exists that took effect is lost,
    // lance treats the commit as a conflict: without retries the staged manifest is deleted and the entry dangles, with
    // retries the same transaction is committed a second time (double commit).  Every such run ends here.
    if is_known_ext_lost_response(sc, rep) && env.known(KNOWN_EXT_LOST_RESPONSE) {
        return Ok(Verdict { labels, nontrivial: None, rejected, known: Some((KNOWN_EXT_LOST_RESPONSE.to_string(), format!("{what}: lost response of put_if_not_exists"))) });
    }

    // ---- the external map never points at nothing -------------------------------------------------------------------
    // (an entry is created for a staged manifest; finalisation copies before it flips the entry and deletes afterwards)
    let ext_now = rep.sim.ext.snapshot();
    for ((base, v), e) in &ext_now {
        let p = Path::from(e.path.clone());
        if rep.sim.store.read(&p).is_none() {
            let detail = format!("{what}: external store maps ({base}, {v}) to {} which does not exist in the object store", e.path);
            if is_known_ext_lost_response(sc, rep) && env.known(KNOWN_EXT_LOST_RESPONSE) {
                return Ok(Verdict { labels, nontrivial: None, rejected, known: Some((KNOWN_EXT_LOST_RESPONSE.to_string(), detail)) });
            }
            fail!("external-entry-dangling", "{detail}");
        }
    }
    if !rep.stuck.is_empty() {
        // a writer that keeps conflicting with an unfinalised version gives up after its retries; nobody may hang
        fail!("stuck", "{what}: actors {:?} neither finished nor issued a storage call within 48 h of virtual time", rep.stuck);
    }

    // ---- staged bytes of every externally committed version ----------------------------------------------------------
    // version -> staging path that won put_if_not_exists (effect applied)
    let mut committed_staging: BTreeMap<u64, String> = BTreeMap::new();
    {
        let ext = rep.sim.ext.data.lock().unwrap();
        for (_, op, v, p, out) in &ext.log {
            // (the set-up commits up to the base version are not part of the race)
            if *op == "ext_put_if_not_exists" && *v > rep.base && is_staging_manifest(p) && matches!(*out, "ok" | "fail-after-effect" | "crash-after") {
                ensure!(!committed_staging.contains_key(v), "external-double-commit", "{what}: put_if_not_exists succeeded twice for version {v}");
                committed_staging.insert(*v, p.clone());
            }
        }
    }

    // ---- one reader pass (consistent reads, no faults) repairs everything -------------------------------------------
    let latest = env.block_on(reader_pass(&rep.sim, 1)).map_err(|m| Failure::new("reader-pass-failed", format!("{what}: {m}")))?;
    let viol = rep.sim.store.watch_violations();
    if !viol.is_empty() {
        fail!("manifest-mutated", "{what}: during the repairing reader pass: {}", viol.join("; "));
    }
    let ext_after = rep.sim.ext.snapshot();
    let finals = final_manifests(&rep.sim.store);
    for v in 1..=latest {
        let Some(e) = ext_after.get(&(TABLE.to_string(), v)) else {
            fail!("not-registered-after-reader-pass", "{what}: version {v} is not in the external store after a reader checked it out");
        };
        ensure!(is_final_manifest(&e.path) && slot_of(&e.path) == Some(v), "not-finalised-after-reader-pass", "{what}: after one reader pass the external store maps version {v} to {}", e.path);
        let Some((fp, fb)) = finals.get(&v) else {
            fail!("not-finalised-after-reader-pass", "{what}: after one reader pass version {v} has no manifest at the standard path");
        };
        ensure!(*fp == e.path, "not-finalised-after-reader-pass", "{what}: external store maps version {v} to {}, the standard path is {fp}", e.path);
        if let Some(sp) = committed_staging.get(&v) {
            if is_staging_manifest(sp) {
                match rep.staged.get(sp) {
                    Some(h) => ensure!(*h == fnv(fb), "final-differs-from-staged", "{what}: version {v}: {fp} hashes to {:x}, the committed staging manifest {sp} to {h:x}", fnv(fb)),
                    None => fail!("harness", "{what}: bytes of staging manifest {sp} were never captured"),
                }
            }
        }
    }
    for v in committed_staging.keys() {
        ensure!(*v <= latest, "committed-version-lost", "{what}: version {v} was committed to the external store but the latest version after a reader pass is {latest}");
    }

    // ---- uniqueness, ownership, durability ----------------------------------------------------------------------------
    let mut ambiguous = ambiguous_writers(sc, rep);
    for a in &rep.dead {
        if *a >= 1 && *a as usize <= n {
            ambiguous.insert(*a as usize - 1);
        }
    }
    let own = check_ownership(sc, rep, &what, &ambiguous, &mut labels, &mut rejected)?;
    ensure!(own.latest_raw == latest, "latest-mismatch", "{what}: the handler resolves latest = {latest}, the standard paths hold versions up to {}", own.latest_raw);
    // the version committed with writer w's staging manifest belongs to w
    for (v, sp) in &committed_staging {
        if let (Some(o), Some(putter)) = (own.owner_of.get(v), rep.trace.iter().find(|e| e.op == "put" && e.path == *sp).map(|e| e.actor)) {
            ensure!(putter as usize == *o + 1, "committed-by-other", "{what}: version {v} was committed with the staging manifest written by actor {putter} but holds the transaction of writer {o}");
        }
    }
    // through the handler, and (portability) through a handler that ignores the external store
    check_history(sc, rep, env, rep.sim.handler_for(PROBE), &own, &format!("{what} [through the external handler]"))?;
    let plain: Arc<dyn CommitHandler> = Arc::new(ConditionalPutCommitHandler);
    check_history(sc, rep, env, plain, &own, &format!("{what} [reader ignoring the external store]")).map_err(|f| Failure::new(format!("portability:{}", f.kind), f.msg))?;
    // every content anybody obtained during the run is the content the version has now
    check_observations(sc, rep, &own, &what)?;

    // concurrent readers may fail transiently (unfinalised entry whose staging file a finaliser just removed; stale reads)
    if !rep.shared.reader_errors.is_empty() {
        rejected += rep.shared.reader_errors.len() as u64;
        if std::env::var("VERIF_SHOW_READER_ERRORS").is_ok() {
            eprintln!("[reader-error] {what}: {}", rep.shared.reader_errors.join(" | "));
        }
        let racing_delete = rep.shared.reader_errors.iter().any(|e| e.contains("not found") || e.contains("NotFound"));
        labels.push(format!("reader-transient-error:{}", if stale { "stale" } else if racing_delete { "staging-vanished" } else { "other" }));
        if !stale && sc.fault.as_ref().map(|f| f.who != 255).unwrap_or(true) && !racing_delete {
            fail!("reader-error", "{what}: a concurrent reader failed although no read was stale and no fault hit it: {}", rep.shared.reader_errors.join(" | "));
        }
    }

    // ---- classification -------------------------------------------------------------------------------------------------
    labels.push(format!("writers:{n}"));
    labels.push(format!("winners:{}", own.winners.len()));
    if sc.reader_passes > 0 {
        labels.push("with-reader".into());
    }
    let readers_finalised = rep.trace.iter().any(|e| e.actor == READER && matches!(e.op, "copy" | "ext_put_if_exists"));
    if readers_finalised {
        labels.push("reader-finalised".into());
    }
    let reader_registered = rep.sim.ext.data.lock().unwrap().log.iter().any(|(a, op, _, _, out)| (*a == READER || *a == PROBE) && *op == "ext_put_if_not_exists" && *out == "ok");
    if reader_registered {
        labels.push("reader-side-put_if_not_exists".into());
    }
    let in_window = fault_in_finalisation_window(sc, rep);
    if in_window {
        labels.push("fault-between-commit-and-finalisation".into());
    }
    let pine_contended: BTreeSet<u64> = {
        let mut by: BTreeMap<u64, BTreeSet<u32>> = BTreeMap::new();
        for e in &rep.trace {
            if e.op == "ext_put_if_not_exists" && e.actor >= 1 && e.actor as usize <= n {
                if let Some(s) = e.slot {
                    by.entry(s).or_default().insert(e.actor);
                }
            }
        }
        by.into_iter().filter(|(_, a)| a.len() >= 2).map(|(s, _)| s).collect()
    };
    if !pine_contended.is_empty() {
        labels.push("both-put_if_not_exists-same-version".into());
    }
    let nontrivial = if in_window || !pine_contended.is_empty() {
        Some(format!("{}|{}|{}|{}|{:?}|{}", sc.ext_predated, sc.ext_with_size, stale, sc.writers.iter().map(|w| format!("{}{}", w.op % 4, if w.retries { "r" } else { "" })).collect::<Vec<_>>().join(","), sc.fault.as_ref().map(|f| (f.who, f.call, f.kind % 4)), shape.pattern))
    } else {
        None
    };
    Ok(Verdict { labels, nontrivial, rejected, known: None })
}

fn c10_strategy() -> BoxedStrategy<Scenario> {
    (
        (any::<bool>(), any::<bool>(), 0u8..3),
        prop::collection::vec((0u8..4, prop::bool::weighted(0.4)).prop_map(|(op, retries)| WriterSpec { op, retries }), 1..3),
        prop_oneof![1 => Just(0u8), 3 => Just(1u8), 2 => Just(2u8)],
        prop::option::weighted(0.75, (prop_oneof![4 => (0u8..2), 1 => Just(255u8)], 0u8..6, prop_oneof![3 => Just(2u8), 3 => Just(3u8), 2 => Just(0u8), 1 => Just(1u8)])),
        prop_oneof![
            2 => prop::collection::vec(any::<u16>(), 0..120).prop_map(Sched::Fracs),
            3 => prop::collection::vec(0u8..3, 0..16).prop_map(Sched::Word),
        ],
        (any::<bool>(), any::<bool>()),
        prop_oneof![3 => Just(vec![]), 1 => prop::collection::vec(0u8..3, 1..6)],
    )
        .prop_map(|((v2_manifest, stable_row_ids, prefix), writers, reader_passes, fault, sched, (ext_predated, ext_with_size), ext_stale)| Scenario {
            handler: H_EXT,
            v2_manifest,
            stable_row_ids,
            prefix,
            writers,
            reader_passes,
            fault: fault.map(|(who, call, kind)| FaultSpec { who, call, kind }),
            sched,
            lock_tracks: false,
            ext_predated,
            ext_with_size,
            ext_stale,
        })
        .boxed()
}

impl Property for C10 {
    type Input = Scenario;
    fn id(&self) -> &'static str {
        "C10"
    }
    fn level(&self) -> &'static str {
        "fault_enumeration"
    }
    fn rule(&self) -> String {
        "ExternalManifestCommitHandler over an in-memory, atomic external store (get / get_latest_version / put_if_not_exists / put_if_exists; with or without sizes and e-tags; optional stale reads that answer from the map as it was 1-2 mutations ago) and the controlled object store. A small table (6 rows, 3 fragments; V1 or V2 names; born with the external store or created and first committed without it) gets 0-2 commits, then 1-2 writers (own actor, session, handler instance and handle at the same version; one staged transaction each with a fixed uuid; lance's commit retries 20 or off) and 0-1 reader (1-2 passes: open latest, check out every new version) run on one paused-clock current_thread runtime with every object-store and external-store call parked at a gate; a generated schedule (fractions over all parked calls, or a word ordering only the protocol calls with everything else released eagerly) releases them one by one. At most one fault on the k-th protocol call (stage put / put_if_not_exists / copy / put_if_exists / delete-staging / the reader's get, get_latest, copy, put_if_exists, delete) of a writer or of the reader: CrashBefore, CrashAfter, FailNoEffect, and FailAfterEffect (lost response; labelled class:lost-response). Enumerated part: for every protocol step of a single writer x {CrashBefore, CrashAfter, FailNoEffect} ALL orders of protocol calls of (writer + one reader pass) and of (two writers) are explored depth-first (quick: CrashAfter only and bounded). Oracle: the external map never points at an object that does not exist; put_if_not_exists takes effect at most once per version; after the run ONE fault-free reader pass must succeed and leave, for every version, external[v] = standard path, standard path bytes = the staging bytes that were committed, no committed version above latest; no final manifest ever changed (store monitor); at most one writer returned Ok per version, each new manifest carries exactly one writer's uuid, Ok(v) => owner of v, Err => owner of nothing unless the fault made the outcome ambiguous (crash, lost response, failure after the external commit); history (versions dense, read_transaction, rows, config) equals the owners' effects both through the handler and, for portability, through a handler that ignores the external store; every (version -> manifest content hash, transaction) any reader or writer obtained during the race equals the final one; nobody hangs. Errors of concurrent readers are counted, not failed, when a read was stale, a fault hit the reader, or the staging file of an unfinalised entry vanished under it. Non-trivial = the fault hit between external commit and the end of finalisation, or both writers issued put_if_not_exists for the same version; distinct by (table kind, sizes, stale, ops, fault, order of protocol calls).".into()
    }
    fn assumptions(&self) -> Vec<String> {
        vec![
            "the external store itself is atomic and durable; its stale-read mode only affects get / get_latest_version".into(),
            "all writers use the external handler (the trait's contract); only the final portability reader ignores it".into(),
            "a reader pass = open latest + check out every version; versions nobody asks for are not repaired and not required to be".into(),
            "the real clock is read only to distinguish work on lance's CPU pool from a stuck task".into(),
        ]
    }
    fn cases(&self, tier: Tier) -> u32 {
        tier.pick(1500, 30000)
    }
    fn max_shrink_iters(&self) -> u32 {
        120
    }
    fn strategy(&self, _tier: Tier) -> BoxedStrategy<Scenario> {
        c10_strategy()
    }
    fn enumerate(&self, tier: Tier) -> Vec<Scenario> {
        let mut v = vec![];
        let mk = |writers: usize, reader: u8, fault: Option<(u8, u8, u8)>, predated: bool, max_runs: u32| Scenario {
            handler: H_EXT,
            v2_manifest: false,
            stable_row_ids: false,
            prefix: 1,
            writers: (0..writers).map(|i| WriterSpec { op: if i == 0 { 3 } else { 0 }, retries: false }).collect(),
            reader_passes: reader,
            fault: fault.map(|(who, call, kind)| FaultSpec { who, call, kind }),
            sched: Sched::Explore { max_runs },
            lock_tracks: false,
            ext_predated: predated,
            ext_with_size: false,
            ext_stale: vec![],
        };
        let kinds: &[u8] = if tier == Tier::Thorough { &[2, 3, 0] } else { &[3] };
        let cap = tier.pick(400, 20000);
        let cap_free = tier.pick(400, 4000);
        for step in 0u8..5 {
            for kind in kinds {
                // one writer (crashing / failing at `step`) and one reader pass
                v.push(mk(1, 1, Some((0, step, *kind)), false, cap));
                // two writers, the first one crashing / failing at `step`
                v.push(mk(2, 0, Some((0, step, *kind)), false, cap));
            }
        }
        // the reader crashes inside its own finalisation of a version whose writer crashed right after the external commit is
        // covered by the random part; here: fault-free two writers + reader, and the pre-dated table
        v.push(mk(2, 1, None, false, cap_free));
        v.push(mk(1, 1, None, true, cap));
        v
    }
    fn check(&self, input: &Scenario, obs: &mut Obs, env: &Env) -> CheckResult {
        let mut sc = input.clone();
        sc.handler = H_EXT;
        run_and_judge(&sc, obs, env, &judge_c10)
    }
}
