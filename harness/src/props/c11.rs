//! C11 — Write / append / overwrite / read returns exactly the rows written.
//!
//! The schema description (`Ty`, `Fld`, `Gen`), its deterministic expansion into a model of explicit values (`V`),
//! the arrow builders and the value-tree comparison are copied from the file-format property C25
//! (`props/c25.rs`, another agent's module) and adapted: no field metadata, a `Legacy` version, null rules after
//! `Dataset::lance_supports_nulls`.

use crate::engine::*;
use crate::store::{self, VStore};
use crate::world::{handler_of, new_session};
use crate::{ensure, fail};
use arrow_array::cast::AsArray;
use arrow_array::types::*;
use arrow_array::*;
use arrow_buffer::{i256, BooleanBuffer, NullBuffer, OffsetBuffer, ScalarBuffer};
use arrow_schema::{DataType, Field as AField, Fields, Schema as ASchema, TimeUnit};
use futures::TryStreamExt;
use lance::dataset::builder::DatasetBuilder;
use lance::dataset::{InsertBuilder, WriteMode, WriteParams};
use lance::Dataset;
use lance_core::cache::LanceCache;
use lance_encoding::decoder::DecoderPlugins;
use lance_encoding::version::LanceFileVersion;
use lance_file::reader::{FileReader, FileReaderOptions};
use lance_io::scheduler::{ScanScheduler, SchedulerConfig};
use lance_io::utils::CachedFileSize;
use proptest::prelude::*;
use serde::{Deserialize, Serialize};
use std::collections::{BTreeSet, HashMap};
use std::sync::Arc;

pub struct C11;

#[derive(Clone, Copy, Debug, Serialize, Deserialize, PartialEq, Eq)]
pub enum Ver {
    Legacy,
    V2_0,
    V2_1,
    V2_2,
}

impl Ver {
    fn lance(self) -> LanceFileVersion {
        match self {
            Ver::Legacy => LanceFileVersion::Legacy,
            Ver::V2_0 => LanceFileVersion::V2_0,
            Ver::V2_1 => LanceFileVersion::V2_1,
            Ver::V2_2 => LanceFileVersion::V2_2,
        }
    }
    fn name(self) -> &'static str {
        match self {
            Ver::Legacy => "0.1",
            Ver::V2_0 => "2.0",
            Ver::V2_1 => "2.1",
            Ver::V2_2 => "2.2",
        }
    }
}

#[derive(Clone, Debug, Default)]
struct MetaChoice {}

fn meta_choice() -> impl Strategy<Value = MetaChoice> {
    Just(MetaChoice::default())
}

/// one write call
#[derive(Clone, Debug, Serialize, Deserialize, PartialEq)]
pub struct Call {
    /// false = append, true = overwrite (the first call always creates)
    pub overwrite: bool,
    /// rows fed by this call
    pub rows: u16,
    /// batch boundaries as fractions of 0..=rows (equal cuts give empty batches)
    pub cuts: Vec<u16>,
    /// batches are slices of one backing array per column (with `pad` rows in front) instead of separately built arrays
    pub sliced: bool,
    pub pad: u8,
    pub max_rows_per_file: u8,
    pub max_rows_per_group: u8,
    /// None = default (90 GB)
    pub max_bytes_per_file: Option<u32>,
    /// write through the table URI (Dataset::write) instead of the handle (append / InsertBuilder)
    pub via_uri: bool,
}

#[derive(Clone, Debug, Serialize, Deserialize, PartialEq)]
pub struct Input {
    pub version: Ver,
    pub fields: Vec<Fld>,
    pub stable_row_ids: bool,
    pub v2_manifest: bool,
    pub handler: u8,
    pub calls: Vec<Call>,
    /// batch size of the unordered scan
    pub batch_size: u8,
}

#[derive(Clone, Copy, Debug, Serialize, Deserialize, PartialEq, Eq)]
pub enum Unit {
    S,
    Ms,
    Us,
    Ns,
}

impl Unit {
    fn arrow(self) -> TimeUnit {
        match self {
            Unit::S => TimeUnit::Second,
            Unit::Ms => TimeUnit::Millisecond,
            Unit::Us => TimeUnit::Microsecond,
            Unit::Ns => TimeUnit::Nanosecond,
        }
    }
}

#[derive(Clone, Copy, Debug, Serialize, Deserialize, PartialEq, Eq)]
pub enum Key {
    I8,
    I16,
    I32,
    U8,
}

#[derive(Clone, Debug, Serialize, Deserialize, PartialEq)]
pub enum Ty {
    Bool,
    I8,
    I16,
    I32,
    I64,
    U8,
    U16,
    U32,
    U64,
    F16,
    F32,
    F64,
    Date32,
    Date64,
    Time32(Unit),
    Time64(Unit),
    Ts(Unit, Option<String>),
    Dur(Unit),
    Dec128(u8, i8),
    Dec256(u8, i8),
    Utf8,
    LargeUtf8,
    Binary,
    LargeBinary,
    Utf8View,
    BinaryView,
    Fsb(u8),
    /// dictionary: key type, value type (Utf8 / LargeUtf8 / Binary / Int32 ...), nulls expressed through a null dictionary entry
    Dict(Key, Box<Ty>, bool),
    List(Box<Fld>),
    LargeList(Box<Fld>),
    /// item (named "item", nullable), dimension
    Fsl(Box<Fld>, u8),
    Struct(Vec<Fld>),
}

/// value profile of one node
#[derive(Clone, Debug, Serialize, Deserialize, PartialEq)]
pub struct Gen {
    pub seed: u32,
    /// percent of nulls (only if the field is nullable)
    pub nulls: u8,
    /// 0 = unbounded, else number of distinct values
    pub card: u8,
    /// percent chance to repeat the previous value
    pub runs: u8,
    /// max list length / string length scale
    pub len: u8,
    /// 0 short, 1 = 256..600 bytes, 2 = >= 32 KiB (strings / binary only)
    pub wide: u8,
    /// put garbage (instead of nulls / nothing) behind null lists and null structs
    pub garbage: bool,
}

#[derive(Clone, Debug, Serialize, Deserialize, PartialEq)]
pub struct Fld {
    pub name: String,
    pub ty: Ty,
    pub nullable: bool,
    pub meta: Vec<(String, String)>,
    pub gen: Gen,
}


#[derive(Clone, Debug, PartialEq, Eq)]
pub enum V {
    Null,
    B(bool),
    /// integers, temporal, decimals
    I(i128),
    /// float bit pattern
    F(u64),
    /// strings, binary, fixed size binary
    Y(Vec<u8>),
    /// list / large list / fixed size list
    L(Vec<V>),
    /// struct
    S(Vec<V>),
}

fn show(v: &V) -> String {
    let s = format!("{v:?}");
    truncate_str(&s, 300)
}


#[derive(Clone)]
struct Rng(u64);

impl Rng {
    fn new(seed: u64) -> Self {
        let mut r = Rng(seed ^ 0x5DEE_CE66_D1CE_4E5B);
        r.next();
        r
    }
    fn next(&mut self) -> u64 {
        self.0 = self.0.wrapping_add(0x9E37_79B9_7F4A_7C15);
        let mut z = self.0;
        z = (z ^ (z >> 30)).wrapping_mul(0xBF58_476D_1CE4_E5B9);
        z = (z ^ (z >> 27)).wrapping_mul(0x94D0_49BB_1331_11EB);
        z ^ (z >> 31)
    }
    fn below(&mut self, n: u64) -> u64 {
        if n == 0 {
            0
        } else {
            ((self.next() as u128 * n as u128) >> 64) as u64
        }
    }
    fn pct(&mut self, p: u8) -> bool {
        p > 0 && self.below(100) < p as u64
    }
}

fn int_bits(r: &mut Rng, bits: u32, signed: bool) -> i128 {
    let raw = r.next();
    let mode = r.below(8);
    let full: i128 = if bits == 64 {
        if signed {
            raw as i64 as i128
        } else {
            raw as i128
        }
    } else {
        let m = raw & ((1u64 << bits) - 1);
        if signed {
            let sh = 64 - bits;
            (((m << sh) as i64) >> sh) as i128
        } else {
            m as i128
        }
    };
    let (lo, hi): (i128, i128) = if signed { (-(1i128 << (bits - 1)), (1i128 << (bits - 1)) - 1) } else { (0, (1i128 << bits) - 1) };
    let v = match mode {
        0..=2 => (raw % 16) as i128,
        3 => (raw % 1000) as i128,
        4 | 5 => full,
        6 => [lo, hi, 0, if signed { -1 } else { 1 }, hi - 1][(raw % 5) as usize],
        _ => {
            if signed {
                -((raw % 300) as i128)
            } else {
                (raw % 70000) as i128
            }
        }
    };
    v.clamp(lo, hi)
}

fn pow10(p: u32) -> i128 {
    10i128.pow(p.min(38))
}

const WORDS: [&str; 16] = ["a", "b", "cd", "é", "ß", "0", " ", "日本", "😀", "xyz", "lance", "-", "A", "zz", "q", "\u{0}"];

fn gen_bytes(r: &mut Rng, g: &Gen, text: bool) -> Vec<u8> {
    let target = match g.wide {
        0 => r.below(g.len as u64 * 3 + 1) as usize,
        1 => 256 + r.below(350) as usize,
        _ => 32 * 1024 + r.below(3000) as usize,
    };
    let mut out = Vec::with_capacity(target + 8);
    if text {
        // for wide values use a repetitive body so that compression has something to do
        let period = 1 + r.below(7) as usize;
        let base: Vec<&str> = (0..period).map(|_| WORDS[r.below(16) as usize]).collect();
        let mut i = 0;
        while out.len() < target {
            let w = if g.wide > 0 && r.below(10) < 8 { base[i % period] } else { WORDS[r.below(16) as usize] };
            out.extend_from_slice(w.as_bytes());
            i += 1;
        }
    } else {
        while out.len() < target {
            if g.wide > 0 && r.below(4) > 0 {
                let b = r.below(256) as u8;
                let n = 1 + r.below(40) as usize;
                out.extend(std::iter::repeat(b).take(n));
            } else {
                out.push(r.below(256) as u8);
            }
        }
        out.truncate(target);
    }
    out
}

fn leaf_value(ty: &Ty, r: &mut Rng, g: &Gen) -> V {
    match ty {
        Ty::Bool => V::B(r.next() & 1 == 1),
        Ty::I8 => V::I(int_bits(r, 8, true)),
        Ty::I16 => V::I(int_bits(r, 16, true)),
        Ty::I32 | Ty::Date32 | Ty::Time32(_) => V::I(int_bits(r, 32, true)),
        Ty::I64 | Ty::Date64 | Ty::Time64(_) | Ty::Ts(..) | Ty::Dur(_) => V::I(int_bits(r, 64, true)),
        Ty::U8 => V::I(int_bits(r, 8, false)),
        Ty::U16 => V::I(int_bits(r, 16, false)),
        Ty::U32 => V::I(int_bits(r, 32, false)),
        Ty::U64 => V::I(int_bits(r, 64, false)),
        Ty::F16 => {
            let raw = r.next();
            V::F(match raw % 6 {
                0 => [0x0000u64, 0x8000, 0x7C00, 0xFC00, 0x7E00, 0x0001, 0x3C00][(raw >> 8) as usize % 7],
                1 | 2 => half::f16::from_f32(((raw >> 8) % 20) as f32 * 0.5).to_bits() as u64,
                _ => (raw >> 16) & 0xFFFF,
            })
        }
        Ty::F32 => {
            let raw = r.next();
            V::F(match raw % 6 {
                0 => [0.0f32.to_bits(), (-0.0f32).to_bits(), f32::INFINITY.to_bits(), f32::NEG_INFINITY.to_bits(), f32::NAN.to_bits(), 1, 0x7FC0_0001][(raw >> 8) as usize % 7] as u64,
                1 | 2 => (((raw >> 8) % 50) as f32 * 0.25).to_bits() as u64,
                3 => (1000.0f32 + ((raw >> 8) % 1000) as f32 * 0.01).to_bits() as u64,
                _ => (raw >> 16) & 0xFFFF_FFFF,
            })
        }
        Ty::F64 => {
            let raw = r.next();
            V::F(match raw % 6 {
                0 => [0.0f64.to_bits(), (-0.0f64).to_bits(), f64::INFINITY.to_bits(), f64::NEG_INFINITY.to_bits(), f64::NAN.to_bits(), 1, 0x7FF8_0000_0000_0001][(raw >> 8) as usize % 7],
                1 | 2 => (((raw >> 8) % 50) as f64 * 0.25).to_bits(),
                3 => (1000.0f64 + ((raw >> 8) % 1000) as f64 * 0.01).to_bits(),
                _ => r.next(),
            })
        }
        Ty::Dec128(p, _) | Ty::Dec256(p, _) => {
            let max = pow10(*p as u32) - 1;
            let raw = r.next();
            let v = match raw % 4 {
                0 => (raw >> 8) as i128 % 100,
                1 => [max, -max, 0, 1, -1][(raw >> 8) as usize % 5],
                _ => {
                    let big = ((r.next() as u128) << 64 | r.next() as u128) % (2 * max as u128 + 1);
                    if big >= max as u128 {
                        (big - max as u128) as i128
                    } else {
                        -((max as u128 - big) as i128)
                    }
                }
            };
            V::I(v.clamp(-max, max))
        }
        Ty::Utf8 | Ty::LargeUtf8 | Ty::Utf8View => V::Y(gen_bytes(r, g, true)),
        Ty::Binary | Ty::LargeBinary | Ty::BinaryView => V::Y(gen_bytes(r, g, false)),
        Ty::Fsb(w) => V::Y((0..*w).map(|_| r.below(if g.card > 0 { 4 } else { 256 }) as u8).collect()),
        Ty::Dict(_, val, _) => leaf_value(val, r, g),
        Ty::List(_) | Ty::LargeList(_) | Ty::Fsl(..) | Ty::Struct(_) => unreachable!("not a leaf"),
    }
}

fn is_leaf(ty: &Ty) -> bool {
    !matches!(ty, Ty::List(_) | Ty::LargeList(_) | Ty::Fsl(..) | Ty::Struct(_))
}

thread_local! {
    /// legacy-format null classes that are not generated because a listed known finding covers them (bit mask)
    static SUPPRESS: std::cell::Cell<u8> = const { std::cell::Cell::new(0) };
}
const S_FIXED: u8 = 1;
const S_LIST: u8 = 2;
const S_GARBAGE: u8 = 4;

/// may this node carry nulls in the generated data?  Follows Dataset::lance_supports_nulls: the legacy format claims
/// NULL support for Utf8, LargeUtf8, Binary, List, FixedSizeBinary and FixedSizeList only; 2.0 for everything but structs.
fn may_null(f: &Fld, ver: Ver) -> bool {
    if !f.nullable {
        return false;
    }
    match ver {
        Ver::Legacy => {
            let sup = SUPPRESS.with(|s| s.get());
            match f.ty {
                Ty::Utf8 | Ty::LargeUtf8 | Ty::Binary => true,
                Ty::List(_) => sup & S_LIST == 0,
                Ty::Fsb(_) | Ty::Fsl(..) => sup & S_FIXED == 0,
                _ => false,
            }
        }
        Ver::V2_0 => !matches!(f.ty, Ty::Struct(_)),
        _ => true,
    }
}

/// expand one node into `n` model values
fn gen_col(f: &Fld, n: usize, ver: Ver, salt: u64) -> Vec<V> {
    let g = &f.gen;
    let mut r = Rng::new(((g.seed as u64) << 8) ^ salt.wrapping_mul(0x1000_0000_01B3));
    let nullable = may_null(f, ver);
    match &f.ty {
        Ty::Struct(children) => {
            let cols: Vec<Vec<V>> = children.iter().enumerate().map(|(i, c)| gen_col(c, n, ver, salt.wrapping_add(i as u64 + 1))).collect();
            (0..n)
                .map(|i| {
                    if nullable && r.pct(g.nulls) {
                        V::Null
                    } else {
                        V::S(cols.iter().map(|c| c[i].clone()).collect())
                    }
                })
                .collect()
        }
        Ty::List(child) | Ty::LargeList(child) => {
            let mut lens: Vec<Option<usize>> = Vec::with_capacity(n);
            let mut prev = 0usize;
            for _ in 0..n {
                if nullable && r.pct(g.nulls) {
                    lens.push(None);
                } else {
                    let l = if r.pct(g.runs) { prev } else { r.below(g.len as u64 + 1) as usize };
                    prev = l;
                    lens.push(Some(l));
                }
            }
            let total: usize = lens.iter().map(|l| l.unwrap_or(0)).sum();
            let mut items = gen_col(child, total, ver, salt.wrapping_add(101)).into_iter();
            lens.into_iter()
                .map(|l| match l {
                    None => V::Null,
                    Some(l) => V::L((0..l).map(|_| items.next().unwrap()).collect()),
                })
                .collect()
        }
        Ty::Fsl(item, dim) => {
            let d = *dim as usize;
            let mut items = gen_col(item, n * d, ver, salt.wrapping_add(202)).into_iter();
            (0..n)
                .map(|_| {
                    let vals: Vec<V> = (0..d).map(|_| items.next().unwrap()).collect();
                    if nullable && r.pct(g.nulls) {
                        V::Null
                    } else {
                        V::L(vals)
                    }
                })
                .collect()
        }
        leaf => {
            let mut prev: Option<V> = None;
            // the value domain of a bounded-cardinality node depends on the node only (not on the salt),
            // so garbage values come from the same domain
            let card_seed = Rng::new(g.seed as u64 ^ 0xC0FFEE).next();
            (0..n)
                .map(|_| {
                    if nullable && r.pct(g.nulls) {
                        return V::Null;
                    }
                    if let Some(p) = &prev {
                        if r.pct(g.runs) {
                            return p.clone();
                        }
                    }
                    let v = if g.card > 0 {
                        let k = r.below(g.card as u64);
                        leaf_value(leaf, &mut Rng::new(card_seed ^ k.wrapping_mul(0x9E37_79B9)), g)
                    } else {
                        leaf_value(leaf, &mut r, g)
                    };
                    prev = Some(v.clone());
                    v
                })
                .collect()
        }
    }
}

/// a valid non-null value of the type (placed under null parents when the child is not nullable)
fn zero_val(f: &Fld) -> V {
    match &f.ty {
        Ty::Bool => V::B(false),
        Ty::F16 | Ty::F32 | Ty::F64 => V::F(0),
        Ty::Utf8 | Ty::LargeUtf8 | Ty::Binary | Ty::LargeBinary | Ty::Utf8View | Ty::BinaryView => V::Y(vec![]),
        Ty::Fsb(w) => V::Y(vec![0; *w as usize]),
        Ty::Dict(_, val, _) => zero_val(&Fld { ty: (**val).clone(), ..f.clone() }),
        Ty::List(_) | Ty::LargeList(_) => V::L(vec![]),
        Ty::Fsl(item, d) => V::L((0..*d).map(|_| zero_val(item)).collect()),
        Ty::Struct(ch) => V::S(ch.iter().map(zero_val).collect()),
        _ => V::I(0),
    }
}

// ---------------------------------------------------------------------------
// arrow schema from the description

fn adtype(ty: &Ty) -> DataType {
    match ty {
        Ty::Bool => DataType::Boolean,
        Ty::I8 => DataType::Int8,
        Ty::I16 => DataType::Int16,
        Ty::I32 => DataType::Int32,
        Ty::I64 => DataType::Int64,
        Ty::U8 => DataType::UInt8,
        Ty::U16 => DataType::UInt16,
        Ty::U32 => DataType::UInt32,
        Ty::U64 => DataType::UInt64,
        Ty::F16 => DataType::Float16,
        Ty::F32 => DataType::Float32,
        Ty::F64 => DataType::Float64,
        Ty::Date32 => DataType::Date32,
        Ty::Date64 => DataType::Date64,
        Ty::Time32(u) => DataType::Time32(u.arrow()),
        Ty::Time64(u) => DataType::Time64(u.arrow()),
        Ty::Ts(u, tz) => DataType::Timestamp(u.arrow(), tz.as_ref().map(|s| s.as_str().into())),
        Ty::Dur(u) => DataType::Duration(u.arrow()),
        Ty::Dec128(p, s) => DataType::Decimal128(*p, *s),
        Ty::Dec256(p, s) => DataType::Decimal256(*p, *s),
        Ty::Utf8 => DataType::Utf8,
        Ty::LargeUtf8 => DataType::LargeUtf8,
        Ty::Binary => DataType::Binary,
        Ty::LargeBinary => DataType::LargeBinary,
        Ty::Utf8View => DataType::Utf8View,
        Ty::BinaryView => DataType::BinaryView,
        Ty::Fsb(w) => DataType::FixedSizeBinary(*w as i32),
        Ty::Dict(k, v, _) => DataType::Dictionary(
            Box::new(match k {
                Key::I8 => DataType::Int8,
                Key::I16 => DataType::Int16,
                Key::I32 => DataType::Int32,
                Key::U8 => DataType::UInt8,
            }),
            Box::new(adtype(v)),
        ),
        Ty::List(c) => DataType::List(Arc::new(afield(c))),
        Ty::LargeList(c) => DataType::LargeList(Arc::new(afield(c))),
        Ty::Fsl(c, d) => DataType::FixedSizeList(Arc::new(afield(c)), *d as i32),
        Ty::Struct(ch) => DataType::Struct(ch.iter().map(afield).collect::<Vec<_>>().into()),
    }
}

fn afield(f: &Fld) -> AField {
    let fld = AField::new(&f.name, adtype(&f.ty), f.nullable);
    if f.meta.is_empty() {
        fld
    } else {
        fld.with_metadata(f.meta.iter().cloned().collect::<HashMap<_, _>>())
    }
}

// ---------------------------------------------------------------------------
// model -> arrow

fn nulls_of(vals: &[V], force: bool) -> Option<NullBuffer> {
    let any = vals.iter().any(|v| matches!(v, V::Null));
    if any || force {
        Some(NullBuffer::new(BooleanBuffer::from_iter(vals.iter().map(|v| !matches!(v, V::Null)))))
    } else {
        None
    }
}

fn ints(vals: &[V]) -> Vec<i128> {
    // null slots carry a recognisable non-zero pattern
    vals.iter()
        .map(|v| match v {
            V::I(x) => *x,
            V::Null => 0x55,
            other => panic!("harness: expected integer model value, got {other:?}"),
        })
        .collect()
}

macro_rules! prim_arr {
    ($t:ty, $vals:expr, $nulls:expr, $conv:expr) => {{
        let v: Vec<<$t as ArrowPrimitiveType>::Native> = ints($vals).into_iter().map($conv).collect();
        Arc::new(PrimitiveArray::<$t>::new(ScalarBuffer::from(v), $nulls)) as ArrayRef
    }};
}

fn bytes_arr<O: OffsetSizeTrait>(vals: &[V], nulls: Option<NullBuffer>, text: bool, garbage: bool) -> ArrayRef {
    let mut offsets: Vec<O> = Vec::with_capacity(vals.len() + 1);
    let mut data: Vec<u8> = vec![];
    offsets.push(O::usize_as(0));
    for v in vals {
        match v {
            V::Y(b) => data.extend_from_slice(b),
            V::Null => {
                if garbage {
                    data.extend_from_slice(b"GARBAGE");
                }
            }
            other => panic!("harness: expected bytes model value, got {other:?}"),
        }
        offsets.push(O::usize_as(data.len()));
    }
    let offsets = OffsetBuffer::new(ScalarBuffer::from(offsets));
    if text {
        Arc::new(GenericStringArray::<O>::new(offsets, data.into(), nulls))
    } else {
        Arc::new(GenericBinaryArray::<O>::new(offsets, data.into(), nulls))
    }
}

struct Builder {
    ver: Ver,
}

impl Builder {
    fn build(&self, f: &Fld, vals: &[V], salt: u64) -> ArrayRef {
        let force = f.nullable && f.gen.seed & 1 == 1;
        let nulls = nulls_of(vals, force);
        if !f.nullable {
            assert!(nulls.is_none(), "harness: nulls generated for non-nullable field {}", f.name);
        }
        let mut g_eff = f.gen.clone();
        if self.ver == Ver::Legacy && SUPPRESS.with(|s| s.get()) & S_GARBAGE != 0 {
            g_eff.garbage = false;
        }
        let g = &g_eff;
        match &f.ty {
            Ty::Bool => {
                let b = BooleanBuffer::from_iter(vals.iter().map(|v| match v {
                    V::B(b) => *b,
                    V::Null => true,
                    other => panic!("harness: expected bool, got {other:?}"),
                }));
                Arc::new(BooleanArray::new(b, nulls))
            }
            Ty::I8 => prim_arr!(Int8Type, vals, nulls, |x| x as i8),
            Ty::I16 => prim_arr!(Int16Type, vals, nulls, |x| x as i16),
            Ty::I32 => prim_arr!(Int32Type, vals, nulls, |x| x as i32),
            Ty::I64 => prim_arr!(Int64Type, vals, nulls, |x| x as i64),
            Ty::U8 => prim_arr!(UInt8Type, vals, nulls, |x| x as u8),
            Ty::U16 => prim_arr!(UInt16Type, vals, nulls, |x| x as u16),
            Ty::U32 => prim_arr!(UInt32Type, vals, nulls, |x| x as u32),
            Ty::U64 => prim_arr!(UInt64Type, vals, nulls, |x| x as u64),
            Ty::Date32 => prim_arr!(Date32Type, vals, nulls, |x| x as i32),
            Ty::Date64 => prim_arr!(Date64Type, vals, nulls, |x| x as i64),
            Ty::Time32(Unit::S) => prim_arr!(Time32SecondType, vals, nulls, |x| x as i32),
            Ty::Time32(_) => prim_arr!(Time32MillisecondType, vals, nulls, |x| x as i32),
            Ty::Time64(Unit::Us) => prim_arr!(Time64MicrosecondType, vals, nulls, |x| x as i64),
            Ty::Time64(_) => prim_arr!(Time64NanosecondType, vals, nulls, |x| x as i64),
            Ty::Ts(u, tz) => {
                let v: Vec<i64> = ints(vals).into_iter().map(|x| x as i64).collect();
                let tz: Option<Arc<str>> = tz.as_ref().map(|s| s.as_str().into());
                match u {
                    Unit::S => Arc::new(PrimitiveArray::<TimestampSecondType>::new(v.into(), nulls).with_timezone_opt(tz)),
                    Unit::Ms => Arc::new(PrimitiveArray::<TimestampMillisecondType>::new(v.into(), nulls).with_timezone_opt(tz)),
                    Unit::Us => Arc::new(PrimitiveArray::<TimestampMicrosecondType>::new(v.into(), nulls).with_timezone_opt(tz)),
                    Unit::Ns => Arc::new(PrimitiveArray::<TimestampNanosecondType>::new(v.into(), nulls).with_timezone_opt(tz)),
                }
            }
            Ty::Dur(Unit::S) => prim_arr!(DurationSecondType, vals, nulls, |x| x as i64),
            Ty::Dur(Unit::Ms) => prim_arr!(DurationMillisecondType, vals, nulls, |x| x as i64),
            Ty::Dur(Unit::Us) => prim_arr!(DurationMicrosecondType, vals, nulls, |x| x as i64),
            Ty::Dur(Unit::Ns) => prim_arr!(DurationNanosecondType, vals, nulls, |x| x as i64),
            Ty::Dec128(p, s) => {
                let v: Vec<i128> = ints(vals);
                Arc::new(PrimitiveArray::<Decimal128Type>::new(v.into(), nulls).with_precision_and_scale(*p, *s).expect("harness: decimal128"))
            }
            Ty::Dec256(p, s) => {
                let v: Vec<i256> = ints(vals).into_iter().map(i256::from_i128).collect();
                Arc::new(PrimitiveArray::<Decimal256Type>::new(v.into(), nulls).with_precision_and_scale(*p, *s).expect("harness: decimal256"))
            }
            Ty::F16 => {
                let v: Vec<half::f16> = vals.iter().map(|v| match v { V::F(b) => half::f16::from_bits(*b as u16), V::Null => half::f16::from_bits(0x5555), o => panic!("harness: expected float, got {o:?}") }).collect();
                Arc::new(PrimitiveArray::<Float16Type>::new(v.into(), nulls))
            }
            Ty::F32 => {
                let v: Vec<f32> = vals.iter().map(|v| match v { V::F(b) => f32::from_bits(*b as u32), V::Null => 5.5, o => panic!("harness: expected float, got {o:?}") }).collect();
                Arc::new(PrimitiveArray::<Float32Type>::new(v.into(), nulls))
            }
            Ty::F64 => {
                let v: Vec<f64> = vals.iter().map(|v| match v { V::F(b) => f64::from_bits(*b), V::Null => 5.5, o => panic!("harness: expected float, got {o:?}") }).collect();
                Arc::new(PrimitiveArray::<Float64Type>::new(v.into(), nulls))
            }
            Ty::Utf8 => bytes_arr::<i32>(vals, nulls, true, g.garbage),
            Ty::LargeUtf8 => bytes_arr::<i64>(vals, nulls, true, g.garbage),
            Ty::Binary => bytes_arr::<i32>(vals, nulls, false, g.garbage),
            Ty::LargeBinary => bytes_arr::<i64>(vals, nulls, false, g.garbage),
            Ty::Utf8View => {
                let a = bytes_arr::<i32>(vals, nulls, true, false);
                arrow_cast::cast(&a, &DataType::Utf8View).expect("harness: cast to view")
            }
            Ty::BinaryView => {
                let a = bytes_arr::<i32>(vals, nulls, false, false);
                arrow_cast::cast(&a, &DataType::BinaryView).expect("harness: cast to view")
            }
            Ty::Fsb(w) => {
                let mut data: Vec<u8> = Vec::with_capacity(vals.len() * *w as usize);
                for v in vals {
                    match v {
                        V::Y(b) => {
                            assert_eq!(b.len(), *w as usize);
                            data.extend_from_slice(b)
                        }
                        V::Null => data.extend(std::iter::repeat(0x55).take(*w as usize)),
                        o => panic!("harness: expected bytes, got {o:?}"),
                    }
                }
                Arc::new(FixedSizeBinaryArray::new(*w as i32, data.into(), nulls))
            }
            Ty::Dict(k, val, null_in_values) => {
                // distinct values in order of first appearance
                let mut dict: Vec<V> = vec![];
                if g.seed & 2 == 2 {
                    // an entry no key refers to
                    dict.push(zero_val(&Fld { ty: (**val).clone(), ..f.clone() }));
                }
                let first_used = dict.len();
                let mut index: Vec<(V, usize)> = vec![];
                let has_null = vals.iter().any(|v| matches!(v, V::Null));
                let mut keys: Vec<V> = Vec::with_capacity(vals.len());
                let mut null_slot: Option<usize> = None;
                for v in vals {
                    match v {
                        V::Null => {
                            if *null_in_values && has_null {
                                let slot = *null_slot.get_or_insert_with(|| {
                                    dict.push(V::Null);
                                    dict.len() - 1
                                });
                                keys.push(V::I(slot as i128));
                            } else {
                                keys.push(V::Null);
                            }
                        }
                        v => {
                            let pos = match index.iter().find(|(x, _)| x == v) {
                                Some((_, p)) => *p,
                                None => {
                                    dict.push(v.clone());
                                    index.push((v.clone(), dict.len() - 1));
                                    dict.len() - 1
                                }
                            };
                            keys.push(V::I(pos as i128));
                        }
                    }
                }
                let _ = first_used;
                let vfld = Fld { name: "v".into(), ty: (**val).clone(), nullable: true, meta: vec![], gen: Gen { seed: 0, ..g.clone() } };
                let values = self.build(&vfld, &dict, salt);
                let kn = nulls_of(&keys, false);
                // key value in null slots: in range unless garbage is asked for (lance rejects out-of-range keys in null slots)
                let kints: Vec<i128> = keys.iter().map(|k| match k { V::I(x) => *x, _ => if g.garbage && g.seed & 12 == 12 { 0x55 } else { 0 } }).collect();
                assert!(dict.len() <= 120, "harness: dictionary too large for the key type");
                match k {
                    Key::I8 => Arc::new(DictionaryArray::<Int8Type>::try_new(PrimitiveArray::new(kints.iter().copied().map(|x| x as i8).collect::<Vec<_>>().into(), kn), values).expect("harness: dict")),
                    Key::I16 => Arc::new(DictionaryArray::<Int16Type>::try_new(PrimitiveArray::new(kints.iter().copied().map(|x| x as i16).collect::<Vec<_>>().into(), kn), values).expect("harness: dict")),
                    Key::I32 => Arc::new(DictionaryArray::<Int32Type>::try_new(PrimitiveArray::new(kints.iter().copied().map(|x| x as i32).collect::<Vec<_>>().into(), kn), values).expect("harness: dict")),
                    Key::U8 => Arc::new(DictionaryArray::<UInt8Type>::try_new(PrimitiveArray::new(kints.iter().copied().map(|x| x as u8).collect::<Vec<_>>().into(), kn), values).expect("harness: dict")),
                }
            }
            Ty::List(child) | Ty::LargeList(child) => {
                let mut flat: Vec<V> = vec![];
                let mut offs: Vec<usize> = vec![0];
                let mut gr = Rng::new(salt ^ 0xABCD ^ g.seed as u64);
                for v in vals {
                    match v {
                        V::L(items) => flat.extend(items.iter().cloned()),
                        V::Null => {
                            if g.garbage {
                                // garbage behind a null list: the offsets keep covering child values
                                let k = 1 + gr.below(3) as usize;
                                flat.extend(gen_col(child, k, self.ver, salt.wrapping_add(7777 + offs.len() as u64)));
                            }
                        }
                        o => panic!("harness: expected list, got {o:?}"),
                    }
                    offs.push(flat.len());
                }
                let values = self.build(child, &flat, salt.wrapping_add(11));
                let cf = Arc::new(afield(child));
                if matches!(f.ty, Ty::List(_)) {
                    let o = OffsetBuffer::new(ScalarBuffer::from(offs.iter().map(|x| *x as i32).collect::<Vec<_>>()));
                    Arc::new(ListArray::new(cf, o, values, nulls))
                } else {
                    let o = OffsetBuffer::new(ScalarBuffer::from(offs.iter().map(|x| *x as i64).collect::<Vec<_>>()));
                    Arc::new(LargeListArray::new(cf, o, values, nulls))
                }
            }
            Ty::Fsl(item, dim) => {
                let d = *dim as usize;
                let mut flat: Vec<V> = Vec::with_capacity(vals.len() * d);
                for (i, v) in vals.iter().enumerate() {
                    match v {
                        V::L(items) => {
                            assert_eq!(items.len(), d);
                            flat.extend(items.iter().cloned())
                        }
                        V::Null => {
                            if g.garbage {
                                flat.extend(gen_col(item, d, self.ver, salt.wrapping_add(8888 + i as u64)));
                            } else {
                                flat.extend((0..d).map(|_| if item.nullable { V::Null } else { zero_val(item) }));
                            }
                        }
                        o => panic!("harness: expected fsl, got {o:?}"),
                    }
                }
                let values = self.build(item, &flat, salt.wrapping_add(13));
                Arc::new(FixedSizeListArray::new(Arc::new(afield(item)), *dim as i32, values, nulls))
            }
            Ty::Struct(children) => {
                let mut arrays: Vec<ArrayRef> = vec![];
                for (ci, c) in children.iter().enumerate() {
                    let cvals: Vec<V> = vals
                        .iter()
                        .enumerate()
                        .map(|(i, v)| match v {
                            V::S(items) => items[ci].clone(),
                            V::Null => {
                                if g.garbage {
                                    gen_col(c, 1, self.ver, salt.wrapping_add(9999 + (i * 31 + ci) as u64)).pop().unwrap()
                                } else if c.nullable && may_null(c, self.ver) {
                                    V::Null
                                } else {
                                    zero_val(c)
                                }
                            }
                            o => panic!("harness: expected struct, got {o:?}"),
                        })
                        .collect();
                    arrays.push(self.build(c, &cvals, salt.wrapping_add(17 + ci as u64)));
                }
                let fields: Fields = children.iter().map(afield).collect::<Vec<_>>().into();
                Arc::new(StructArray::new(fields, arrays, nulls))
            }
        }
    }
}

// ---------------------------------------------------------------------------
// arrow -> model (explicit nulls; nothing below a null is observable)

macro_rules! prim_vals {
    ($t:ty, $a:expr) => {{
        let p = $a.as_primitive::<$t>();
        (0..p.len()).map(|i| if p.is_null(i) { V::Null } else { V::I(p.value(i) as i128) }).collect()
    }};
}

fn bytes_vals<'a, I: Iterator<Item = Option<&'a [u8]>>>(it: I) -> Vec<V> {
    it.map(|o| match o {
        None => V::Null,
        Some(b) => V::Y(b.to_vec()),
    })
    .collect()
}

fn to_vals(a: &dyn Array) -> Result<Vec<V>, String> {
    Ok(match a.data_type() {
        DataType::Boolean => {
            let b = a.as_boolean();
            (0..b.len()).map(|i| if b.is_null(i) { V::Null } else { V::B(b.value(i)) }).collect()
        }
        DataType::Int8 => prim_vals!(Int8Type, a),
        DataType::Int16 => prim_vals!(Int16Type, a),
        DataType::Int32 => prim_vals!(Int32Type, a),
        DataType::Int64 => prim_vals!(Int64Type, a),
        DataType::UInt8 => prim_vals!(UInt8Type, a),
        DataType::UInt16 => prim_vals!(UInt16Type, a),
        DataType::UInt32 => prim_vals!(UInt32Type, a),
        DataType::UInt64 => prim_vals!(UInt64Type, a),
        DataType::Date32 => prim_vals!(Date32Type, a),
        DataType::Date64 => prim_vals!(Date64Type, a),
        DataType::Time32(TimeUnit::Second) => prim_vals!(Time32SecondType, a),
        DataType::Time32(_) => prim_vals!(Time32MillisecondType, a),
        DataType::Time64(TimeUnit::Microsecond) => prim_vals!(Time64MicrosecondType, a),
        DataType::Time64(_) => prim_vals!(Time64NanosecondType, a),
        DataType::Timestamp(TimeUnit::Second, _) => prim_vals!(TimestampSecondType, a),
        DataType::Timestamp(TimeUnit::Millisecond, _) => prim_vals!(TimestampMillisecondType, a),
        DataType::Timestamp(TimeUnit::Microsecond, _) => prim_vals!(TimestampMicrosecondType, a),
        DataType::Timestamp(TimeUnit::Nanosecond, _) => prim_vals!(TimestampNanosecondType, a),
        DataType::Duration(TimeUnit::Second) => prim_vals!(DurationSecondType, a),
        DataType::Duration(TimeUnit::Millisecond) => prim_vals!(DurationMillisecondType, a),
        DataType::Duration(TimeUnit::Microsecond) => prim_vals!(DurationMicrosecondType, a),
        DataType::Duration(TimeUnit::Nanosecond) => prim_vals!(DurationNanosecondType, a),
        DataType::Decimal128(..) => prim_vals!(Decimal128Type, a),
        DataType::Decimal256(..) => {
            let p = a.as_primitive::<Decimal256Type>();
            (0..p.len())
                .map(|i| {
                    if p.is_null(i) {
                        V::Null
                    } else {
                        match p.value(i).to_i128() {
                            Some(x) => V::I(x),
                            None => V::Y(p.value(i).to_le_bytes().to_vec()),
                        }
                    }
                })
                .collect()
        }
        DataType::Float16 => {
            let p = a.as_primitive::<Float16Type>();
            (0..p.len()).map(|i| if p.is_null(i) { V::Null } else { V::F(p.value(i).to_bits() as u64) }).collect()
        }
        DataType::Float32 => {
            let p = a.as_primitive::<Float32Type>();
            (0..p.len()).map(|i| if p.is_null(i) { V::Null } else { V::F(p.value(i).to_bits() as u64) }).collect()
        }
        DataType::Float64 => {
            let p = a.as_primitive::<Float64Type>();
            (0..p.len()).map(|i| if p.is_null(i) { V::Null } else { V::F(p.value(i).to_bits()) }).collect()
        }
        DataType::Utf8 => bytes_vals(a.as_string::<i32>().iter().map(|o| o.map(|s| s.as_bytes()))),
        DataType::LargeUtf8 => bytes_vals(a.as_string::<i64>().iter().map(|o| o.map(|s| s.as_bytes()))),
        DataType::Binary => bytes_vals(a.as_binary::<i32>().iter()),
        DataType::LargeBinary => bytes_vals(a.as_binary::<i64>().iter()),
        DataType::Utf8View => bytes_vals(a.as_string_view().iter().map(|o| o.map(|s| s.as_bytes()))),
        DataType::BinaryView => bytes_vals(a.as_binary_view().iter()),
        DataType::FixedSizeBinary(_) => bytes_vals(a.as_fixed_size_binary().iter()),
        DataType::Dictionary(_, _) => {
            let d = a.as_any_dictionary();
            let keys = to_vals(d.keys())?;
            let values = to_vals(d.values().as_ref())?;
            keys.into_iter()
                .map(|k| match k {
                    V::Null => Ok(V::Null),
                    V::I(i) => values.get(i as usize).cloned().ok_or_else(|| format!("dictionary key {i} out of range ({} values)", values.len())),
                    o => Err(format!("odd dictionary key {o:?}")),
                })
                .collect::<Result<Vec<_>, _>>()?
        }
        DataType::List(_) => {
            let l = a.as_list::<i32>();
            let child = to_vals(l.values().as_ref())?;
            let offs = l.value_offsets();
            (0..l.len()).map(|i| if l.is_null(i) { V::Null } else { V::L(child[offs[i] as usize..offs[i + 1] as usize].to_vec()) }).collect()
        }
        DataType::LargeList(_) => {
            let l = a.as_list::<i64>();
            let child = to_vals(l.values().as_ref())?;
            let offs = l.value_offsets();
            (0..l.len()).map(|i| if l.is_null(i) { V::Null } else { V::L(child[offs[i] as usize..offs[i + 1] as usize].to_vec()) }).collect()
        }
        DataType::FixedSizeList(_, d) => {
            let l = a.as_fixed_size_list();
            let d = *d as usize;
            let child = to_vals(l.values().as_ref())?;
            if child.len() != l.len() * d {
                return Err(format!("fixed size list of {} rows x {d} has {} child values", l.len(), child.len()));
            }
            (0..l.len()).map(|i| if l.is_null(i) { V::Null } else { V::L(child[i * d..(i + 1) * d].to_vec()) }).collect()
        }
        DataType::Struct(_) => {
            let s = a.as_struct();
            let cols: Vec<Vec<V>> = s.columns().iter().map(|c| to_vals(c.as_ref())).collect::<Result<_, _>>()?;
            for c in &cols {
                if c.len() != s.len() {
                    return Err(format!("struct of {} rows has a child of {} rows", s.len(), c.len()));
                }
            }
            (0..s.len()).map(|i| if s.is_null(i) { V::Null } else { V::S(cols.iter().map(|c| c[i].clone()).collect()) }).collect()
        }
        other => return Err(format!("unexpected data type {other:?}")),
    })
}


fn depth(ty: &Ty) -> usize {
    match ty {
        Ty::List(c) | Ty::LargeList(c) | Ty::Fsl(c, _) => 1 + depth(&c.ty),
        Ty::Struct(ch) => 1 + ch.iter().map(|c| depth(&c.ty)).max().unwrap_or(0),
        _ => 1,
    }
}

fn has_inner_null(v: &V, level: usize) -> bool {
    match v {
        V::Null => level >= 2,
        V::L(items) | V::S(items) => items.iter().any(|x| has_inner_null(x, level + 1)),
        _ => false,
    }
}

fn skeleton(ty: &Ty) -> String {
    match ty {
        Ty::List(c) => format!("L<{}>", skeleton(&c.ty)),
        Ty::LargeList(c) => format!("LL<{}>", skeleton(&c.ty)),
        Ty::Fsl(c, d) => format!("F{d}<{}>", skeleton(&c.ty)),
        Ty::Struct(ch) => format!("S<{}>", ch.iter().map(|c| skeleton(&c.ty)).collect::<Vec<_>>().join(",")),
        Ty::Dict(k, v, _) => format!("D{k:?}<{}>", skeleton(v)),
        Ty::Ts(u, tz) => format!("Ts{u:?}{}", if tz.is_some() { "z" } else { "" }),
        other => format!("{other:?}"),
    }
}


fn first_diff(path: &str, want: &V, got: &V) -> Option<String> {
    if want == got {
        return None;
    }
    match (want, got) {
        (V::L(a), V::L(b)) | (V::S(a), V::S(b)) if a.len() == b.len() => {
            for (i, (x, y)) in a.iter().zip(b).enumerate() {
                if let Some(d) = first_diff(&format!("{path}[{i}]"), x, y) {
                    return Some(d);
                }
            }
            None
        }
        (V::L(a), V::L(b)) => Some(format!("{path}: list length {} expected, {} read; expected {} read {}", a.len(), b.len(), show(want), show(got))),
        _ => Some(format!("{path}: expected {} read {}", show(want), show(got))),
    }
}


fn unit_s() -> impl Strategy<Value = Unit> {
    prop_oneof![Just(Unit::S), Just(Unit::Ms), Just(Unit::Us), Just(Unit::Ns)]
}

fn fixed_leaf_ty() -> BoxedStrategy<Ty> {
    prop_oneof![
        2 => Just(Ty::Bool),
        1 => Just(Ty::I8),
        1 => Just(Ty::I16),
        2 => Just(Ty::I32),
        2 => Just(Ty::I64),
        1 => Just(Ty::U8),
        1 => Just(Ty::U16),
        1 => Just(Ty::U32),
        1 => Just(Ty::U64),
        1 => Just(Ty::F16),
        2 => Just(Ty::F32),
        2 => Just(Ty::F64),
        1 => Just(Ty::Date32),
        1 => Just(Ty::Date64),
        1 => prop_oneof![Just(Unit::S), Just(Unit::Ms)].prop_map(Ty::Time32),
        1 => prop_oneof![Just(Unit::Us), Just(Unit::Ns)].prop_map(Ty::Time64),
        2 => (unit_s(), prop_oneof![12 => Just(None), 4 => Just(Some("UTC".to_string())), 4 => Just(Some("America/New_York".to_string())), 1 => Just(Some("+02:00".to_string()))]).prop_map(|(u, tz)| Ty::Ts(u, tz)),
        1 => unit_s().prop_map(Ty::Dur),
        2 => (1u8..=38).prop_flat_map(|p| (Just(p), 0i8..=(p as i8))).prop_map(|(p, s)| Ty::Dec128(p, s)),
        1 => (1u8..=76).prop_flat_map(|p| (Just(p), 0i8..=(p.min(38) as i8))).prop_map(|(p, s)| Ty::Dec256(p, s)),
        2 => (1u8..=17).prop_map(Ty::Fsb),
    ]
    .boxed()
}

fn leaf_ty() -> BoxedStrategy<Ty> {
    prop_oneof![
        56 => fixed_leaf_ty(),
        16 => Just(Ty::Utf8),
        4 => Just(Ty::LargeUtf8),
        8 => Just(Ty::Binary),
        4 => Just(Ty::LargeBinary),
        1 => prop_oneof![Just(Ty::Utf8View), Just(Ty::BinaryView)],
        12 => (
            prop_oneof![Just(Key::I8), Just(Key::I16), Just(Key::I32), Just(Key::U8)],
            prop_oneof![5 => Just(Ty::Utf8), 1 => Just(Ty::LargeUtf8), 1 => Just(Ty::Binary), 1 => Just(Ty::I32), 1 => Just(Ty::F64)],
            any::<bool>()
        )
            .prop_map(|(k, v, n)| Ty::Dict(k, Box::new(v), n)),
    ]
    .boxed()
}

fn gen_s(tier: Tier) -> impl Strategy<Value = Gen> {
    let wide = match tier {
        Tier::Quick => prop_oneof![14 => Just(0u8), 1 => Just(1u8)].boxed(),
        Tier::Thorough => prop_oneof![60 => Just(0u8), 5 => Just(1u8), 1 => Just(2u8)].boxed(),
    };
    (
        any::<u32>(),
        prop_oneof![4 => Just(0u8), 14 => 3u8..45, 1 => 80u8..100, 1 => Just(100u8)],
        prop_oneof![3 => Just(0u8), 2 => 1u8..5, 2 => 5u8..40],
        prop_oneof![3 => Just(0u8), 2 => 40u8..97],
        prop_oneof![1 => Just(0u8), 12 => 1u8..8],
        wide,
        any::<bool>(),
    )
        .prop_map(|(seed, nulls, card, runs, len, wide, garbage)| Gen { seed, nulls, card, runs, len, wide, garbage })
}

fn mk_fld(ty: Ty, nullable: bool, mut gen: Gen, m: MetaChoice) -> Fld {
    if let Ty::Dict(..) = ty {
        if gen.card == 0 {
            gen.card = 12;
        }
        gen.wide = 0;
    }
    let _ = m;
    let meta = vec![];
    Fld { name: String::new(), ty, nullable, meta, gen }
}

fn fld_s(depth_left: u32, tier: Tier) -> BoxedStrategy<Fld> {
    let leaf = (leaf_ty(), prop::bool::weighted(0.85), gen_s(tier), meta_choice()).prop_map(|(ty, n, g, m)| mk_fld(ty, n, g, m)).boxed();
    if depth_left <= 1 {
        return leaf;
    }
    let child = fld_s(depth_left - 1, tier);
    let list = (child.clone(), any::<bool>(), prop::bool::weighted(0.85), gen_s(tier), meta_choice())
        .prop_map(|(c, large, n, g, m)| mk_fld(if large { Ty::LargeList(Box::new(c)) } else { Ty::List(Box::new(c)) }, n, g, m))
        .boxed();
    // fixed size lists: fixed width items (or a nested fixed size list of those)
    let fsl_item = (fixed_leaf_ty(), gen_s(tier)).prop_map(|(ty, g)| mk_fld(ty, true, g, MetaChoice::default()));
    let fsl1 = (fsl_item, 1u8..6, prop::bool::weighted(0.85), gen_s(tier), meta_choice()).prop_map(|(item, d, n, g, m)| mk_fld(Ty::Fsl(Box::new(item), d), n, g, m)).boxed();
    let fsl = if depth_left >= 3 {
        prop_oneof![
            5 => fsl1.clone(),
            1 => (fsl1.clone(), 1u8..4, prop::bool::weighted(0.85), gen_s(tier), meta_choice()).prop_map(|(mut item, d, n, g, m)| {
                item.nullable = true;
                mk_fld(Ty::Fsl(Box::new(item), d), n, g, m)
            }),
        ]
        .boxed()
    } else {
        fsl1
    };
    let strukt = (prop::collection::vec(child, 1..4), prop::bool::weighted(0.85), gen_s(tier), meta_choice()).prop_map(|(ch, n, g, m)| mk_fld(Ty::Struct(ch), n, g, m)).boxed();
    prop_oneof![3 => leaf, 4 => list, 1 => fsl, 4 => strukt].boxed()
}

fn rename(f: &mut Fld, name: String) {
    f.name = name;
    match &mut f.ty {
        Ty::List(c) | Ty::LargeList(c) => rename(c, "item".into()),
        Ty::Fsl(c, _) => {
            rename(c, "item".into());
            c.nullable = true;
            c.meta.clear();
        }
        Ty::Struct(ch) => {
            for (i, c) in ch.iter_mut().enumerate() {
                rename(c, format!("f{i}"));
            }
        }
        _ => {}
    }
}

fn has_tz_colon(f: &Fld) -> bool {
    match &f.ty {
        Ty::List(c) | Ty::LargeList(c) | Ty::Fsl(c, _) => has_tz_colon(c),
        Ty::Struct(ch) => ch.iter().any(has_tz_colon),
        Ty::Ts(_, Some(tz)) => tz.contains(':'),
        Ty::Dict(_, v, _) => matches!(&**v, Ty::Ts(_, Some(tz)) if tz.contains(':')),
        _ => false,
    }
}


fn leaf_bytes(ty: &Ty) -> usize {
    match ty {
        Ty::Bool | Ty::I8 | Ty::U8 => 1,
        Ty::I16 | Ty::U16 | Ty::F16 => 2,
        Ty::I32 | Ty::U32 | Ty::F32 | Ty::Date32 | Ty::Time32(_) => 4,
        Ty::Dec128(..) => 16,
        Ty::Dec256(..) => 32,
        Ty::Fsb(w) => *w as usize,
        Ty::Fsl(c, d) => *d as usize * leaf_bytes(&c.ty),
        _ => 8,
    }
}

/// byte width of the largest fixed_size_list<fixed_size_list<..>> value in the field (0 if there is none)
fn nested_fsl_bytes(f: &Fld) -> usize {
    match &f.ty {
        Ty::List(c) | Ty::LargeList(c) => nested_fsl_bytes(c),
        Ty::Struct(ch) => ch.iter().map(nested_fsl_bytes).max().unwrap_or(0),
        Ty::Fsl(c, _) if matches!(c.ty, Ty::Fsl(..)) => leaf_bytes(&f.ty).max(1),
        _ => 0,
    }
}


/// model view of `fsl_inner_allnull`: a fixed size list node whose valid entries have only null items
/// (children of null entries / garbage behind null lists are not considered: over-approximation)
fn fsl_items_allnull_model(f: &Fld, vals: &[&V]) -> bool {
    match &f.ty {
        Ty::List(c) | Ty::LargeList(c) => {
            let items: Vec<&V> = vals.iter().flat_map(|v| match v { V::L(x) => x.iter().collect::<Vec<_>>(), _ => vec![] }).collect();
            fsl_items_allnull_model(c, &items)
        }
        Ty::Struct(ch) => ch.iter().enumerate().any(|(ci, c)| {
            let cv: Vec<&V> = vals.iter().filter_map(|v| match v { V::S(x) => Some(&x[ci]), _ => None }).collect();
            fsl_items_allnull_model(c, &cv)
        }),
        Ty::Fsl(c, _) => {
            if vals.is_empty() {
                return false;
            }
            let items: Vec<&V> = vals.iter().flat_map(|v| match v { V::L(x) => x.iter().collect::<Vec<_>>(), _ => vec![] }).collect();
            items.iter().all(|v| matches!(v, V::Null)) || fsl_items_allnull_model(c, &items)
        }
        _ => false,
    }
}


/// a fixed size list whose item array (leaf or inner fixed size list) is entirely null (and not empty)
fn fsl_inner_allnull(f: &Fld, a: &ArrayRef) -> bool {
    match &f.ty {
        Ty::List(c) => {
            let l = a.as_list::<i32>();
            let (s, e) = (l.value_offsets()[0] as usize, l.value_offsets()[l.len()] as usize);
            fsl_inner_allnull(c, &l.values().slice(s, e - s))
        }
        Ty::LargeList(c) => {
            let l = a.as_list::<i64>();
            let (s, e) = (l.value_offsets()[0] as usize, l.value_offsets()[l.len()] as usize);
            fsl_inner_allnull(c, &l.values().slice(s, e - s))
        }
        Ty::Struct(ch) => ch.iter().zip(a.as_struct().columns()).any(|(c, a)| fsl_inner_allnull(c, a)),
        Ty::Fsl(c, _) => {
            let inner = a.as_fixed_size_list().values();
            (inner.len() > 0 && inner.null_count() == inner.len()) || fsl_inner_allnull(c, inner)
        }
        _ => false,
    }
}

fn has_list(f: &Fld) -> bool {
    match &f.ty {
        Ty::List(_) | Ty::LargeList(_) => true,
        Ty::Fsl(c, _) => has_list(c),
        Ty::Struct(ch) => ch.iter().any(has_list),
        _ => false,
    }
}

/// a blob leaf that has an empty or null value

// ---------------------------------------------------------------------------
// C11 proper

/// map types the given storage version does not claim to support onto supported ones
fn sanitize(f: &mut Fld, ver: Ver) {
    f.meta.clear();
    match &mut f.ty {
        Ty::List(c) | Ty::LargeList(c) | Ty::Fsl(c, _) => sanitize(c, ver),
        Ty::Struct(ch) => ch.iter_mut().for_each(|c| sanitize(c, ver)),
        _ => {}
    }
    if ver == Ver::Legacy {
        // the legacy writer's documented type set: no views, no Decimal256
        f.ty = match std::mem::replace(&mut f.ty, Ty::Bool) {
            Ty::Utf8View => Ty::Utf8,
            Ty::BinaryView => Ty::Binary,
            Ty::Dec256(p, s) => Ty::Dec128(p.min(38), s.min(38)),
            // legacy dictionary columns keep ONE dictionary in the manifest (taken from the first batch): per-batch
            // dictionaries are outside what that writer supports; its defects are C32's subject
            Ty::Dict(_, v, _) => match *v {
                Ty::Utf8 | Ty::LargeUtf8 | Ty::Binary => *v,
                _ => Ty::Utf8,
            },
            t => t,
        };
    }
}

fn is_nested(ty: &Ty) -> bool {
    matches!(ty, Ty::List(_) | Ty::LargeList(_) | Ty::Fsl(..) | Ty::Struct(_))
}

/// a nested column with a node that may carry nulls
fn nullable_nested(f: &Fld, ver: Ver) -> bool {
    fn any_null(f: &Fld, ver: Ver) -> bool {
        (may_null(f, ver) && f.gen.nulls > 0)
            || match &f.ty {
                Ty::List(c) | Ty::LargeList(c) | Ty::Fsl(c, _) => any_null(c, ver),
                Ty::Struct(ch) => ch.iter().any(|c| any_null(c, ver)),
                _ => false,
            }
    }
    is_nested(&f.ty) && any_null(f, ver)
}

fn same_type(a: &DataType, b: &DataType) -> bool {
    match (a, b) {
        (DataType::List(x), DataType::List(y)) | (DataType::LargeList(x), DataType::LargeList(y)) => same_field(x, y),
        (DataType::FixedSizeList(x, n), DataType::FixedSizeList(y, m)) => n == m && same_field(x, y),
        (DataType::Struct(x), DataType::Struct(y)) => x.len() == y.len() && x.iter().zip(y.iter()).all(|(p, q)| same_field(p, q)),
        (DataType::Dictionary(k1, v1), DataType::Dictionary(k2, v2)) => k1 == k2 && same_type(v1, v2),
        (a, b) => a == b,
    }
}

fn same_field(a: &AField, b: &AField) -> bool {
    a.name() == b.name() && a.is_nullable() == b.is_nullable() && same_type(a.data_type(), b.data_type())
}

/// does the tree contain a node satisfying `p`?
fn any_node(f: &Fld, p: &dyn Fn(&Fld) -> bool) -> bool {
    p(f) || match &f.ty {
        Ty::List(c) | Ty::LargeList(c) | Ty::Fsl(c, _) => any_node(c, p),
        Ty::Struct(ch) => ch.iter().any(|c| any_node(c, p)),
        _ => false,
    }
}

/// legacy: list items declared non-nullable -> nullable (known finding C11-legacy-list-nonnull-item-unreadable)
fn make_list_items_nullable(f: &mut Fld) {
    match &mut f.ty {
        Ty::List(c) | Ty::LargeList(c) => {
            c.nullable = true;
            make_list_items_nullable(c);
        }
        Ty::Fsl(c, _) => make_list_items_nullable(c),
        Ty::Struct(ch) => ch.iter_mut().for_each(make_list_items_nullable),
        _ => {}
    }
}

/// legacy: an empty string / binary value of a nullable field reads back as NULL (known finding
/// C11-legacy-empty-value-reads-null); returns the model value as the legacy format can represent it
fn legacy_norm(f: &Fld, v: &V, changed: &mut bool) -> V {
    match (&f.ty, v) {
        (Ty::Utf8 | Ty::LargeUtf8 | Ty::Binary | Ty::LargeBinary, V::Y(b)) if f.nullable && b.is_empty() => {
            *changed = true;
            V::Null
        }
        (Ty::List(c) | Ty::LargeList(c) | Ty::Fsl(c, _), V::L(items)) => V::L(items.iter().map(|x| legacy_norm(c, x, changed)).collect()),
        (Ty::Struct(ch), V::S(items)) => V::S(ch.iter().zip(items).map(|(c, x)| legacy_norm(c, x, changed)).collect()),
        (_, v) => v.clone(),
    }
}

struct CallData {
    batches: Vec<RecordBatch>,
    /// per top-level column
    model: Vec<Vec<V>>,
    /// cumulative row offsets of the batch boundaries strictly inside (0, rows)
    inner_cuts: BTreeSet<usize>,
    empty_batches: usize,
}

fn build_call(input: &Input, ci: usize, call: &Call, aschema: &Arc<ASchema>, rows: usize) -> Result<CallData, Failure> {
    let ver = input.version;
    let mut cuts: Vec<usize> = call.cuts.iter().map(|c| ((*c as usize) * (rows + 1)) >> 16).collect();
    cuts.push(0);
    cuts.push(rows);
    cuts.sort_unstable();
    // consecutive pairs are the batches (a repeated cut = an empty batch)
    let ranges: Vec<(usize, usize)> = cuts.windows(2).map(|w| (w[0], w[1])).collect();
    let ranges: Vec<(usize, usize)> = if ranges.is_empty() { vec![(0, rows)] } else { ranges };
    let pad = call.pad as usize;
    let b = Builder { ver };
    let mut model: Vec<Vec<V>> = vec![];
    let mut cols_per_batch: Vec<Vec<ArrayRef>> = vec![vec![]; ranges.len()];
    for (fi, f) in input.fields.iter().enumerate() {
        let salt = (fi as u64 + 1) * 1_000_003 + (ci as u64 + 1) * 7_919;
        let full = gen_col(f, pad + rows + pad % 3, ver, salt);
        if call.sliced {
            let arr = b.build(f, &full, salt);
            for (bi, (s, e)) in ranges.iter().enumerate() {
                cols_per_batch[bi].push(arr.slice(pad + s, e - s));
            }
        } else {
            for (bi, (s, e)) in ranges.iter().enumerate() {
                cols_per_batch[bi].push(b.build(f, &full[pad + s..pad + e], salt.wrapping_add(bi as u64)));
            }
        }
        model.push(full[pad..pad + rows].to_vec());
    }
    let mut batches = vec![];
    for (bi, cols) in cols_per_batch.into_iter().enumerate() {
        let (s, e) = ranges[bi];
        for (fi, c) in cols.iter().enumerate() {
            let got = to_vals(c.as_ref()).map_err(|e| Failure::new("harness-build", e))?;
            if got != model[fi][s..e] {
                return Err(Failure::new("harness-build", format!("built array of column {fi} batch {bi} of call {ci} differs from the model")));
            }
        }
        let rb = RecordBatch::try_new_with_options(aschema.clone(), cols, &RecordBatchOptions::new().with_row_count(Some(e - s))).map_err(|e| Failure::new("harness-build", format!("record batch: {e}")))?;
        batches.push(rb);
    }
    let inner_cuts: BTreeSet<usize> = ranges.iter().map(|r| r.1).filter(|c| *c > 0 && *c < rows).collect();
    let empty_batches = ranges.iter().filter(|r| r.0 == r.1).count();
    Ok(CallData { batches, model, inner_cuts, empty_batches })
}

fn short_err(e: &str) -> String {
    let e = e.split(", /").next().unwrap_or(e);
    truncate_str(e, 70)
}

fn is_internal(e: &str) -> bool {
    e.contains("panicked") || e.contains("Internal error") || e.contains("LanceError(Internal)")
}

fn cols_of(batches: &[RecordBatch], ncols: usize) -> Result<Vec<Vec<V>>, String> {
    let mut out: Vec<Vec<V>> = vec![vec![]; ncols];
    for b in batches {
        if b.num_columns() != ncols {
            return Err(format!("batch with {} columns, expected {ncols}: {:?}", b.num_columns(), b.schema()));
        }
        for (i, c) in b.columns().iter().enumerate() {
            let v = to_vals(c.as_ref())?;
            if v.len() != b.num_rows() {
                return Err(format!("column {i} decodes to {} values in a batch of {} rows", v.len(), b.num_rows()));
            }
            out[i].extend(v);
        }
    }
    Ok(out)
}

fn row_keys(cols: &[Vec<V>]) -> Vec<String> {
    let n = cols.first().map(|c| c.len()).unwrap_or(0);
    let mut keys: Vec<String> = (0..n).map(|i| cols.iter().map(|c| format!("{:?}", c[i])).collect::<Vec<_>>().join("|")).collect();
    keys.sort();
    keys
}

/// page-layout features of the data files that trigger reader defects already listed for C25
#[derive(Default, Debug)]
struct PageFlags {
    allnull_nested_list: bool,
    allvalid_list_over_defs: bool,
    fullzip_struct_above_list: bool,
    mixed_struct_validity: bool,
    mixed_fullzip_leaf: bool,
    fullzip_without_def_bits: bool,
}

async fn page_flags(ds: &Dataset) -> Result<PageFlags, String> {
    use lance_encoding::decoder::PageEncoding;
    use lance_encoding::format::pb21::page_layout::Layout;
    let mut fl = PageFlags::default();
    let os = Arc::new(ds.object_store().clone());
    let sched = ScanScheduler::new(os, SchedulerConfig::default_for_testing());
    let cache = LanceCache::with_capacity(8 * 1024 * 1024);
    let plugins = Arc::<DecoderPlugins>::default();
    for frag in ds.get_fragments() {
        for df in &frag.metadata().files {
            let path = ds.data_dir().child(df.path.as_str());
            let fs = sched.open_file(&path, &CachedFileSize::unknown()).await.map_err(|e| format!("open {path}: {e}"))?;
            let reader = FileReader::try_open(fs, None, plugins.clone(), &cache, FileReaderOptions::default()).await.map_err(|e| format!("try_open {path}: {e}"))?;
            let meta = reader.metadata();
            for ci in &meta.column_infos {
                // (layers, is_fullzip, num_items != num_visible_items)
                let mut pages: Vec<(Vec<i32>, bool, bool)> = vec![];
                for p in ci.page_infos.iter() {
                    let PageEncoding::Structural(l) = &p.encoding else { continue };
                    let layers: Vec<i32> = match &l.layout {
                        Some(Layout::MiniBlockLayout(m)) => {
                            pages.push((m.layers.clone(), false, false));
                            m.layers.clone()
                        }
                        Some(Layout::FullZipLayout(f)) => {
                            pages.push((f.layers.clone(), true, f.num_items != f.num_visible_items));
                            if f.bits_def == 0 && f.layers.iter().any(|x| *x >= 3) {
                                fl.fullzip_without_def_bits = true;
                            }
                            let first_list = f.layers.iter().position(|x| matches!(*x, 2 | 4 | 5 | 6));
                            if first_list.map(|i| f.layers[i..].iter().any(|x| *x == 3)).unwrap_or(false) {
                                fl.fullzip_struct_above_list = true;
                            }
                            f.layers.clone()
                        }
                        Some(Layout::AllNullLayout(a)) => {
                            pages.push((a.layers.clone(), false, false));
                            if a.layers.iter().filter(|x| matches!(**x, 2 | 4 | 5 | 6)).count() >= 2 {
                                fl.allnull_nested_list = true;
                            }
                            a.layers.clone()
                        }
                        _ => vec![],
                    };
                    if layers.iter().enumerate().any(|(i, x)| *x == 2 && layers[..i].iter().any(|y| *y >= 3)) {
                        fl.allvalid_list_over_defs = true;
                    }
                }
                for a in &pages {
                    for b in &pages {
                        if a.0.len() != b.0.len() {
                            continue;
                        }
                        let first_list = a.0.iter().position(|x| matches!(*x, 2 | 4 | 5 | 6));
                        if let Some(flist) = first_list {
                            if (flist + 1..a.0.len()).any(|j| a.0[j] == 1 && b.0[j] == 3) {
                                fl.mixed_struct_validity = true;
                            }
                        }
                        if a.1 && a.2 && (0..first_list.unwrap_or(0)).any(|j| a.0[j] == 1 && b.0[j] == 3) {
                            fl.mixed_fullzip_leaf = true;
                        }
                    }
                }
            }
        }
    }
    Ok(fl)
}

/// is one of the C25 reader findings (listed with C11 in their `also`) triggered by the files of `ds`?
async fn known_reader_finding(ds: &Dataset, ver: Ver, env: &Env, obs: &mut Obs) -> Result<Option<&'static str>, Failure> {
    if !matches!(ver, Ver::V2_1 | Ver::V2_2) {
        return Ok(None);
    }
    let fl = page_flags(ds).await.map_err(|m| Failure::new("file-metadata-error", m))?;
    let checks: [(bool, &'static str, &'static str); 6] = [
        (fl.allnull_nested_list, "C25-allnull-nested-list", "allnull-page-below-two-list-levels"),
        (fl.allvalid_list_over_defs, "C25-allvalid-list-null-first", "page-allvalid-list-over-def-layers"),
        (fl.fullzip_struct_above_list, "C25-fullzip-struct-above-list", "fullzip-page-nullable-struct-above-list"),
        (fl.mixed_struct_validity, "C25-mixed-pages-struct-validity", "pages-mix-allvalid-and-nullable-struct-above-list"),
        (fl.mixed_fullzip_leaf, "C25-mixed-pages-fullzip-leaf-validity", "pages-mix-fullzip-allvalid-leaf-with-invisible-items"),
        (fl.fullzip_without_def_bits, "C25-fullzip-allvalid-bitmap", "fullzip-page-nullable-without-def-bits"),
    ];
    for (hit, id, label) in checks {
        if hit {
            obs.label(label);
            if env.known(id) {
                return Ok(Some(id));
            }
        }
    }
    Ok(None)
}

async fn run(input0: &Input, obs: &mut Obs, env: &Env) -> CheckResult {
    let ver = input0.version;
    obs.label(format!("version:{}", ver.name()));
    // ---- legacy (0.1) format: listed known findings about its null handling
    let mut input_patched = input0.clone();
    let mut suppress = 0u8;
    let mut norm_empty = false;
    if ver == Ver::Legacy {
        let carries = |f: &Fld| f.nullable && f.gen.nulls > 0;
        if input0.fields.iter().any(|f| any_node(f, &|n| matches!(&n.ty, Ty::List(c) | Ty::LargeList(c) if !c.nullable))) && env.known("C11-legacy-list-nonnull-item-unreadable") {
            obs.known_hit("C11-legacy-list-nonnull-item-unreadable", "legacy: a list whose item field is declared non-nullable cannot be scanned; item fields are made nullable");
            input_patched.fields.iter_mut().for_each(make_list_items_nullable);
        }
        let fields = input_patched.fields.clone();
        if fields.iter().any(|f| any_node(f, &|n| carries(n) && matches!(n.ty, Ty::Fsb(_) | Ty::Fsl(..)))) && env.known("C11-legacy-fixed-size-nulls-lost") {
            obs.known_hit("C11-legacy-fixed-size-nulls-lost", "legacy: NULLs of FixedSizeBinary / FixedSizeList read back as values; such NULLs are not generated");
            suppress |= S_FIXED;
        }
        if fields.iter().any(|f| any_node(f, &|n| carries(n) && matches!(n.ty, Ty::List(_)))) && env.known("C11-legacy-list-null-reads-empty") {
            obs.known_hit("C11-legacy-list-null-reads-empty", "legacy: a NULL list reads back as an empty list; NULL lists are not generated");
            suppress |= S_LIST;
        }
        if fields.iter().any(|f| any_node(f, &|n| carries(n) && n.gen.garbage && matches!(n.ty, Ty::Utf8 | Ty::LargeUtf8 | Ty::Binary))) && env.known("C11-legacy-null-with-data-reads-value") {
            obs.known_hit("C11-legacy-null-with-data-reads-value", "legacy: a NULL string / binary slot whose offsets span bytes reads back as those bytes; such slots are not generated");
            suppress |= S_GARBAGE;
        }
        norm_empty = env.known("C11-legacy-empty-value-reads-null");
    }
    SUPPRESS.with(|s| s.set(suppress));
    let input = &input_patched;
    let aschema = Arc::new(ASchema::new(input.fields.iter().map(afield).collect::<Vec<_>>()));
    // known findings of the file format layer that any write of such a schema / value hits
    if input.fields.iter().any(has_tz_colon) && env.known("C25-tz-colon") {
        obs.known_hit("C25-tz-colon", "timestamp time zone with ':' (e.g. +02:00): logical type string cannot be parsed back");
        return Ok(());
    }
    if matches!(ver, Ver::V2_1 | Ver::V2_2) && env.known("C25-fullzip-nested-fsl") && input.fields.iter().any(|f| nested_fsl_bytes(f) >= 256) {
        obs.known_hit("C25-fullzip-nested-fsl", "fixed_size_list<fixed_size_list<T>> of >= 256 bytes is encoded full-zip: assertion in serialize_full_zip_fixed");
        return Ok(());
    }
    let store = VStore::new();
    let session = new_session(&store);
    let handler = handler_of(input.handler);
    let uri = store::uri("t");
    let mut ds: Option<Dataset> = None;
    let mut model: Vec<Vec<V>> = vec![vec![]; input.fields.len()];
    let mut kinds: Vec<&'static str> = vec![];
    let mut unaligned_cut = false;
    let mut max_frags = 0usize;
    let budget = env.tier.pick(300usize, 3000);
    let mut written = 0usize;
    for (ci, call) in input.calls.iter().enumerate() {
        let rows = (call.rows as usize).min(budget.saturating_sub(written).max(1));
        written += rows;
        let data = build_call(input, ci, call, &aschema, rows)?;
        if data.empty_batches > 0 {
            obs.label("empty-batch");
        }
        if call.sliced && call.pad > 0 {
            obs.label("sliced-arrays");
        }
        // known finding (2.1/2.2): a fixed size list whose items are all null in a batch / file
        if matches!(ver, Ver::V2_1 | Ver::V2_2) && env.known("C25-fsl-inner-allnull") {
            let hit = data.batches.iter().any(|b| input.fields.iter().zip(b.columns()).any(|(f, a)| fsl_inner_allnull(f, a)))
                || input.fields.iter().enumerate().any(|(i, f)| {
                    // every contiguous row range may become a page: check the ranges the batch cuts and the file limit produce
                    let mut bounds: BTreeSet<usize> = data.inner_cuts.clone();
                    let m = call.max_rows_per_file.max(1) as usize;
                    bounds.extend((1..=rows / m).map(|k| k * m));
                    bounds.insert(0);
                    bounds.insert(rows);
                    let bs: Vec<usize> = bounds.into_iter().filter(|b| *b <= rows).collect();
                    bs.iter().enumerate().any(|(x, s)| bs[x + 1..].iter().any(|e| {
                        let vals: Vec<&V> = data.model[i][*s..*e].iter().collect();
                        fsl_items_allnull_model(f, &vals)
                    }))
                });
            if hit {
                obs.known_hit("C25-fsl-inner-allnull", "fixed size list whose items are all null within a page: zero-width full-zip page / unreachable!() in the value encoder");
                return Ok(());
            }
        }
        let first = ds.is_none();
        let mode = if first { WriteMode::Create } else if call.overwrite { WriteMode::Overwrite } else { WriteMode::Append };
        let kind = match mode {
            WriteMode::Create => "create",
            WriteMode::Overwrite => "overwrite",
            WriteMode::Append => "append",
        };
        let max_rows_per_file = call.max_rows_per_file.clamp(1, 64) as usize;
        let max_rows_per_group = call.max_rows_per_group.clamp(1, 32) as usize;
        let mut params = WriteParams {
            mode,
            max_rows_per_file,
            max_rows_per_group,
            commit_handler: Some(handler.clone()),
            data_storage_version: Some(ver.lance()),
            enable_stable_row_ids: input.stable_row_ids,
            enable_v2_manifest_paths: input.v2_manifest,
            session: Some(session.clone()),
            auto_cleanup: None,
            ..Default::default()
        };
        if let Some(b) = call.max_bytes_per_file {
            params.max_bytes_per_file = b.max(1) as usize;
            obs.label("max-bytes-per-file-set");
        }
        let before_ids: BTreeSet<u64> = match (&ds, mode) {
            (Some(d), WriteMode::Append) => d.get_fragments().iter().map(|f| f.metadata().id).collect(),
            _ => BTreeSet::new(),
        };
        // appended batches may present the columns in another order than the table (columns are matched by name)
        let (feed, feed_schema) = if matches!(mode, WriteMode::Append) && call.pad % 2 == 1 && aschema.fields().len() >= 2 {
            obs.label("append-with-permuted-columns");
            let idx: Vec<usize> = (0..aschema.fields().len()).rev().collect();
            let permuted: Vec<RecordBatch> = data.batches.iter().map(|b| b.project(&idx).expect("projection of all columns")).collect();
            (permuted, Arc::new(aschema.project(&idx).expect("projection of all fields")))
        } else {
            (data.batches.clone(), aschema.clone())
        };
        let reader = RecordBatchIterator::new(feed.into_iter().map(Ok), feed_schema);
        let res: Result<Dataset, lance::Error> = match (&mut ds, call.via_uri || first) {
            (_, true) => Dataset::write(reader, &uri, Some(params)).await,
            (Some(d), false) => match mode {
                WriteMode::Append => match d.append(reader, Some(params)).await {
                    Ok(()) => Ok(d.clone()),
                    Err(e) => Err(e),
                },
                _ => InsertBuilder::new(Arc::new(d.clone())).with_params(&params).execute_stream(reader).await,
            },
            (None, false) => unreachable!(),
        };
        let what = format!("call {ci} ({kind}, {rows} rows in {} batches, max_rows_per_file {max_rows_per_file}, max_rows_per_group {max_rows_per_group}, version {})", data.batches.len(), ver.name());
        let mut d = match res {
            Ok(d) => d,
            Err(e) => {
                let m = e.to_string();
                if is_internal(&m) {
                    fail!("write-internal-error", "{what}: {m}");
                }
                obs.rejected += 1;
                obs.label(format!("reject-{kind}:{}", short_err(&m)));
                if first {
                    return Ok(());
                }
                // the table must be unchanged
                let d = ds.as_mut().unwrap();
                d.checkout_latest().await.map_err(|e| Failure::new("checkout-latest-error", e.to_string()))?;
                let n = d.count_rows(None).await.map_err(|e| Failure::new("count-rows-error", e.to_string()))?;
                ensure!(n == model[0].len(), "rejected-write-changed-table", "{what} was rejected ({m}) but count_rows moved from {} to {n}", model[0].len());
                continue;
            }
        };
        d.checkout_latest().await.map_err(|e| Failure::new("checkout-latest-error", e.to_string()))?;
        kinds.push(kind);
        if !matches!(mode, WriteMode::Append) {
            model = vec![vec![]; input.fields.len()];
        }
        for (i, m) in data.model.iter().enumerate() {
            if norm_empty {
                let mut changed = false;
                model[i].extend(m.iter().map(|v| legacy_norm(&input.fields[i], v, &mut changed)));
                if changed {
                    obs.known_hit("C11-legacy-empty-value-reads-null", "legacy: an empty string / binary value of a nullable field reads back as NULL; the model is normalised");
                }
            } else {
                model[i].extend(m.iter().cloned());
            }
        }
        let total = model[0].len();
        obs.inner += 1;

        // ---- fragments of this call
        let mut new_frags: Vec<(u64, usize)> = vec![];
        for f in d.get_fragments() {
            let id = f.metadata().id;
            if before_ids.contains(&id) {
                continue;
            }
            let n = match f.metadata().physical_rows {
                Some(n) => n,
                None => f.count_rows(None).await.map_err(|e| Failure::new("fragment-count-error", format!("{what}: {e}")))?,
            };
            new_frags.push((id, n));
        }
        new_frags.sort_unstable();
        let frag_sum: usize = new_frags.iter().map(|f| f.1).sum();
        ensure!(frag_sum == rows, "fragment-rows-sum", "{what}: new fragments {new_frags:?} hold {frag_sum} rows");
        if let Some((id, n)) = new_frags.iter().find(|(_, n)| *n > max_rows_per_file) {
            // legacy: the row limit is checked after each group of max_rows_per_group rows
            let tolerated = ver == Ver::Legacy && *n < max_rows_per_file + max_rows_per_group.min(max_rows_per_file);
            // known finding: once max_bytes_per_file closed a file early, break_stream's row boundaries no longer
            // coincide with the files and later files take up to 2 * max_rows_per_file - 1 rows
            let after_bytes_split = ver != Ver::Legacy && call.max_bytes_per_file.is_some() && *n < 2 * max_rows_per_file && new_frags.iter().any(|(i2, n2)| i2 < id && *n2 < max_rows_per_file);
            if tolerated {
                obs.label("legacy-file-over-max-rows-by-less-than-a-group");
            } else if after_bytes_split && env.known("C11-max-rows-exceeded-after-bytes-split") {
                obs.known_hit("C11-max-rows-exceeded-after-bytes-split", format!("{what}: fragment {id} has {n} rows; fragments {new_frags:?}"));
            } else {
                fail!("file-over-max-rows", "{what}: fragment {id} has {n} rows; fragments {new_frags:?}");
            }
        }
        if new_frags.iter().any(|(_, n)| *n == 0) {
            fail!("empty-fragment", "{what}: a fragment without rows was committed: {new_frags:?}");
        }
        let mut file_bounds: BTreeSet<usize> = BTreeSet::new();
        let mut acc = 0;
        for (_, n) in &new_frags {
            acc += n;
            file_bounds.insert(acc);
        }
        if data.inner_cuts.iter().any(|c| !file_bounds.contains(c)) && new_frags.len() >= 2 {
            unaligned_cut = true;
            obs.label("batch-boundary-inside-a-file");
        }
        if file_bounds.iter().any(|b| *b < rows && !data.inner_cuts.contains(b)) {
            obs.label("file-boundary-inside-a-batch");
        }
        if new_frags.iter().take(new_frags.len().saturating_sub(1)).any(|(_, n)| *n < max_rows_per_file) {
            obs.label("file-closed-before-max-rows");
        }
        let nfrag = d.get_fragments().len();
        max_frags = max_frags.max(nfrag);
        obs.label(format!("fragments:{}", match nfrag { 0 => "0", 1 => "1", 2..=4 => "2-4", _ => "5+" }));

        // ---- schema
        let stored: ASchema = d.schema().into();
        if stored.fields().len() != aschema.fields().len() || !stored.fields().iter().zip(aschema.fields().iter()).all(|(a, b)| same_field(a, b)) {
            fail!("schema-mismatch", "{what}: dataset schema {:?} differs from the written schema {:?}", stored.fields(), aschema.fields());
        }

        // ---- count
        let n = d.count_rows(None).await.map_err(|e| Failure::new("count-rows-error", format!("{what}: {e}")))?;
        ensure!(n == total, "count-rows-mismatch", "{what}: count_rows = {n}, model has {total} rows");

        // ---- known reader findings are decided on the written files
        if let Some(id) = known_reader_finding(&d, ver, env, obs).await? {
            obs.known_hit(id, format!("{what}: data file with the page layout of {id}"));
            return Ok(());
        }

        // ---- ordered scan
        let mut sc = d.scan();
        sc.scan_in_order(true);
        let batches: Vec<RecordBatch> = match sc.try_into_stream().await {
            Ok(s) => s.try_collect().await.map_err(|e| Failure::new("scan-error", format!("{what}: ordered scan: {e}")))?,
            Err(e) => fail!("scan-error", "{what}: ordered scan: {e}"),
        };
        let got = cols_of(&batches, input.fields.len()).map_err(|m| Failure::new("scan-decode", format!("{what}: {m}")))?;
        for (i, f) in input.fields.iter().enumerate() {
            if got[i].len() != total {
                fail!("ordered-scan-row-count", "{what}: ordered scan returns {} rows of column {}, model has {total}", got[i].len(), f.name);
            }
            for r in 0..total {
                if let Some(dif) = first_diff(&format!("{}[row {r}]", f.name), &model[i][r], &got[i][r]) {
                    // the same multiset in another order is an ordering failure, anything else a value failure
                    let kind = if row_keys(&got) == row_keys(&model) { "ordered-scan-order" } else { "ordered-scan-value" };
                    fail!(kind, "{what}: type {}: {dif}", skeleton(&f.ty));
                }
            }
        }
        // ---- unordered scan with a small batch size
        let mut sc = d.scan();
        sc.scan_in_order(false);
        sc.batch_size(input.batch_size.max(1) as usize);
        let batches: Vec<RecordBatch> = match sc.try_into_stream().await {
            Ok(s) => s.try_collect().await.map_err(|e| Failure::new("scan-error", format!("{what}: unordered scan: {e}")))?,
            Err(e) => fail!("scan-error", "{what}: unordered scan: {e}"),
        };
        let got_u = cols_of(&batches, input.fields.len()).map_err(|m| Failure::new("scan-decode", format!("{what}: {m}")))?;
        if row_keys(&got_u) != row_keys(&model) {
            fail!("unordered-scan-multiset", "{what}: unordered scan (batch size {}) returns {} rows, a different multiset than the model ({total} rows)", input.batch_size, got_u.first().map(|c| c.len()).unwrap_or(0));
        }
        ds = Some(d);
    }
    // ---- a cold handle sees the same table
    if let Some(d) = &ds {
        let fresh = DatasetBuilder::from_uri(&uri).with_session(new_session(&store)).with_commit_handler(handler.clone()).load().await.map_err(|e| Failure::new("reopen-error", e.to_string()))?;
        ensure!(fresh.version().version == d.version().version, "reopen-version", "cold handle opens version {}, warm handle is at {}", fresh.version().version, d.version().version);
        let mut sc = fresh.scan();
        sc.scan_in_order(true);
        let batches: Vec<RecordBatch> = sc.try_into_stream().await.map_err(|e| Failure::new("scan-error", format!("cold scan: {e}")))?.try_collect().await.map_err(|e| Failure::new("scan-error", format!("cold scan: {e}")))?;
        let got = cols_of(&batches, input.fields.len()).map_err(|m| Failure::new("scan-decode", m))?;
        if got != model {
            fail!("cold-scan-mismatch", "a cold handle reads different rows than the model ({} vs {} rows)", got[0].len(), model[0].len());
        }
    }
    let nested_nullable = input.fields.iter().any(|f| nullable_nested(f, ver));
    if nested_nullable {
        obs.label("nullable-nested-column");
    }
    for f in &input.fields {
        obs.label(format!("top:{}", match &f.ty { Ty::List(_) | Ty::LargeList(_) => "list", Ty::Fsl(..) => "fsl", Ty::Struct(_) => "struct", Ty::Dict(..) => "dict", _ => "leaf" }));
    }
    if max_frags >= 2 && nested_nullable && unaligned_cut {
        obs.nontrivial(format!("{}|{}|{}", ver.name(), input.fields.iter().map(|f| skeleton(&f.ty)).collect::<Vec<_>>().join(";"), kinds.join(",")));
    }
    Ok(())
}

fn call_s() -> impl Strategy<Value = Call> {
    (
        prop::bool::weighted(0.2),
        prop_oneof![1 => Just(0u16), 6 => 1u16..40, 3 => 40u16..160],
        prop::collection::vec(any::<u16>(), 0..6),
        any::<bool>(),
        0u8..5,
        prop_oneof![3 => 1u8..8, 3 => 8u8..33, 1 => 33u8..65],
        1u8..33,
        prop_oneof![3 => Just(None), 1 => Just(Some(1024u32)), 1 => Just(Some(16384u32))],
        any::<bool>(),
    )
        .prop_map(|(overwrite, rows, cuts, sliced, pad, max_rows_per_file, max_rows_per_group, max_bytes_per_file, via_uri)| Call { overwrite, rows, cuts, sliced, pad, max_rows_per_file, max_rows_per_group, max_bytes_per_file, via_uri })
}

fn input_s(tier: Tier) -> BoxedStrategy<Input> {
    (
        prop_oneof![1 => Just(Ver::Legacy), 2 => Just(Ver::V2_0), 3 => Just(Ver::V2_1), 2 => Just(Ver::V2_2)],
        prop::collection::vec(fld_s(3, tier), 1..4),
        any::<bool>(),
        any::<bool>(),
        0u8..2,
        prop::collection::vec(call_s(), 1..5),
        1u8..40,
    )
        .prop_map(|(version, mut fields, stable_row_ids, v2_manifest, handler, calls, batch_size)| {
            for (i, f) in fields.iter_mut().enumerate() {
                rename(f, format!("c{i}"));
                sanitize(f, version);
            }
            Input { version, fields, stable_row_ids, v2_manifest, handler, calls, batch_size }
        })
        .boxed()
}

impl Property for C11 {
    type Input = Input;
    fn id(&self) -> &'static str {
        "C11"
    }
    fn rule(&self) -> String {
        "A case = storage version (0.1 legacy / 2.0 / 2.1 / 2.2) + 1-3 top-level columns from a recursive schema generator (depth <= 3: Boolean, all integer widths, Float16/32/64 incl. NaN payloads, -0.0, inf, Date32/64, Time32/64, Timestamp with/without zone, Duration, Decimal128/256, Utf8/LargeUtf8/Binary/LargeBinary/views, FixedSizeBinary, Dictionary(Int8/16/32/UInt8 -> Utf8/LargeUtf8/Binary/Int32/Float64), List/LargeList, FixedSizeList (also nested), Struct; nullable at every level; per-node value profiles with null rate 0-100 %, bounded cardinality, runs, lengths, garbage behind nulls) expanded deterministically into a model of explicit value trees + 1-4 write calls (the first creates, later ones append or overwrite, through the handle or through the table URI) each feeding 1-7 batches cut at generated boundaries (empty batches, arrays sliced out of a padded backing array) with max_rows_per_file 1-64, max_rows_per_group 1-32 and max_bytes_per_file default / 1 KiB / 16 KiB, on a VStore with explicit commit handler and session. For 0.1 and 2.0 nulls are generated only where Dataset::lance_supports_nulls says they are stored; for 0.1 views / Decimal256 are mapped to their plain counterparts. After every committed call: the new fragments hold exactly the rows fed, none is empty, none exceeds max_rows_per_file (legacy: by less than one group, the documented check granularity); the dataset schema equals the written one; count_rows(None) equals the model length; scan_in_order(true) returns the model rows in insertion order as value trees (bit-exact leaves, validity at every level, list lengths, nothing compared below a null); an unordered scan with a generated batch size returns the same multiset; at the end a cold handle reads the same. A clean Err from a write is a rejected case (table must be unchanged). Non-trivial = >= 2 fragments, a nested column with a nullable node that really carries nulls, and a batch boundary that falls inside a file; distinct by (version, type skeletons, call kinds).".into()
    }
    fn assumptions(&self) -> Vec<String> {
        vec![
            "overwrites keep the schema (schema-changing overwrites belong to C15)".into(),
            "non-nullable fields never contain nulls; struct nulls only for versions >= 2.1, legacy nulls only for Utf8/LargeUtf8/Binary/List/FixedSizeBinary/FixedSizeList (Dataset::lance_supports_nulls)".into(),
            "reader defects of the 2.1/2.2 page layouts already listed for C25 are recognised on the written files' page metadata and reported as known hits (C25 ids with C11 in `also`)".into(),
        ]
    }
    fn cases(&self, tier: Tier) -> u32 {
        tier.pick(1200, 12000)
    }
    fn max_shrink_iters(&self) -> u32 {
        300
    }
    fn strategy(&self, tier: Tier) -> BoxedStrategy<Input> {
        input_s(tier)
    }
    fn check(&self, input: &Input, obs: &mut Obs, env: &Env) -> CheckResult {
        SUPPRESS.with(|s| s.set(0));
        let r = env.block_on(run(input, obs, env));
        SUPPRESS.with(|s| s.set(0));
        r
    }
}
