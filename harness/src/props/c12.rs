//! C12 — Delete, update and merge_insert follow SQL semantics on the model table.

use super::hist::*;
use crate::engine::*;
use crate::model::*;
use crate::store::VStore;
use crate::world::*;
use proptest::prelude::*;
use serde::{Deserialize, Serialize};

pub struct C12;

#[derive(Clone, Debug, PartialEq, Eq, Serialize, Deserialize)]
pub struct Input {
    pub hist: HistInput,
    pub filters: Vec<RawPred>,
}

fn op_mix() -> BoxedStrategy<Op> {
    prop_oneof![
        3 => op_append(),
        4 => op_delete(),
        4 => op_update(),
        6 => op_merge(),
        1 => op_compact(),
        2 => op_create_index(),
    ]
    .boxed()
}

pub async fn run(input: &Input, obs: &mut Obs, env: &Env) -> CheckResult {
    let store = VStore::new();
    let h = &input.hist;
    let mut w = match World::create(store, "t", &h.cfg, &h.initial, h.init_file_rows as usize).await {
        Ok(w) => w,
        Err(_) => {
            obs.rejected += 1;
            return Ok(());
        }
    };
    w.merge_null_keys = true;
    if !env.strict {
        w.known = env.active_known.clone();
    }
    let mut nt: Vec<&'static str> = vec![];
    for (i, step) in h.steps.iter().enumerate() {
        let frags_before = w.ds.count_fragments();
        let out = w.apply(step, obs).await.map_err(|f| Failure::new(f.kind, format!("step {i} ({}): {}", step.op.kind(), f.msg)))?;
        let what = format!("after step {i} ({})", step.op.kind());
        let st = w.state().clone();
        match out {
            StepOutcome::Committed { .. } => {
                verify_state(&w.ds, &st, &what).await?;
            }
            StepOutcome::Rejected(_) => {
                // a rejected op has no effect
                verify_state(&w.ds, &st, &format!("{what} [rejected]")).await.map_err(|f| Failure::new(format!("rejected-op-changed-table:{}", f.kind), f.msg))?;
                continue;
            }
            StepOutcome::NoOp => continue,
        }
        if !matches!(step.op, Op::Delete { .. } | Op::Update { .. } | Op::Merge(_)) {
            continue;
        }
        obs.inner += 1;
        // count_rows(filter) agrees with the model
        let mut saw = (false, false, false);
        for f in &input.filters {
            let p = resolve_pred(f, &st.schema);
            let want = st.rows.iter().filter(|r| eval_row(&p, &st.schema, r) == Some(true)).count();
            for r in &st.rows {
                match eval_row(&p, &st.schema, r) {
                    Some(true) => saw.0 = true,
                    Some(false) => saw.1 = true,
                    None => saw.2 = true,
                }
            }
            // an indexed column inside a negated predicate is C19's subject
            let mut cols = vec![];
            p.columns(&mut cols);
            if p.has_negation() && cols.iter().any(|c| st.indices.values().any(|ic| ic == c)) {
                obs.label("filter-skipped:negation-on-indexed-column");
                continue;
            }
            if tautology_risk(&p, &st.schema) && env.known("C16-simplifier-null-tautology") {
                obs.known_hit("C16-simplifier-null-tautology", format!("filter {:?} skipped", p.sql()));
                continue;
            }
            match w.ds.count_rows(Some(p.sql())).await {
                Ok(got) => {
                    if got != want {
                        return Err(Failure::new("count-rows-filter", format!("{what}: count_rows({:?}) = {got}, model {want}", p.sql())));
                    }
                }
                Err(_) => obs.rejected += 1,
            }
        }
        // count_deleted_rows agrees with the fragments
        let deleted = w.ds.count_deleted_rows().await.map_err(|e| Failure::new("count-deleted-error", format!("{what}: {e}")))?;
        let mut phys = 0usize;
        for f in w.ds.get_fragments() {
            phys += f.physical_rows().await.map_err(|e| Failure::new("physical-rows-error", format!("{e}")))?;
        }
        if phys - deleted != st.rows.len() {
            return Err(Failure::new("count-deleted-rows", format!("{what}: physical {phys} - count_deleted_rows {deleted} != {} live rows", st.rows.len())));
        }
        if saw.0 && saw.2 {
            nt.push("pred-null-and-true");
        }
        if frags_before >= 2 {
            nt.push("multi-fragment");
        }
        if let Op::Merge(_) = step.op {
            nt.push("merge");
        }
    }
    if nt.contains(&"multi-fragment") && (nt.contains(&"merge") || nt.contains(&"pred-null-and-true")) {
        nt.sort();
        nt.dedup();
        obs.nontrivial(format!("{}|{}", op_kinds(&h.steps), nt.join("+")));
    }
    Ok(())
}

impl Property for C12 {
    type Input = Input;
    fn id(&self) -> &'static str {
        "C12"
    }
    fn rule(&self) -> String {
        "A generated table (1-4 typed nullable/non-nullable columns incl. ints of all widths, floats, strings, bools, dates/timestamps; several fragments) receives 1-8 ops from {append, delete(pred), update(set.., where pred), merge_insert(on key | uid; UpdateAll/DoNothing/Fail x InsertAll/DoNothing x Keep/Delete/DeleteIf; full or sub-schema source; duplicate and NULL keys; key indexed or not; use_index on/off), compaction, create scalar index}. Predicates and SET expressions come from a typed grammar rendered to SQL and evaluated by an independent three-valued evaluator. After every committed delete/update/merge: full scan == model (multiset), rows_updated / MergeStats == model counts, count_rows(filter) == model for generated filters, count_deleted_rows consistent with fragments; a rejected op must leave the table unchanged; an ambiguous merge (two source rows updating one target row) and WhenMatched::Fail with a match must fail. Non-trivial = >=2 fragments and (a merge, or a predicate evaluating to NULL for one row and TRUE for another); distinct by op-kind sequence + classes.".into()
    }
    fn assumptions(&self) -> Vec<String> {
        vec![
            "scalar indices are only created on non-nullable columns here (NULL handling of indexed predicates is C19); float columns are not used as merge keys".into(),
            "arithmetic in SET never overflows (generator guard); literals are exactly representable in the column type".into(),
        ]
    }
    fn cases(&self, tier: Tier) -> u32 {
        tier.pick(1500, 30000)
    }
    fn max_shrink_iters(&self) -> u32 {
        200
    }
    fn strategy(&self, _tier: Tier) -> BoxedStrategy<Input> {
        (hist_strategy(SCALAR_TYPES, V2_STORAGES, op_mix(), 8, 0), prop::collection::vec(raw_pred(), 1..3)).prop_map(|(hist, filters)| Input { hist, filters }).boxed()
    }
    fn check(&self, input: &Input, obs: &mut Obs, env: &Env) -> CheckResult {
        env.block_on(run(input, obs, env))
    }
}
