//! C13 — Compaction and other rewrites never change table contents.

use super::hist::*;
use crate::engine::*;
use crate::store::VStore;
use crate::world::*;
use proptest::prelude::*;
use serde::{Deserialize, Serialize};
use std::collections::BTreeMap;

pub struct C13;

#[derive(Clone, Debug, PartialEq, Eq, Serialize, Deserialize)]
pub struct Input {
    pub hist: HistInput,
    pub probes: Vec<u16>,
}

fn op_mix() -> BoxedStrategy<Op> {
    prop_oneof![
        5 => op_append(),
        4 => op_delete(),
        3 => op_update(),
        2 => op_merge(),
        5 => op_compact(),
        4 => op_compact_tasks(),
        3 => op_create_index(),
        1 => (0u8..3).prop_map(|mode| Op::OptimizeIndices { mode }),
    ]
    .boxed()
}

pub async fn run(input: &Input, obs: &mut Obs, _env: &Env) -> CheckResult {
    let store = VStore::new();
    let h = &input.hist;
    let mut w = match World::create(store, "t", &h.cfg, &h.initial, h.init_file_rows as usize).await {
        Ok(w) => w,
        Err(_) => {
            obs.rejected += 1;
            return Ok(());
        }
    };
    w.merge_on_uid_only = true;
    let stable = h.cfg.stable_row_ids;
    let mut nontrivial: Vec<String> = vec![];
    for (i, step) in h.steps.iter().enumerate() {
        let is_compaction = matches!(step.op, Op::Compact { .. } | Op::CompactTasks { .. });
        // observations right before a compaction
        let before_meta: Option<BTreeMap<i64, (u64, Option<u64>, Option<u64>)>> = if is_compaction && stable && w.ds.manifest().uses_stable_row_ids() {
            Some(scan_meta(&w.ds).await.map_err(|m| Failure::new("meta-scan-error", m))?.into_iter().map(|(u, r, c, up)| (u, (r, c, up))).collect())
        } else {
            None
        };
        let frags_before: Vec<(u64, usize, bool)> = w.ds.manifest().fragments.iter().map(|f| (f.id, f.physical_rows.unwrap_or(0), f.deletion_file.is_some())).collect();
        let had_index = !w.state().indices.is_empty();
        let out = w.apply(step, obs).await.map_err(|f| Failure::new(f.kind, format!("step {i} ({}): {}", step.op.kind(), f.msg)))?;
        let what = format!("after step {i} ({})", step.op.kind());
        let st = w.state().clone();
        match out {
            StepOutcome::Committed { .. } => {}
            StepOutcome::Rejected(_) => {
                // e.g. a failed commit_compaction: contents must be unchanged all the same
                verify_state(&w.ds, &st, &format!("{what} [rejected]")).await?;
                continue;
            }
            StepOutcome::NoOp => continue,
        }
        verify_state(&w.ds, &st, &what).await?;
        check_indexed_queries(&w.ds, &st, &input.probes, false, obs, &what).await?;
        if is_compaction {
            obs.inner += 1;
            let frags_after: Vec<u64> = w.ds.manifest().fragments.iter().map(|f| f.id).collect();
            let rewritten: Vec<&(u64, usize, bool)> = frags_before.iter().filter(|f| !frags_after.contains(&f.0)).collect();
            if let Some(before) = before_meta {
                let after: BTreeMap<i64, (u64, Option<u64>, Option<u64>)> = scan_meta(&w.ds).await.map_err(|m| Failure::new("meta-scan-error", m))?.into_iter().map(|(u, r, c, up)| (u, (r, c, up))).collect();
                if before != after {
                    let diff: Vec<String> = before.iter().filter(|(u, m)| after.get(*u) != Some(*m)).take(5).map(|(u, m)| format!("uid {u}: {:?} -> {:?}", m, after.get(u))).collect();
                    return Err(Failure::new("compaction-changed-row-meta", format!("{what}: (row id, created_at, updated_at) changed: {}", diff.join("; "))));
                }
            }
            if rewritten.len() >= 2 && rewritten.iter().any(|f| f.2) && had_index {
                nontrivial.push(format!("{}:{}", step.op.kind(), rewritten.len()));
            }
            if rewritten.len() >= 2 {
                obs.label("rewrote>=2-fragments");
            }
        }
    }
    if !nontrivial.is_empty() {
        obs.nontrivial(format!("{}|{}", op_kinds(&h.steps), nontrivial.join(",")));
    }
    Ok(())
}

impl Property for C13 {
    type Input = Input;
    fn id(&self) -> &'static str {
        "C13"
    }
    fn rule(&self) -> String {
        "Histories of 1-11 ops (append with small files, delete, update, merge_insert on uid, BTree/Bitmap index create, optimize_indices, compact_files with generated target_rows_per_fragment / materialize_deletions(+threshold) / max_rows_per_group / defer_index_remap, and distributed compaction: plan_compaction -> execute a generated subset of the tasks in generated order -> commit_compaction in one or two commits), stable row ids on/off. After every commit: scan == model (multiset; rows unchanged by compaction), indexed-column query panels return the same uid set with and without the index and in the model; across each compaction with stable row ids the map uid -> (row id, created_at, updated_at) is unchanged. Non-trivial = a compaction that rewrote >=2 fragments of which >=1 had deletions while an index existed; distinct by op-kind sequence + rewritten fragment counts.".into()
    }
    fn cases(&self, tier: Tier) -> u32 {
        tier.pick(1000, 20000)
    }
    fn max_shrink_iters(&self) -> u32 {
        200
    }
    fn strategy(&self, _tier: Tier) -> BoxedStrategy<Input> {
        (
            hist_strategy(COMMON_TYPES, V2_STORAGES, op_mix(), 9, 0),
            prop::collection::vec(0u16..40, 3..6),
            // a guaranteed core: small fragments, an index, a partial delete, then a compaction
            (op_append(), op_create_index(), op_delete(), prop_oneof![op_compact(), op_compact_tasks()], any::<bool>()),
        )
            .prop_map(|(mut hist, probes, (app, idx, del, comp, core_first))| {
                if hist.init_file_rows > 6 {
                    hist.init_file_rows = 3;
                }
                let app = match app {
                    Op::Append { rows, splits, .. } => Op::Append { rows, splits, max_rows_per_file: 3 },
                    o => o,
                };
                let core: Vec<Step> = [app, idx, del, comp].into_iter().map(|op| Step { op, stale: None }).collect();
                if core_first {
                    let mut steps = core;
                    steps.extend(hist.steps.drain(..));
                    hist.steps = steps;
                } else {
                    hist.steps.extend(core);
                }
                Input { hist, probes }
            })
            .boxed()
    }
    fn check(&self, input: &Input, obs: &mut Obs, env: &Env) -> CheckResult {
        env.block_on(run(input, obs, env))
    }
}
