//! C14 — Schema evolution preserves untouched data.

use super::hist::*;
use crate::engine::*;
use crate::store::VStore;
use crate::world::*;
use lance::Dataset;
use proptest::prelude::*;
use std::collections::HashSet;

pub struct C14;

fn op_mix() -> BoxedStrategy<Op> {
    prop_oneof![
        3 => op_append(),
        2 => op_delete(),
        1 => op_update(),
        1 => op_compact(),
        12 => op_schema(),
        2 => op_join_column(),
        1 => op_create_index(),
    ]
    .boxed()
}

fn field_ids_unique(ds: &Dataset) -> CheckResult {
    let mut ids = HashSet::new();
    for f in ds.schema().fields_pre_order() {
        if !ids.insert(f.id) {
            return Err(Failure::new("duplicate-field-id", format!("field id {} appears twice in {:?}", f.id, ds.schema())));
        }
    }
    Ok(())
}

pub async fn run(input: &HistInput, obs: &mut Obs, _env: &Env) -> CheckResult {
    let store = VStore::new();
    let mut w = match World::create(store, "t", &input.cfg, &input.initial, input.init_file_rows as usize).await {
        Ok(w) => w,
        Err(_) => {
            obs.rejected += 1;
            return Ok(());
        }
    };
    let mut nt: Vec<&'static str> = vec![];
    let mut had_delete = false;
    for (i, step) in input.steps.iter().enumerate() {
        let out = w.apply(step, obs).await.map_err(|f| Failure::new(f.kind, format!("step {i} ({}): {}", step.op.kind(), f.msg)))?;
        let what = format!("after step {i} ({})", step.op.kind());
        let st = w.state().clone();
        // the model tracks every column by identity: untouched columns keep their values, added columns hold the
        // requested values (NULL where the join finds no match), a re-added name shows only new values
        verify_state(&w.ds, &st, &what).await?;
        field_ids_unique(&w.ds)?;
        if let StepOutcome::Committed { .. } = out {
            obs.inner += 1;
            match step.op {
                Op::Delete { .. } => had_delete = true,
                Op::AlterColumn { action, .. } if action % 4 == 3 && had_delete => nt.push("cast-after-delete"),
                Op::AlterColumn { .. } if had_delete => nt.push("alter-after-delete"),
                _ => {}
            }
        }
    }
    if obs.labels.iter().any(|l| l == "re-added-dropped-name") {
        nt.push("drop-and-re-add");
    }
    if !nt.is_empty() {
        nt.sort();
        nt.dedup();
        obs.nontrivial(format!("{}|{}", op_kinds(&input.steps), nt.join("+")));
    }
    Ok(())
}

impl Property for C14 {
    type Input = HistInput;
    fn id(&self) -> &'static str {
        "C14"
    }
    fn rule(&self) -> String {
        "Histories of 1-11 ops dominated by schema evolution: add_columns (all-null of a generated type; SQL expression copying an existing column; SQL arithmetic over uid), Dataset::merge left join on uid with a generated right side covering a subset of rows plus an unmatched key, alter_columns (rename, make nullable, make non-nullable, cast within int/float/string families incl. lossy down-casts that must be rejected), drop_columns, with names of dropped columns re-used by later adds; interleaved with append, delete, update, compaction, index creation. The model tracks columns by identity; after every step the full scan must equal the model (every untouched column unchanged, added columns hold exactly the requested values / NULL for unmatched join rows, re-added names show only new values, appends after evolution fill what they supplied) and all field ids are unique. Non-trivial = a drop followed by a re-add of the name, or an alter/cast after a delete; distinct by op-kind sequence.".into()
    }
    fn assumptions(&self) -> Vec<String> {
        vec!["flat schemas (nested fields are covered structurally by C43); Reader/Stream/BatchUDF transforms are not generated".into()]
    }
    fn cases(&self, tier: Tier) -> u32 {
        tier.pick(1200, 24000)
    }
    fn max_shrink_iters(&self) -> u32 {
        200
    }
    fn strategy(&self, _tier: Tier) -> BoxedStrategy<HistInput> {
        hist_strategy(COMMON_TYPES, V2_STORAGES, op_mix(), 12, 0)
    }
    fn check(&self, input: &HistInput, obs: &mut Obs, env: &Env) -> CheckResult {
        env.block_on(run(input, obs, env))
    }
}
