//! C15 — Random access agrees with scanning.

use super::hist::*;
use crate::engine::*;
use crate::model::*;
use crate::store::VStore;
use crate::world::*;
use arrow_array::{RecordBatch, UInt64Array};
use futures::TryStreamExt;
use lance::dataset::ProjectionRequest;
use proptest::prelude::*;
use serde::{Deserialize, Serialize};
use std::collections::HashMap;
use std::sync::Arc;

pub struct C15;

#[derive(Clone, Debug, PartialEq, Eq, Serialize, Deserialize)]
pub struct KeyList {
    /// positions into the ordered scan (fractions); duplicates and inversions allowed
    pub picks: Vec<u16>,
    /// add a contiguous run starting at this position with this length
    pub run: Option<(u16, u8)>,
    pub sort: bool,
    /// projected columns (fractions); empty = all
    pub project: Vec<u8>,
    /// 0 take(offsets), 1 take_rows(row ids as reported by the scan), 2 take by addresses, 3 take_scan(ranges)
    pub mode: u8,
}

#[derive(Clone, Debug, PartialEq, Eq, Serialize, Deserialize)]
pub struct Input {
    pub hist: HistInput,
    pub lists: Vec<KeyList>,
}

fn key_list() -> impl Strategy<Value = KeyList> {
    (prop::collection::vec(any::<u16>(), 0..10), prop::option::weighted(0.5, (any::<u16>(), 1u8..8)), any::<bool>(), prop::collection::vec(any::<u8>(), 0..3), 0u8..4)
        .prop_map(|(picks, run, sort, project, mode)| KeyList { picks, run, sort, project, mode })
}

fn op_mix() -> BoxedStrategy<Op> {
    prop_oneof![
        5 => op_append(),
        3 => op_delete(),
        2 => op_update(),
        2 => op_merge(),
        2 => op_compact(),
        1 => op_schema(),
    ]
    .boxed()
}

struct ScanRow {
    row: Row,
    rowid: u64,
    rowaddr: u64,
}

async fn reference_scan(ds: &lance::Dataset, schema: &TableSchema) -> Result<Vec<ScanRow>, Failure> {
    let mut sc = ds.scan();
    sc.scan_in_order(true);
    sc.with_row_id();
    sc.with_row_address();
    let batches: Vec<RecordBatch> = sc
        .try_into_stream()
        .await
        .map_err(|e| Failure::new("reference-scan-error", format!("{e}")))?
        .try_collect()
        .await
        .map_err(|e| Failure::new("reference-scan-error", format!("{e}")))?;
    let rows = batches_to_rows(&batches, &schema.names()).map_err(|m| Failure::new("scan-decode", m))?;
    let mut ids = vec![];
    let mut addrs = vec![];
    for b in &batches {
        let i = b.column_by_name("_rowid").and_then(|c| c.as_any().downcast_ref::<UInt64Array>().cloned()).ok_or_else(|| Failure::new("no-rowid-column", format!("{:?}", b.schema())))?;
        let a = b.column_by_name("_rowaddr").and_then(|c| c.as_any().downcast_ref::<UInt64Array>().cloned()).ok_or_else(|| Failure::new("no-rowaddr-column", format!("{:?}", b.schema())))?;
        ids.extend(i.values().iter().copied());
        addrs.extend(a.values().iter().copied());
    }
    Ok(rows.into_iter().zip(ids).zip(addrs).map(|((row, rowid), rowaddr)| ScanRow { row, rowid, rowaddr }).collect())
}

pub async fn run(input: &Input, obs: &mut Obs, _env: &Env) -> CheckResult {
    let store = VStore::new();
    let h = &input.hist;
    let mut w = match World::create(store, "t", &h.cfg, &h.initial, h.init_file_rows as usize).await {
        Ok(w) => w,
        Err(_) => {
            obs.rejected += 1;
            return Ok(());
        }
    };
    for (i, step) in h.steps.iter().enumerate() {
        w.apply(step, obs).await.map_err(|f| Failure::new(f.kind, format!("step {i} ({}): {}", step.op.kind(), f.msg)))?;
    }
    let st = w.state().clone();
    let ds = Arc::new(w.ds.clone());
    let scan = reference_scan(&ds, &st.schema).await?;
    // the scan itself must agree with the model (multiset)
    if sorted(scan.iter().map(|s| s.row.clone()).collect()) != sorted(st.rows.clone()) {
        return Err(Failure::new("scan-vs-model", diff_rows(&scan.iter().map(|s| s.row.clone()).collect::<Vec<_>>(), &st.rows)));
    }
    // row ids and addresses reported by the scan are unique
    let mut by_id: HashMap<u64, usize> = HashMap::new();
    let mut by_addr: HashMap<u64, usize> = HashMap::new();
    for (i, s) in scan.iter().enumerate() {
        if by_id.insert(s.rowid, i).is_some() {
            return Err(Failure::new("duplicate-rowid-in-scan", format!("row id {} reported twice", s.rowid)));
        }
        if by_addr.insert(s.rowaddr, i).is_some() {
            return Err(Failure::new("duplicate-rowaddr-in-scan", format!("row address {} reported twice", s.rowaddr)));
        }
    }
    let n = scan.len();
    let nfrag = ds.count_fragments();
    let has_deletions = ds.count_deleted_rows().await.unwrap_or(0) > 0;
    let ncols = st.schema.cols.len();
    let mut nontrivial = false;

    // every (rowid, rowaddr) the scan reports resolves back to the same row
    if n > 0 {
        let ids: Vec<u64> = scan.iter().map(|s| s.rowid).collect();
        let b = ds.take_rows(&ids, ProjectionRequest::from_columns([UID], ds.schema())).await.map_err(|e| Failure::new("take-rows-all-error", format!("take_rows of every scanned row id failed: {e}")))?;
        let got: Vec<i64> = b.column(0).as_any().downcast_ref::<arrow_array::Int64Array>().unwrap().values().to_vec();
        let want: Vec<i64> = scan.iter().map(|s| s.row.uid).collect();
        if got != want {
            return Err(Failure::new("rowid-resolves-to-other-row", format!("take_rows(scan's _rowid) returned uids {got:?}, scan says {want:?}")));
        }
        let addrs: Vec<u64> = scan.iter().map(|s| s.rowaddr).collect();
        let b = lance::dataset::TakeBuilder::try_new_from_addresses(ds.clone(), addrs, Arc::new(ProjectionRequest::from_columns([UID], ds.schema()).into_projection_plan(ds.clone()).map_err(|e| Failure::new("projection-plan-error", format!("{e}")))?))
            .map_err(|e| Failure::new("take-builder-error", format!("{e}")))?
            .execute()
            .await
            .map_err(|e| Failure::new("take-addrs-all-error", format!("take by every scanned row address failed: {e}")))?;
        let got: Vec<i64> = b.column_by_name(UID).unwrap().as_any().downcast_ref::<arrow_array::Int64Array>().unwrap().values().to_vec();
        if got != want {
            return Err(Failure::new("rowaddr-resolves-to-other-row", format!("take(scan's _rowaddr) returned uids {got:?}, scan says {want:?}")));
        }
        obs.inner += 2;
    }

    for (li, l) in input.lists.iter().enumerate() {
        if n == 0 {
            break;
        }
        let mut pos: Vec<usize> = l.picks.iter().map(|p| idx(*p, n)).collect();
        if let Some((s, len)) = l.run {
            let s = idx(s, n);
            pos.extend(s..(s + len as usize).min(n));
        }
        if l.sort {
            pos.sort_unstable();
        }
        if pos.is_empty() {
            continue;
        }
        let mut pcols: Vec<usize> = if l.project.is_empty() || ncols == 0 { (0..ncols).collect() } else { l.project.iter().map(|c| *c as usize % ncols).collect() };
        pcols.sort_unstable();
        pcols.dedup();
        let mut names: Vec<String> = vec![UID.to_string()];
        names.extend(pcols.iter().map(|i| st.schema.cols[*i].name.clone()));
        let data_names: Vec<String> = names[1..].to_vec();
        let want: Vec<Row> = pos.iter().map(|p| Row { uid: scan[*p].row.uid, vals: pcols.iter().map(|i| scan[*p].row.vals[*i].clone()).collect() }).collect();
        let proj = ProjectionRequest::from_columns(names.iter(), ds.schema());
        let has_dup = {
            let mut s = pos.clone();
            s.sort_unstable();
            s.windows(2).any(|w| w[0] == w[1])
        };
        let has_inv = pos.windows(2).any(|w| w[0] > w[1]);
        let frags: std::collections::BTreeSet<u64> = pos.iter().map(|p| scan[*p].rowaddr >> 32).collect();
        let mode = l.mode % 4;
        let what = format!("key list {li} mode {mode} positions {pos:?} project {names:?}");
        let got: Vec<Row> = match mode {
            0 => {
                let offs: Vec<u64> = pos.iter().map(|p| *p as u64).collect();
                let b = ds.take(&offs, proj).await.map_err(|e| Failure::new("take-error", format!("{what}: {e}")))?;
                batches_to_rows(&[b], &data_names).map_err(|m| Failure::new("take-decode", format!("{what}: {m}")))?
            }
            1 => {
                let ids: Vec<u64> = pos.iter().map(|p| scan[*p].rowid).collect();
                let b = ds.take_rows(&ids, proj).await.map_err(|e| Failure::new("take-rows-error", format!("{what}: {e}")))?;
                batches_to_rows(&[b], &data_names).map_err(|m| Failure::new("take-decode", format!("{what}: {m}")))?
            }
            2 => {
                let addrs: Vec<u64> = pos.iter().map(|p| scan[*p].rowaddr).collect();
                let plan = proj.into_projection_plan(ds.clone()).map_err(|e| Failure::new("projection-plan-error", format!("{e}")))?;
                let b = lance::dataset::TakeBuilder::try_new_from_addresses(ds.clone(), addrs, Arc::new(plan))
                    .map_err(|e| Failure::new("take-builder-error", format!("{what}: {e}")))?
                    .execute()
                    .await
                    .map_err(|e| Failure::new("take-addrs-error", format!("{what}: {e}")))?;
                batches_to_rows(&[b], &data_names).map_err(|m| Failure::new("take-decode", format!("{what}: {m}")))?
            }
            _ => {
                // take_scan over ranges of offsets: sorted, non-overlapping ranges built from the positions
                let mut s = pos.clone();
                s.sort_unstable();
                s.dedup();
                let mut ranges: Vec<std::ops::Range<u64>> = vec![];
                for p in &s {
                    match ranges.last_mut() {
                        Some(r) if r.end == *p as u64 => r.end += 1,
                        _ => ranges.push(*p as u64..*p as u64 + 1),
                    }
                }
                let schema = Arc::new(ds.schema().project(&names).map_err(|e| Failure::new("project-error", format!("{e}")))?);
                let stream = ds.take_scan(Box::pin(futures::stream::iter(ranges.into_iter().map(Ok))), schema, 2);
                let b: Vec<RecordBatch> = stream.try_collect().await.map_err(|e| Failure::new("take-scan-error", format!("{what}: {e}")))?;
                let got = batches_to_rows(&b, &data_names).map_err(|m| Failure::new("take-decode", format!("{what}: {m}")))?;
                let want_sorted: Vec<Row> = s.iter().map(|p| Row { uid: scan[*p].row.uid, vals: pcols.iter().map(|i| scan[*p].row.vals[*i].clone()).collect() }).collect();
                if got != want_sorted {
                    return Err(Failure::new("take-scan-mismatch", format!("{what}: {}", diff_rows(&got, &want_sorted))));
                }
                obs.inner += 1;
                continue;
            }
        };
        obs.inner += 1;
        if got != want {
            return Err(Failure::new(
                match mode {
                    0 => "take-mismatch",
                    1 => "take-rows-mismatch",
                    _ => "take-addrs-mismatch",
                },
                format!("{what}: got {:?} want {:?}", got, want),
            ));
        }
        if frags.len() >= 2 && (has_dup || has_inv) && has_deletions {
            nontrivial = true;
        }
        if has_dup {
            obs.label("keys-duplicate");
        }
        if has_inv {
            obs.label("keys-inversion");
        }
    }
    obs.label(format!("fragments-{}", nfrag.min(6)));
    if nontrivial {
        obs.nontrivial(format!("{}|{}", op_kinds(&h.steps), input.lists.iter().map(|l| (l.mode % 4).to_string()).collect::<Vec<_>>().join("")));
    }
    Ok(())
}

impl Property for C15 {
    type Input = Input;
    fn id(&self) -> &'static str {
        "C15"
    }
    fn rule(&self) -> String {
        "A generated table after a generated history (appends, deletes, updates, merge_insert, compaction, schema ops; stable row ids on/off; storage 0.1/2.0/2.1/2.2) is scanned in order with _rowid and _rowaddr; that scan (checked against the model) is the reference. Every reported row id and address must resolve back (take_rows / TakeBuilder::try_new_from_addresses) to the same uid. 1-4 generated key lists (positions with duplicates, inversions, contiguous runs, fragment boundaries; random projections) are fetched through take(offsets), take_rows(row ids), take by addresses and take_scan(ranges): results must equal the reference rows in request order with multiplicity. Non-trivial = key list spans >=2 fragments, has a duplicate or inversion, and the table has deletions; distinct by op-kind sequence + access modes.".into()
    }
    fn assumptions(&self) -> Vec<String> {
        vec!["only in-range keys of live rows are requested (the property speaks of in-range keys); blob columns are not generated".into()]
    }
    fn cases(&self, tier: Tier) -> u32 {
        tier.pick(1200, 24000)
    }
    fn max_shrink_iters(&self) -> u32 {
        250
    }
    fn strategy(&self, _tier: Tier) -> BoxedStrategy<Input> {
        (hist_strategy(COMMON_TYPES, ALL_STORAGES, op_mix(), 7, 0), prop::collection::vec(key_list(), 1..5)).prop_map(|(hist, lists)| Input { hist, lists }).boxed()
    }
    fn check(&self, input: &Input, obs: &mut Obs, env: &Env) -> CheckResult {
        env.block_on(run(input, obs, env))
    }
}
