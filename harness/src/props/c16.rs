//! C16 — Scanner results equal a reference query and do not depend on execution knobs.

use super::hist::*;
use crate::engine::*;
use crate::model::*;
use crate::store::VStore;
use crate::world::*;
use arrow_array::RecordBatch;
use futures::{FutureExt, TryStreamExt};
use lance::dataset::scanner::{ColumnOrdering, MaterializationStyle};
use proptest::prelude::*;
use serde::{Deserialize, Serialize};
use std::cmp::Ordering;

pub struct C16;

#[derive(Clone, Debug, PartialEq, Eq, Serialize, Deserialize)]
pub struct Knobs {
    pub batch_size: Option<u16>,
    pub batch_readahead: Option<u8>,
    pub fragment_readahead: Option<u8>,
    pub io_buffer: Option<u32>,
    pub use_stats: Option<bool>,
    pub use_scalar_index: Option<bool>,
    pub scan_in_order: Option<bool>,
    pub strict_batch_size: bool,
    pub with_row_id: bool,
    pub with_row_address: bool,
    /// 0 default, 1 all late, 2 all early
    pub materialization: u8,
}

#[derive(Clone, Debug, PartialEq, Eq, Serialize, Deserialize)]
pub struct Query {
    pub filter: Option<RawPred>,
    /// projected columns (fractions); empty = all
    pub project: Vec<u8>,
    pub limit: Option<u8>,
    pub offset: Option<u8>,
    /// (column pick, ascending, nulls_first)
    pub order_by: Vec<(u8, bool, bool)>,
    pub knobs: Vec<Knobs>,
}

#[derive(Clone, Debug, PartialEq, Eq, Serialize, Deserialize)]
pub struct Input {
    pub hist: HistInput,
    pub queries: Vec<Query>,
}

fn knobs() -> impl Strategy<Value = Knobs> {
    (
        (
            prop::option::of(prop_oneof![Just(1u16), Just(2), Just(3), Just(7), Just(1024)]),
            prop::option::of(1u8..4),
            prop::option::of(1u8..4),
            prop::option::of(prop_oneof![Just(1u32), Just(64), Just(1 << 20)]),
            prop::option::of(any::<bool>()),
            prop::option::of(any::<bool>()),
        ),
        (prop::option::of(any::<bool>()), any::<bool>(), any::<bool>(), any::<bool>(), 0u8..3),
    )
        .prop_map(|((batch_size, batch_readahead, fragment_readahead, io_buffer, use_stats, use_scalar_index), (scan_in_order, strict_batch_size, with_row_id, with_row_address, materialization))| Knobs {
            batch_size,
            batch_readahead,
            fragment_readahead,
            io_buffer,
            use_stats,
            use_scalar_index,
            scan_in_order,
            strict_batch_size,
            with_row_id,
            with_row_address,
            materialization,
        })
}

fn query() -> impl Strategy<Value = Query> {
    (
        prop::option::weighted(0.85, raw_pred()),
        prop::collection::vec(any::<u8>(), 0..3),
        prop::option::weighted(0.3, 0u8..12),
        prop::option::weighted(0.2, 0u8..6),
        prop::collection::vec((any::<u8>(), any::<bool>(), any::<bool>()), 0..3),
        prop::collection::vec(knobs(), 1..4),
    )
        .prop_map(|(filter, project, limit, offset, order_by, knobs)| Query { filter, project, limit, offset, order_by, knobs })
}

fn op_mix() -> BoxedStrategy<Op> {
    prop_oneof![
        5 => op_append(),
        2 => op_delete(),
        2 => op_update(),
        1 => op_compact(),
        2 => op_create_index(),
    ]
    .boxed()
}

fn cmp_nulls(a: &Val, b: &Val, asc: bool, nulls_first: bool) -> Ordering {
    match (a.is_null(), b.is_null()) {
        (true, true) => Ordering::Equal,
        (true, false) => {
            if nulls_first {
                Ordering::Less
            } else {
                Ordering::Greater
            }
        }
        (false, true) => {
            if nulls_first {
                Ordering::Greater
            } else {
                Ordering::Less
            }
        }
        (false, false) => {
            let o = sql_cmp(a, b).unwrap_or(Ordering::Equal);
            if asc {
                o
            } else {
                o.reverse()
            }
        }
    }
}

async fn run_scan(ds: &lance::Dataset, sql: Option<&str>, cols: &[String], k: Option<&Knobs>, limit: Option<(Option<i64>, Option<i64>)>, order: &[ColumnOrdering]) -> Result<Vec<RecordBatch>, String> {
    let mut sc = ds.scan();
    let mut proj: Vec<String> = vec![UID.to_string()];
    proj.extend(cols.iter().cloned());
    sc.project(&proj).map_err(|e| e.to_string())?;
    if let Some(f) = sql {
        sc.filter(f).map_err(|e| e.to_string())?;
    }
    if !order.is_empty() {
        sc.order_by(Some(order.to_vec())).map_err(|e| e.to_string())?;
    }
    if let Some((l, o)) = limit {
        sc.limit(l, o).map_err(|e| e.to_string())?;
    }
    if let Some(k) = k {
        if let Some(b) = k.batch_size {
            sc.batch_size(b as usize);
        }
        if let Some(b) = k.batch_readahead {
            sc.batch_readahead(b as usize);
        }
        if let Some(b) = k.fragment_readahead {
            sc.fragment_readahead(b as usize);
        }
        if let Some(b) = k.io_buffer {
            sc.io_buffer_size(b as u64);
        }
        if let Some(b) = k.use_stats {
            sc.use_stats(b);
        }
        if let Some(b) = k.use_scalar_index {
            sc.use_scalar_index(b);
        }
        if let Some(b) = k.scan_in_order {
            sc.scan_in_order(b);
        }
        if k.strict_batch_size && k.batch_size.is_some() {
            sc.strict_batch_size(true);
        }
        if k.with_row_id {
            sc.with_row_id();
        }
        if k.with_row_address {
            sc.with_row_address();
        }
        match k.materialization {
            1 => {
                sc.materialization_style(MaterializationStyle::AllLate);
            }
            2 => {
                sc.materialization_style(MaterializationStyle::AllEarly);
            }
            _ => {}
        }
    }
    let st = sc.try_into_stream().await.map_err(|e| e.to_string())?;
    st.try_collect::<Vec<RecordBatch>>().await.map_err(|e| e.to_string())
}

pub async fn run(input: &Input, obs: &mut Obs, env: &Env) -> CheckResult {
    let store = VStore::new();
    let h = &input.hist;
    let mut w = match World::create(store, "t", &h.cfg, &h.initial, h.init_file_rows as usize).await {
        Ok(w) => w,
        Err(_) => {
            obs.rejected += 1;
            return Ok(());
        }
    };
    for (i, step) in h.steps.iter().enumerate() {
        w.apply(step, obs).await.map_err(|f| Failure::new(f.kind, format!("step {i} ({}): {}", step.op.kind(), f.msg)))?;
    }
    let st = w.state().clone();
    let mut nt_count = 0;
    for (qi, q) in input.queries.iter().enumerate() {
        let p = q.filter.as_ref().map(|f| resolve_pred(f, &st.schema));
        let sql = p.as_ref().map(|p| p.sql());
        // an indexed column under a negation is C19's subject (known NULL handling defect)
        if let Some(p) = &p {
            let mut cols = vec![];
            p.columns(&mut cols);
            if p.has_negation() && cols.iter().any(|c| st.indices.values().any(|ic| ic == c)) {
                obs.label("query-skipped:negation-on-indexed-column");
                continue;
            }
        }
        if let Some(p) = &p {
            if tautology_risk(p, &st.schema) && env.known("C16-simplifier-null-tautology") {
                obs.known_hit("C16-simplifier-null-tautology", format!("query {qi} filter {:?} skipped", p.sql()));
                continue;
            }
        }
        let ncols = st.schema.cols.len();
        let mut pcols: Vec<usize> = if q.project.is_empty() || ncols == 0 { (0..ncols).collect() } else { q.project.iter().map(|c| *c as usize % ncols).collect() };
        pcols.sort_unstable();
        pcols.dedup();
        let names: Vec<String> = pcols.iter().map(|i| st.schema.cols[*i].name.clone()).collect();
        // expected rows
        let mut tri = (false, false, false);
        let expect_full: Vec<Row> = st
            .rows
            .iter()
            .filter(|r| match &p {
                None => true,
                Some(p) => {
                    let v = eval_row(p, &st.schema, r);
                    match v {
                        Some(true) => tri.0 = true,
                        Some(false) => tri.1 = true,
                        None => tri.2 = true,
                    }
                    v == Some(true)
                }
            })
            .cloned()
            .collect();
        let project = |r: &Row| Row { uid: r.uid, vals: pcols.iter().map(|i| r.vals[*i].clone()).collect() };
        let expect: Vec<Row> = expect_full.iter().map(project).collect();
        if tri.0 && tri.1 && tri.2 {
            nt_count += 1;
            obs.label("filter-true-false-null");
        }
        let what = format!("query {qi} filter={:?} project={:?}", sql, names);

        // (1) default scan == model, as multiset
        let base = match run_scan(&w.ds, sql.as_deref(), &names, None, None, &[]).await {
            Ok(b) => b,
            Err(m) => {
                obs.rejected += 1;
                obs.label(format!("planner-rejected:{}", truncate_str(&m, 40)));
                continue;
            }
        };
        let got = batches_to_rows(&base, &names).map_err(|m| Failure::new("scan-decode", format!("{what}: {m}")))?;
        obs.inner += 1;
        if sorted(got.clone()) != sorted(expect.clone()) {
            return Err(Failure::new("scan-vs-model", format!("{what}: {}", diff_rows(&got, &expect))));
        }
        // (2) count_rows(filter)
        match w.ds.count_rows(sql.clone()).await {
            Ok(n) => {
                if n != expect.len() {
                    return Err(Failure::new("count-rows-vs-scan", format!("{what}: count_rows = {n}, scan returned {}", expect.len())));
                }
            }
            Err(e) => return Err(Failure::new("count-rows-error", format!("{what}: count_rows failed although the scan worked: {e}"))),
        }
        // (3) every knob setting returns the same multiset
        for (ki, k) in q.knobs.iter().enumerate() {
            // known finding: legacy storage + scalar index + with_row_address panics inside TakeExec
            if h.cfg.storage % 4 == 0 && !st.indices.is_empty() && k.with_row_address && sql.is_some() && env.known("C16-legacy-index-rowaddr-panic") {
                obs.known_hit("C16-legacy-index-rowaddr-panic", format!("{what}: knobs {k:?} skipped"));
                continue;
            }
            let r = match std::panic::AssertUnwindSafe(run_scan(&w.ds, sql.as_deref(), &names, Some(k), None, &[])).catch_unwind().await {
                Ok(r) => r,
                Err(_) => Err("panic inside the scan".to_string()),
            };
            let b = match r {
                Ok(b) => b,
                Err(m) => return Err(Failure::new("knob-scan-error", format!("{what}: knobs {k:?} make the scan fail: {m}"))),
            };
            obs.inner += 1;
            let g = batches_to_rows(&b, &names).map_err(|m| Failure::new("scan-decode", format!("{what}: {m}")))?;
            if sorted(g.clone()) != sorted(expect.clone()) {
                return Err(Failure::new("knob-changes-result", format!("{what}: knobs #{ki} {k:?}: {}", diff_rows(&g, &expect))));
            }
            if k.strict_batch_size {
                if let Some(bs) = k.batch_size {
                    let n = b.len();
                    for (bi, batch) in b.iter().enumerate() {
                        if bi + 1 < n && batch.num_rows() != bs as usize {
                            return Err(Failure::new("strict-batch-size", format!("{what}: knobs {k:?}: batch {bi} of {n} has {} rows", batch.num_rows())));
                        }
                    }
                }
            }
            if k.scan_in_order == Some(true) && st.ordered && p.is_none() {
                if g != expect {
                    return Err(Failure::new("ordered-scan-order", format!("{what}: knobs {k:?}: ordered scan does not return insertion order")));
                }
            }
        }
        // (4) order_by / limit / offset
        if !q.order_by.is_empty() || q.limit.is_some() || q.offset.is_some() {
            let mut keys: Vec<(usize, bool, bool)> = vec![];
            for (c, asc, nf) in &q.order_by {
                if ncols == 0 {
                    break;
                }
                let i = *c as usize % ncols;
                if keys.iter().any(|k| k.0 == i) || st.schema.cols[i].ty.is_float() {
                    continue; // float ordering with NaN is labelled elsewhere; keep the oracle unambiguous
                }
                keys.push((i, *asc, *nf));
            }
            let order: Vec<ColumnOrdering> = keys.iter().map(|(i, asc, nf)| ColumnOrdering { ascending: *asc, nulls_first: *nf, column_name: st.schema.cols[*i].name.clone() }).collect();
            let limit = q.limit.map(|l| l as i64);
            let offset = q.offset.map(|o| o as i64);
            // project all columns so that the sort keys can be checked
            let all_names = st.schema.names();
            let r = run_scan(&w.ds, sql.as_deref(), &all_names, None, Some((limit, offset)), &order).await;
            let b = match r {
                Ok(b) => b,
                Err(m) => {
                    obs.rejected += 1;
                    obs.label(format!("limit-order-rejected:{}", truncate_str(&m, 40)));
                    continue;
                }
            };
            obs.inner += 1;
            let g = batches_to_rows(&b, &all_names).map_err(|m| Failure::new("scan-decode", format!("{what}: {m}")))?;
            let cmp = |a: &Row, b: &Row| -> Ordering {
                for (i, asc, nf) in &keys {
                    let o = cmp_nulls(&a.vals[*i], &b.vals[*i], *asc, *nf);
                    if o != Ordering::Equal {
                        return o;
                    }
                }
                Ordering::Equal
            };
            let n = expect_full.len();
            let off = offset.unwrap_or(0) as usize;
            let want_len = match limit {
                Some(l) => (l as usize).min(n.saturating_sub(off)),
                None => n.saturating_sub(off),
            };
            if g.len() != want_len {
                return Err(Failure::new("limit-offset-count", format!("{what} order={keys:?} limit={limit:?} offset={offset:?}: {} rows returned, expected {want_len} of {n}", g.len())));
            }
            // every returned row is an expected row (multiset inclusion)
            let mut pool = sorted(expect_full.clone());
            for r in &g {
                match pool.binary_search(r) {
                    Ok(i) => {
                        pool.remove(i);
                    }
                    Err(_) => return Err(Failure::new("limit-offset-foreign-row", format!("{what}: returned row {r:?} is not in the expected result"))),
                }
            }
            if !keys.is_empty() {
                // sorted, and the key sequence equals the expected key sequence at [off, off+len)
                for w2 in g.windows(2) {
                    if cmp(&w2[0], &w2[1]) == Ordering::Greater {
                        return Err(Failure::new("order-by-not-sorted", format!("{what} order={keys:?}: {:?} before {:?}", w2[0], w2[1])));
                    }
                }
                let mut sorted_expect = expect_full.clone();
                sorted_expect.sort_by(|a, b| cmp(a, b));
                let want_keys: Vec<Vec<Val>> = sorted_expect.iter().skip(off).take(want_len).map(|r| keys.iter().map(|k| r.vals[k.0].clone()).collect()).collect();
                let got_keys: Vec<Vec<Val>> = g.iter().map(|r| keys.iter().map(|k| r.vals[k.0].clone()).collect()).collect();
                if want_keys != got_keys {
                    return Err(Failure::new("order-by-wrong-window", format!("{what} order={keys:?} limit={limit:?} offset={offset:?}: keys {got_keys:?}, expected {want_keys:?}")));
                }
                obs.label("order-by");
            }
            obs.label("limit-or-offset");
        }
    }
    if nt_count > 0 {
        obs.nontrivial(format!("{}|q{}", op_kinds(&h.steps), input.queries.len()));
    }
    Ok(())
}

impl Property for C16 {
    type Input = Input;
    fn id(&self) -> &'static str {
        "C16"
    }
    fn rule(&self) -> String {
        "A generated typed table (ints of all widths, floats incl. NaN/+-0/inf, strings, bools, dates, timestamps; nullable columns; several fragments; optional deletes/updates/compaction/scalar index on a non-nullable column) is queried with 1-3 generated queries: filter from a typed grammar (=,<>,<,<=,>,>=,BETWEEN,IN,LIKE prefix,IS [NOT] NULL,IS TRUE/FALSE,NOT,AND,OR; literals exactly representable in the column type), projection subset, limit/offset, multi-column order_by with nulls first/last, and 1-3 knob settings (batch_size, readaheads, io_buffer_size, use_stats, use_scalar_index, scan_in_order, strict_batch_size, with_row_id/address, materialization style). Oracle: independent three-valued evaluator over the model rows (multiset equality; for order_by+limit the returned key sequence must equal the expected window and rows must come from the expected multiset); every knob setting returns the default result; count_rows(filter) == rows returned; strict batches have exactly batch_size rows except the last. Non-trivial = a filter evaluating to TRUE, FALSE and NULL on different rows; distinct by op-kind sequence + query count.".into()
    }
    fn assumptions(&self) -> Vec<String> {
        vec![
            "float comparison follows IEEE total order (DataFusion/arrow dialect): NaN = NaN, NaN above +inf, -0.0 below +0.0".into(),
            "float columns are not used as ORDER BY keys; predicates with a negation over a scalar-indexed column are left to C19".into(),
        ]
    }
    fn cases(&self, tier: Tier) -> u32 {
        tier.pick(1200, 24000)
    }
    fn max_shrink_iters(&self) -> u32 {
        250
    }
    fn strategy(&self, _tier: Tier) -> BoxedStrategy<Input> {
        (hist_strategy(SCALAR_TYPES, ALL_STORAGES, op_mix(), 6, 0), prop::collection::vec(query(), 1..4)).prop_map(|(hist, queries)| Input { hist, queries }).boxed()
    }
    fn check(&self, input: &Input, obs: &mut Obs, env: &Env) -> CheckResult {
        crate::model::WIDE_LITS.with(|m| m.set(true));
        let r = env.block_on(run(input, obs, env));
        crate::model::WIDE_LITS.with(|m| m.set(false));
        r
    }
}
