//! C19 — Exact scalar indices answer filters exactly like a full scan.

use super::hist::*;
use crate::engine::*;
use crate::model::NAN_MODE;
use crate::store::VStore;
use crate::world::*;
use proptest::prelude::*;
use serde::{Deserialize, Serialize};

pub struct C19;

#[derive(Clone, Debug, PartialEq, Eq, Serialize, Deserialize)]
pub struct Input {
    pub hist: HistInput,
    pub probes: Vec<u16>,
    /// extra generated predicate trees (may mix the indexed column with others: refine splitting)
    pub preds: Vec<RawPred>,
}

fn op_mix() -> BoxedStrategy<Op> {
    prop_oneof![
        5 => op_append(),
        3 => op_delete(),
        3 => op_update(),
        1 => op_merge(),
        3 => op_compact(),
        8 => op_create_index(),
        3 => (0u8..3).prop_map(|mode| Op::OptimizeIndices { mode }),
    ]
    .boxed()
}

pub async fn run(input: &Input, obs: &mut Obs, env: &Env) -> CheckResult {
    let store = VStore::new();
    let h = &input.hist;
    let mut w = match World::create(store, "t", &h.cfg, &h.initial, h.init_file_rows as usize).await {
        Ok(w) => w,
        Err(_) => {
            obs.rejected += 1;
            return Ok(());
        }
    };
    w.index_nullable_cols = true;
    w.merge_on_uid_only = true;
    let known = if env.known("C19-null-under-negation") { Some("C19-null-under-negation") } else { None };
    let mut used_total = 0;
    let mut had_null_indexed = false;
    for (i, step) in h.steps.iter().enumerate() {
        // delete / update predicates run through the scanner as well: with the known finding active they could
        // delete the wrong rows, so predicates with a negation over an indexed nullable column are skipped there
        if known.is_some() {
            if let Op::Delete { pred } | Op::Update { pred: Some(pred), .. } = &step.op {
                let st = w.state();
                let p = resolve_pred(pred, &st.schema);
                let mut cols = vec![];
                p.columns(&mut cols);
                let risky = cols.iter().any(|c| st.indices.values().any(|ic| ic == c) && st.schema.col(c).map(|(_, s)| s.nullable || s.ty == crate::model::ColType::Bool).unwrap_or(false));
                if risky && (p.has_negation() || format!("{p:?}").contains("Bool")) {
                    obs.label("excluded:write-predicate-negation-on-indexed-nullable");
                    continue;
                }
            }
        }
        // NaN / -0.0 are present in float columns here: write predicates over float columns have engine-dependent
        // reference semantics, so they are not used to drive the model
        if let Op::Delete { pred } | Op::Update { pred: Some(pred), .. } = &step.op {
            let st = w.state();
            let p = resolve_pred(pred, &st.schema);
            let mut cols = vec![];
            p.columns(&mut cols);
            if cols.iter().any(|c| st.schema.col(c).map(|(_, s)| s.ty.is_float()).unwrap_or(false)) {
                obs.label("excluded:write-predicate-on-float-with-nan");
                continue;
            }
        }
        if let Op::Update { sets, .. } = &step.op {
            // SET x = float column copies are fine; nothing to exclude
            let _ = sets;
        }
        let out = w.apply(step, obs).await.map_err(|f| Failure::new(f.kind, format!("step {i} ({}): {}", step.op.kind(), f.msg)))?;
        if !matches!(out, StepOutcome::Committed { .. }) {
            continue;
        }
        let what = format!("after step {i} ({})", step.op.kind());
        let st = w.state().clone();
        verify_state(&w.ds, &st, &what).await?;
        if st.indices.is_empty() {
            continue;
        }
        for c in st.indices.values() {
            if let Some((ci, spec)) = st.schema.col(c) {
                if spec.nullable && st.rows.iter().any(|r| r.vals[ci].is_null()) {
                    had_null_indexed = true;
                }
            }
        }
        used_total += check_indexed_queries_opts(&w.ds, &st, &input.probes, true, known, obs, &what).await?;
        // generated predicate trees over all columns
        for raw in &input.preds {
            let p = resolve_pred(raw, &st.schema);
            let sql = p.sql();
            if tautology_risk(&p, &st.schema) && env.known("C16-simplifier-null-tautology") {
                obs.known_hit("C16-simplifier-null-tautology", format!("filter {sql:?} skipped"));
                continue;
            }
            let with = match filtered_uids(&w.ds, &sql, true).await {
                Ok(v) => v,
                Err(m) => {
                    if filtered_uids(&w.ds, &sql, false).await.is_err() {
                        obs.rejected += 1;
                        continue;
                    }
                    return Err(Failure::new("indexed-scan-error", format!("{what}: {sql:?} fails only with the index: {m}")));
                }
            };
            let without = filtered_uids(&w.ds, &sql, false).await.map_err(|m| Failure::new("unindexed-scan-error", format!("{what}: {sql:?}: {m}")))?;
            obs.inner += 1;
            if with != without {
                let mut cols = vec![];
                p.columns(&mut cols);
                let extra: Vec<i64> = with.iter().filter(|u| !without.contains(u)).copied().collect();
                let missing = without.iter().any(|u| !with.contains(u));
                let indexed_nullable: Vec<usize> = cols.iter().filter(|c| st.indices.values().any(|ic| ic == *c)).filter_map(|c| st.schema.col(c)).filter(|(_, s)| s.nullable).map(|(i, _)| i).collect();
                let extra_has_null = !extra.is_empty() && extra.iter().all(|u| st.rows.iter().any(|r| r.uid == *u && indexed_nullable.iter().any(|ci| r.vals[*ci].is_null())));
                if !missing && extra_has_null && (p.has_negation() || format!("{p:?}").contains("Bool")) {
                    if let Some(id) = known {
                        obs.known_hit(id, format!("{what}: {sql:?} extra NULL rows {extra:?}"));
                        continue;
                    }
                    return Err(Failure::new("indexed-vs-unindexed:null-under-negation", format!("{what}: {sql:?} with index {with:?}, without {without:?}")));
                }
                return Err(Failure::new("indexed-vs-unindexed", format!("{what}: {sql:?} with index returns uids {with:?}, without {without:?}")));
            }
            if plan_uses_scalar_index(&w.ds, &sql).await {
                used_total += 1;
            }
        }
    }
    if used_total > 0 && had_null_indexed {
        obs.nontrivial(format!("{}|{}", op_kinds(&h.steps), used_total.min(20)));
    }
    Ok(())
}

impl Property for C19 {
    type Input = Input;
    fn id(&self) -> &'static str {
        "C19"
    }
    fn rule(&self) -> String {
        "Tables with 1-4 columns of generated types (all integer widths, floats incl. NaN / -0.0 / +-inf, strings, booleans, dates, timestamps; nullable or not; duplicates), several fragments; histories of 1-9 ops {append (unindexed tail), delete, update, merge_insert on uid, compaction with immediate or deferred remap, BTree/Bitmap index create/replace on ANY column incl. nullable ones, optimize_indices (append / merge 2 / default)}. After every commit, for every indexed column a predicate panel (=,<>,<,<=,>,>=,BETWEEN,NOT BETWEEN,IN,NOT IN,NOT(=),IS [NOT] NULL with generated boundary / in-range literals) plus 1-3 generated predicate trees over all columns (AND/OR/NOT mixing indexed and other columns) must return the same uid set with use_scalar_index(true) and use_scalar_index(false) (and, except for NaN/-0.0 floats, the model's set). explain_plan only labels whether the index was used. Non-trivial = plan contains ScalarIndexQuery and the indexed column holds a NULL; distinct by op-kind sequence.".into()
    }
    fn assumptions(&self) -> Vec<String> {
        vec!["label-list (list<T>) indices are not generated: the table model has no list columns".into()]
    }
    fn cases(&self, tier: Tier) -> u32 {
        tier.pick(1000, 20000)
    }
    fn max_shrink_iters(&self) -> u32 {
        250
    }
    fn strategy(&self, _tier: Tier) -> BoxedStrategy<Input> {
        (hist_strategy(SCALAR_TYPES, V2_STORAGES, op_mix(), 10, 0), prop::collection::vec(0u16..40, 3..7), prop::collection::vec(raw_pred(), 1..4))
            .prop_map(|(mut hist, probes, preds)| {
                if hist.init_file_rows > 6 {
                    hist.init_file_rows = 3;
                }
                Input { hist, probes, preds }
            })
            .boxed()
    }
    fn check(&self, input: &Input, obs: &mut Obs, env: &Env) -> CheckResult {
        NAN_MODE.with(|m| m.set(true));
        let r = env.block_on(run(input, obs, env));
        NAN_MODE.with(|m| m.set(false));
        r
    }
}
