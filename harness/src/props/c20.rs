//! C20 — Inexact scalar indices (zone map, bloom filter, n-gram) never drop a matching row.
//!
//! A small history engine of its own (the shared `World` only knows BTree/Bitmap and has a fixed value pool):
//! a table `uid, c0[, c1]` on a `VStore`, an inexact index on `c0`, operations append / delete (by uid) / update /
//! compaction / index re-creation / optimize_indices / reopen.  After every commit a panel of predicates is checked
//! at two levels: (a) the index's own `search` answer against the rows an un-indexed scan returns, (b) the scan with
//! and without the index.  The zone-map part is shared with C29.

use crate::engine::*;
use crate::model::*;
use crate::store::{self, VStore};
use crate::world::{filtered_uids, handler_of, mk_write_params, new_session, plan_uses_scalar_index, TableCfg};
use arrow_array::{Array, Int64Array, RecordBatch, RecordBatchIterator, UInt64Array};
use datafusion_common::ScalarValue;
use futures::TryStreamExt;
use lance::dataset::builder::DatasetBuilder;
use lance::dataset::optimize::{compact_files, CompactionOptions};
use lance::dataset::{UpdateBuilder, WriteMode};
use lance::index::DatasetIndexInternalExt;
use lance::session::Session;
use lance::Dataset;
use lance_index::metrics::NoOpMetricsCollector;
use lance_index::optimize::OptimizeOptions;
use lance_index::scalar::{AnyQuery, BloomFilterQuery, BuiltinIndexType, SargableQuery, ScalarIndexParams, SearchResult, TextQuery};
use lance_index::{DatasetIndexExt, IndexType};
use lance_table::io::commit::CommitHandler;
use proptest::prelude::*;
use serde::{Deserialize, Serialize};
use std::collections::{BTreeMap, BTreeSet};
use std::ops::Bound;
use std::sync::Arc;

pub struct C20;

pub const IDX_NAME: &str = "inexact_idx";
pub const C0: &str = "c0";
pub const C1: &str = "c1";

// ---------------------------------------------------------------------------
// input

#[derive(Clone, Copy, Debug, PartialEq, Eq, Serialize, Deserialize)]
pub enum Kind {
    ZoneMap { rows_per_zone: u8 },
    /// probability in 1/1000
    Bloom { items: u8, prob_milli: u16 },
    NGram,
}

impl Kind {
    pub fn name(&self) -> &'static str {
        match self {
            Kind::ZoneMap { .. } => "zonemap",
            Kind::Bloom { .. } => "bloom",
            Kind::NGram => "ngram",
        }
    }
}

#[derive(Clone, Debug, PartialEq, Eq, Serialize, Deserialize)]
pub struct Cfg {
    pub kind: Kind,
    /// type of the indexed column c0 (index into ColType::ALL) and nullability
    pub ty: u8,
    pub nullable: bool,
    /// optional second, un-indexed column
    pub extra: Option<(u8, bool)>,
    pub stable_row_ids: bool,
    /// 1 = 2.0, 2 = 2.1, 3 = 2.2
    pub storage: u8,
    pub v2_manifest: bool,
    pub handler: u8,
}

#[derive(Clone, Debug, PartialEq, Eq, Serialize, Deserialize)]
pub enum XOp {
    Append { rows: Vec<u16>, max_rows_per_file: u16 },
    /// delete a contiguous block of the live rows (in uid order) or a picked set
    Delete { block: Option<(u16, u16)>, picks: Vec<u16> },
    /// SET c0 = literal for the picked rows
    Update { picks: Vec<u16>, lit: u16 },
    Compact { target_rows: u16, materialize: bool, defer_remap: bool },
    /// re-create (replace) the index
    CreateIndex,
    OptimizeIndices { mode: u8 },
    Reopen,
}

impl XOp {
    pub fn kind(&self) -> &'static str {
        match self {
            XOp::Append { .. } => "append",
            XOp::Delete { .. } => "delete",
            XOp::Update { .. } => "update",
            XOp::Compact { .. } => "compact",
            XOp::CreateIndex => "create_index",
            XOp::OptimizeIndices { .. } => "optimize_indices",
            XOp::Reopen => "reopen",
        }
    }
}

#[derive(Clone, Debug, PartialEq, Eq, Serialize, Deserialize)]
pub struct Input {
    pub cfg: Cfg,
    pub initial: Vec<u16>,
    pub init_file_rows: u16,
    /// operations before the index is created
    pub pre: Vec<XOp>,
    /// operations after
    pub post: Vec<XOp>,
    pub probes: Vec<u16>,
}

// ---------------------------------------------------------------------------
// values

/// strings for the indexed column: shared trigrams, case / accent variants (the n-gram tokenizer lower-cases and
/// ASCII-folds), non-alphanumeric separators, multi-byte characters, empty and short strings
pub const STR_POOL: [&str; 32] = [
    "", "a", "ab", "abc", "abcd", "bcd", "xabcx", "ABC", "Abc", "a b c", "ab-cd", "éab", "abé", "ébc", "日本語", "日本", "ab日本cd", "abc abc", "zzz", "ᴀbc", "0123", "123", "a1b2", "   ", "%_%", "it's", "ß",
    "straße", "İstanbul", "cdab", "bca", "ÀBC",
];

pub fn val20(ty: ColType, nullable: bool, seed: u16) -> Val {
    if nullable && seed % 7 == 0 {
        return Val::Null;
    }
    if ty.is_string() {
        return Val::S(STR_POOL[(seed as usize / 2) % STR_POOL.len()].to_string());
    }
    val_from_seed(ty, false, seed)
}

pub fn lit20(ty: ColType, seed: u16) -> Val {
    val20(ty, false, seed | 1)
}

fn finite(v: Val) -> Val {
    match v {
        Val::F(b) if !f64::from_bits(b).is_finite() => Val::f(2.5),
        v => v,
    }
}

/// a substring (by characters) of a pool string, or a string that occurs nowhere
fn substring(seed: u16) -> String {
    const ABSENT: [&str; 6] = ["xyz", "abx", "q", "日語", "bcda", "a  b"];
    if seed % 9 == 8 {
        return ABSENT[(seed as usize / 9) % ABSENT.len()].to_string();
    }
    let s: Vec<char> = STR_POOL[(seed as usize) % STR_POOL.len()].chars().collect();
    if s.is_empty() {
        return String::new();
    }
    let start = (seed as usize / 32) % s.len();
    let len = 1 + (seed as usize / 7) % 5;
    s[start..(start + len).min(s.len())].iter().collect()
}

pub fn scalar_of(v: &Val, ty: ColType) -> ScalarValue {
    match (ty, v) {
        (ColType::I8, Val::I(x)) => ScalarValue::Int8(Some(*x as i8)),
        (ColType::I16, Val::I(x)) => ScalarValue::Int16(Some(*x as i16)),
        (ColType::I32, Val::I(x)) => ScalarValue::Int32(Some(*x as i32)),
        (ColType::I64, Val::I(x)) => ScalarValue::Int64(Some(*x as i64)),
        (ColType::U8, Val::I(x)) => ScalarValue::UInt8(Some(*x as u8)),
        (ColType::U16, Val::I(x)) => ScalarValue::UInt16(Some(*x as u16)),
        (ColType::U32, Val::I(x)) => ScalarValue::UInt32(Some(*x as u32)),
        (ColType::U64, Val::I(x)) => ScalarValue::UInt64(Some(*x as u64)),
        (ColType::Date32, Val::I(x)) => ScalarValue::Date32(Some(*x as i32)),
        (ColType::TsUs, Val::I(x)) => ScalarValue::TimestampMicrosecond(Some(*x as i64), None),
        (ColType::F32, Val::F(b)) => ScalarValue::Float32(Some(f64::from_bits(*b) as f32)),
        (ColType::F64, Val::F(b)) => ScalarValue::Float64(Some(f64::from_bits(*b))),
        (ColType::Utf8, Val::S(s)) => ScalarValue::Utf8(Some(s.clone())),
        (ColType::LargeUtf8, Val::S(s)) => ScalarValue::LargeUtf8(Some(s.clone())),
        (ColType::Bool, Val::B(b)) => ScalarValue::Boolean(Some(*b)),
        (t, v) => panic!("harness: no scalar for {v:?} of {t:?}"),
    }
}

// ---------------------------------------------------------------------------
// predicates

#[derive(Clone, Debug, PartialEq)]
pub enum PExpr {
    B(BExpr),
    Contains { col: String, sub: String },
    Not(Box<PExpr>),
    And(Box<PExpr>, Box<PExpr>),
    Or(Box<PExpr>, Box<PExpr>),
}

impl PExpr {
    pub fn sql(&self) -> String {
        match self {
            PExpr::B(b) => b.sql(),
            PExpr::Contains { col, sub } => format!("contains({}, '{}')", quote_ident(col), sub.replace('\'', "''")),
            PExpr::Not(a) => format!("NOT ({})", a.sql()),
            PExpr::And(a, b) => format!("({}) AND ({})", a.sql(), b.sql()),
            PExpr::Or(a, b) => format!("({}) OR ({})", a.sql(), b.sql()),
        }
    }
    pub fn eval(&self, schema: &TableSchema, row: &Row) -> Option<bool> {
        match self {
            PExpr::B(b) => eval_row(b, schema, row),
            PExpr::Contains { col, sub } => match schema.col(col).map(|(i, _)| &row.vals[i]) {
                Some(Val::S(s)) => Some(s.contains(sub.as_str())),
                _ => None,
            },
            PExpr::Not(a) => a.eval(schema, row).map(|x| !x),
            PExpr::And(a, b) => and3(a.eval(schema, row), b.eval(schema, row)),
            PExpr::Or(a, b) => or3(a.eval(schema, row), b.eval(schema, row)),
        }
    }
    pub fn has_negation(&self) -> bool {
        match self {
            PExpr::B(b) => b.has_negation(),
            PExpr::Contains { .. } => false,
            PExpr::Not(_) => true,
            PExpr::And(a, b) | PExpr::Or(a, b) => a.has_negation() || b.has_negation(),
        }
    }
}

pub enum Direct {
    Sarg(SargableQuery),
    Bloom(BloomFilterQuery),
    Text(TextQuery),
}

impl Direct {
    fn any(&self) -> &dyn AnyQuery {
        match self {
            Direct::Sarg(q) => q,
            Direct::Bloom(q) => q,
            Direct::Text(q) => q,
        }
    }
}

/// the index query the index's parser builds for a leaf predicate on the indexed column (None: not a leaf the
/// parser turns into a single positive query)
pub fn direct_query(kind: Kind, p: &PExpr) -> Option<Direct> {
    match (kind, p) {
        (Kind::NGram, PExpr::Contains { col, sub }) if col == C0 => Some(Direct::Text(TextQuery::StringContains(sub.clone()))),
        (Kind::ZoneMap { .. }, PExpr::B(b)) => match b {
            BExpr::Cmp { col, ty, op, lit } if col == C0 => {
                let v = scalar_of(lit, *ty);
                Some(Direct::Sarg(match op {
                    CmpOp::Eq => SargableQuery::Equals(v),
                    CmpOp::Lt => SargableQuery::Range(Bound::Unbounded, Bound::Excluded(v)),
                    CmpOp::Le => SargableQuery::Range(Bound::Unbounded, Bound::Included(v)),
                    CmpOp::Gt => SargableQuery::Range(Bound::Excluded(v), Bound::Unbounded),
                    CmpOp::Ge => SargableQuery::Range(Bound::Included(v), Bound::Unbounded),
                    CmpOp::Ne => return None,
                }))
            }
            BExpr::Between { col, ty, lo, hi, negated: false } if col == C0 => Some(Direct::Sarg(SargableQuery::Range(Bound::Included(scalar_of(lo, *ty)), Bound::Included(scalar_of(hi, *ty))))),
            BExpr::InList { col, ty, list, negated: false } if col == C0 => Some(Direct::Sarg(SargableQuery::IsIn(list.iter().map(|v| scalar_of(v, *ty)).collect()))),
            BExpr::IsNull { col } if col == C0 => Some(Direct::Sarg(SargableQuery::IsNull())),
            _ => None,
        },
        (Kind::Bloom { .. }, PExpr::B(b)) => match b {
            BExpr::Cmp { col, ty, op: CmpOp::Eq, lit } if col == C0 => Some(Direct::Bloom(BloomFilterQuery::Equals(scalar_of(lit, *ty)))),
            BExpr::InList { col, ty, list, negated: false } if col == C0 => Some(Direct::Bloom(BloomFilterQuery::IsIn(list.iter().map(|v| scalar_of(v, *ty)).collect()))),
            BExpr::IsNull { col } if col == C0 => Some(Direct::Bloom(BloomFilterQuery::IsNull())),
            _ => None,
        },
        _ => None,
    }
}

/// the predicate panel for the indexed column
pub fn panel(kind: Kind, schema: &TableSchema, probes: &[u16]) -> Vec<PExpr> {
    let c0 = &schema.cols[0];
    let ty = c0.ty;
    let col = C0.to_string();
    let mut out: Vec<PExpr> = vec![];
    // a predicate on the second column (if any) for compound filters
    let other = |s: u16| -> Option<PExpr> {
        let c1 = schema.cols.get(1)?;
        if c1.ty == ColType::Bool {
            return Some(PExpr::B(BExpr::Cmp { col: C1.into(), ty: c1.ty, op: CmpOp::Eq, lit: Val::B(s % 2 == 0) }));
        }
        Some(PExpr::B(BExpr::Cmp { col: C1.into(), ty: c1.ty, op: CmpOp::ALL[s as usize % 6], lit: finite(lit20(c1.ty, s)) }))
    };
    for (k, s) in probes.iter().enumerate() {
        let s = *s;
        match kind {
            Kind::NGram => {
                let leaf = PExpr::Contains { col: col.clone(), sub: substring(s) };
                out.push(leaf.clone());
                match k % 4 {
                    1 => out.push(PExpr::Not(Box::new(leaf))),
                    2 => {
                        if let Some(o) = other(s) {
                            out.push(PExpr::And(Box::new(leaf), Box::new(o)));
                        } else {
                            out.push(PExpr::And(Box::new(leaf), Box::new(PExpr::Contains { col: col.clone(), sub: substring(s.wrapping_add(13)) })));
                        }
                    }
                    3 => out.push(PExpr::Or(Box::new(leaf), Box::new(PExpr::Contains { col: col.clone(), sub: substring(s.wrapping_add(5)) }))),
                    _ => {}
                }
            }
            Kind::ZoneMap { .. } | Kind::Bloom { .. } => {
                if ty == ColType::Bool {
                    out.push(PExpr::B(BExpr::Cmp { col: col.clone(), ty, op: CmpOp::Eq, lit: Val::B(s % 2 == 0) }));
                    continue;
                }
                let lit = |x: u16| lit20(ty, x);
                let bloom = matches!(kind, Kind::Bloom { .. });
                let op = if bloom { [CmpOp::Eq, CmpOp::Eq, CmpOp::Ne][(s as usize + k) % 3] } else { CmpOp::ALL[(s as usize + k) % 6] };
                let leaf = PExpr::B(BExpr::Cmp { col: col.clone(), ty, op, lit: lit(s) });
                out.push(leaf.clone());
                if k % 3 == 1 {
                    if bloom {
                        // a range: the bloom parser declines it, the scan must fall back
                        out.push(PExpr::B(BExpr::Cmp { col: col.clone(), ty, op: CmpOp::Le, lit: lit(s) }));
                    } else {
                        out.push(PExpr::B(BExpr::Between { col: col.clone(), ty, lo: lit(s), hi: lit(s.wrapping_add(5)), negated: k % 2 == 0 }));
                    }
                }
                if k % 3 == 2 {
                    out.push(PExpr::B(BExpr::InList { col: col.clone(), ty, list: vec![lit(s), lit(s.wrapping_add(3))], negated: k % 4 == 1 }));
                }
                if k % 4 == 3 {
                    if let Some(o) = other(s) {
                        out.push(if k % 8 == 3 { PExpr::And(Box::new(leaf), Box::new(o)) } else { PExpr::Or(Box::new(leaf), Box::new(o)) });
                    } else {
                        out.push(PExpr::Not(Box::new(leaf)));
                    }
                }
            }
        }
    }
    if !matches!(kind, Kind::NGram) {
        out.push(PExpr::B(BExpr::IsNull { col: col.clone() }));
        out.push(PExpr::B(BExpr::IsNotNull { col }));
    }
    out
}

// ---------------------------------------------------------------------------
// the table

pub struct Tbl {
    pub store: VStore,
    pub session: Arc<Session>,
    pub handler: Arc<dyn CommitHandler>,
    pub tcfg: TableCfg,
    pub uri: String,
    pub ds: Dataset,
    pub schema: TableSchema,
    pub rows: Vec<Row>,
    pub next_uid: i64,
    pub kind: Kind,
    pub history: Vec<&'static str>,
    /// row addresses that the zone map / bloom filter training (simulated, see `simulate_zones`) files under a zone
    /// that does not cover them, with the id of the finding that explains it
    pub misplaced: BTreeMap<u64, &'static str>,
    /// fragments that existed when the index deltas were trained
    pub trained_frags: BTreeSet<u32>,
    /// a compaction with defer_index_remap committed since the index was (re)created
    pub deferred_remap_since_training: bool,
}

pub fn schema_of(cfg: &Cfg) -> TableSchema {
    let mut cols = vec![ColSpec { name: C0.into(), ty: ColType::ALL[cfg.ty as usize % ColType::ALL.len()], nullable: cfg.nullable, cid: 1 }];
    if let Some((t, n)) = cfg.extra {
        cols.push(ColSpec { name: C1.into(), ty: ColType::ALL[t as usize % ColType::ALL.len()], nullable: n, cid: 2 });
    }
    TableSchema { cols }
}

fn mk_row(schema: &TableSchema, uid: i64, seed: u16) -> Row {
    Row { uid, vals: schema.cols.iter().enumerate().map(|(i, c)| val20(c.ty, c.nullable, seed.wrapping_add(i as u16 * 5))).collect() }
}

pub fn index_params(kind: Kind) -> (IndexType, ScalarIndexParams) {
    match kind {
        Kind::ZoneMap { rows_per_zone } => (IndexType::ZoneMap, ScalarIndexParams::for_builtin(BuiltinIndexType::ZoneMap).with_params(&serde_json::json!({ "rows_per_zone": rows_per_zone.max(1) as u64 }))),
        Kind::Bloom { items, prob_milli } => (
            IndexType::BloomFilter,
            ScalarIndexParams::for_builtin(BuiltinIndexType::BloomFilter).with_params(&serde_json::json!({ "number_of_items": items.max(1) as u64, "probability": prob_milli.clamp(1, 999) as f64 / 1000.0 })),
        ),
        Kind::NGram => (IndexType::NGram, ScalarIndexParams::for_builtin(BuiltinIndexType::NGram)),
    }
}

pub enum Outcome {
    Committed,
    Rejected(String),
    NoOp,
}

fn lerr(e: lance::Error) -> String {
    format!("{e}")
}

impl Tbl {
    pub async fn create(cfg: &Cfg, initial: &[u16], max_rows_per_file: usize) -> Result<Tbl, String> {
        let store = VStore::new();
        let session = new_session(&store);
        let handler = handler_of(cfg.handler);
        let schema = schema_of(cfg);
        let tcfg = TableCfg { cols: vec![], stable_row_ids: cfg.stable_row_ids, storage: 1 + (cfg.storage + 2) % 3, v2_manifest: cfg.v2_manifest, handler: cfg.handler };
        let rows: Vec<Row> = initial.iter().enumerate().map(|(i, s)| mk_row(&schema, i as i64, *s)).collect();
        let uri = store::uri("t");
        let arrow = Arc::new(schema.arrow());
        let reader = RecordBatchIterator::new(vec![Ok(rows_to_batch(&schema, &rows))], arrow);
        let params = mk_write_params(&handler, &tcfg, &session, WriteMode::Create, max_rows_per_file);
        let ds = Dataset::write(reader, &uri, Some(params)).await.map_err(lerr)?;
        Ok(Tbl { store, session, handler, tcfg, uri, ds, schema, next_uid: rows.len() as i64, rows, kind: cfg.kind, history: vec![], misplaced: BTreeMap::new(), trained_frags: BTreeSet::new(), deferred_remap_since_training: false })
    }

    fn pick_uids(&self, picks: &[u16]) -> Vec<i64> {
        let mut uids: Vec<i64> = self.rows.iter().map(|r| r.uid).collect();
        uids.sort_unstable();
        let mut out: BTreeSet<i64> = BTreeSet::new();
        for p in picks {
            if !uids.is_empty() {
                out.insert(uids[idx(*p, uids.len())]);
            }
        }
        out.into_iter().collect()
    }

    /// the rows a training run over all fragments (`fresh`) or over the fragments no delta covers yet would misplace
    async fn training_plan(&self, fresh: bool) -> BTreeMap<u64, &'static str> {
        let zone = match self.kind {
            Kind::ZoneMap { rows_per_zone } => rows_per_zone.max(1) as usize,
            Kind::Bloom { items, .. } => items.max(1) as usize,
            Kind::NGram => return BTreeMap::new(),
        };
        let mut frags: Vec<(u32, bool)> = if fresh {
            self.ds.get_fragments().iter().map(|f| (f.metadata().id as u32, f.metadata().deletion_file.is_some())).collect()
        } else {
            match self.ds.unindexed_fragments(IDX_NAME).await {
                Ok(v) => v.iter().map(|f| (f.id as u32, f.deletion_file.is_some())).collect(),
                Err(_) => vec![],
            }
        };
        frags.sort_unstable();
        let with_del: BTreeSet<u32> = frags.iter().filter(|f| f.1).map(|f| f.0).collect();
        let mut after_gap: BTreeSet<u32> = BTreeSet::new();
        let mut gap = false;
        for w in frags.windows(2) {
            if w[1].0 != w[0].0 + 1 {
                gap = true;
            }
            if gap {
                after_gap.insert(w[1].0);
            }
        }
        let ids: BTreeSet<u32> = frags.iter().map(|f| f.0).collect();
        let mut addrs: Vec<u64> = match self.row_meta().await {
            Ok(m) => m.iter().map(|x| x.2).filter(|a| ids.contains(&((*a >> 32) as u32))).collect(),
            Err(_) => vec![],
        };
        addrs.sort_unstable();
        let mut out = BTreeMap::new();
        for a in simulate_zones(&addrs, zone) {
            let f = (a >> 32) as u32;
            let id = if with_del.contains(&f) {
                "C20-zone-offsets-ignore-deletions"
            } else if after_gap.contains(&f) {
                "C20-zone-fragment-id-gap"
            } else {
                "C20-zone-spans-fragment-boundary"
            };
            out.insert(a, id);
        }
        out
    }

    pub async fn create_index(&mut self, replace: bool) -> Result<(), String> {
        let (ty, params) = index_params(self.kind);
        let plan = self.training_plan(true).await;
        let frags: BTreeSet<u32> = self.ds.get_fragments().iter().map(|f| f.metadata().id as u32).collect();
        let r = self.ds.create_index(&[C0], ty, Some(IDX_NAME.to_string()), &params, replace).await.map_err(lerr);
        if r.is_ok() {
            self.misplaced = plan;
            self.trained_frags = frags;
            self.deferred_remap_since_training = false;
        }
        r
    }

    pub async fn apply(&mut self, op: &XOp, obs: &mut Obs) -> Result<Outcome, Failure> {
        let before = self.ds.version().version;
        let res: Result<(), String> = match op {
            XOp::Append { rows, max_rows_per_file } => {
                let rs: Vec<Row> = rows
                    .iter()
                    .map(|s| {
                        let u = self.next_uid;
                        self.next_uid += 1;
                        mk_row(&self.schema, u, *s)
                    })
                    .collect();
                let arrow = Arc::new(self.schema.arrow());
                let reader = RecordBatchIterator::new(vec![Ok(rows_to_batch(&self.schema, &rs))], arrow);
                let params = mk_write_params(&self.handler, &self.tcfg, &self.session, WriteMode::Append, *max_rows_per_file as usize);
                let r = self.ds.append(reader, Some(params)).await.map_err(lerr);
                if r.is_ok() {
                    self.rows.extend(rs);
                }
                r
            }
            XOp::Delete { block, picks } => {
                let mut uids: Vec<i64> = self.rows.iter().map(|r| r.uid).collect();
                uids.sort_unstable();
                if uids.is_empty() {
                    return Ok(Outcome::NoOp);
                }
                let (sql, gone): (String, BTreeSet<i64>) = match block {
                    Some((a, b)) => {
                        let (i, j) = (idx(*a, uids.len()), idx(*b, uids.len()));
                        let (i, j) = (i.min(j), i.max(j));
                        let (lo, hi) = (uids[i], uids[j]);
                        obs.label("delete-block");
                        (format!("uid >= {lo} AND uid <= {hi}"), uids.iter().copied().filter(|u| *u >= lo && *u <= hi).collect())
                    }
                    None => {
                        let p = self.pick_uids(picks);
                        if p.is_empty() {
                            return Ok(Outcome::NoOp);
                        }
                        (format!("uid IN ({})", p.iter().map(|u| u.to_string()).collect::<Vec<_>>().join(", ")), p.into_iter().collect())
                    }
                };
                let r = self.ds.delete(&sql).await.map_err(lerr);
                if r.is_ok() {
                    self.rows.retain(|r| !gone.contains(&r.uid));
                }
                r
            }
            XOp::Update { picks, lit } => {
                let p = self.pick_uids(picks);
                if p.is_empty() {
                    return Ok(Outcome::NoOp);
                }
                let c0 = self.schema.cols[0].clone();
                let v = finite(val20(c0.ty, c0.nullable, *lit));
                let sql = format!("uid IN ({})", p.iter().map(|u| u.to_string()).collect::<Vec<_>>().join(", "));
                let set = if v.is_null() { "NULL".to_string() } else { lit_sql(&v, c0.ty) };
                let job = UpdateBuilder::new(Arc::new(self.ds.clone())).update_where(&sql).and_then(|b| b.set(C0, &set)).and_then(|b| b.build());
                let r = match job {
                    Ok(j) => j.execute().await.map(|_| ()).map_err(lerr),
                    Err(e) => Err(lerr(e)),
                };
                if r.is_ok() {
                    for row in self.rows.iter_mut() {
                        if p.contains(&row.uid) {
                            row.vals[0] = v.clone();
                        }
                    }
                }
                r
            }
            XOp::Compact { target_rows, materialize, defer_remap } => {
                let opts = CompactionOptions {
                    target_rows_per_fragment: (*target_rows).max(1) as usize,
                    materialize_deletions: *materialize,
                    materialize_deletions_threshold: 0.0,
                    defer_index_remap: *defer_remap,
                    num_threads: Some(1),
                    ..Default::default()
                };
                let r = compact_files(&mut self.ds, opts, None).await.map(|_| ()).map_err(lerr);
                if r.is_ok() && *defer_remap {
                    self.deferred_remap_since_training = true;
                }
                r
            }
            XOp::CreateIndex => self.create_index(true).await,
            XOp::OptimizeIndices { mode } => {
                let opts = match mode % 3 {
                    0 => OptimizeOptions::append(),
                    1 => OptimizeOptions::merge(2),
                    _ => OptimizeOptions::default(),
                };
                let plan = self.training_plan(false).await;
                // only the fragments no delta claims are trained
                let frags: BTreeSet<u32> = match self.ds.unindexed_fragments(IDX_NAME).await {
                    Ok(v) => v.iter().map(|f| f.id as u32).collect(),
                    Err(_) => BTreeSet::new(),
                };
                let r = self.ds.optimize_indices(&opts).await.map_err(lerr);
                if r.is_ok() {
                    self.misplaced.extend(plan);
                    self.trained_frags.extend(frags);
                }
                r
            }
            XOp::Reopen => {
                self.session = new_session(&self.store);
                self.ds = DatasetBuilder::from_uri(&self.uri)
                    .with_session(self.session.clone())
                    .with_commit_handler(self.handler.clone())
                    .load()
                    .await
                    .map_err(|e| Failure::new("reopen-error", format!("{e}")))?;
                self.history.push("reopen");
                return Ok(Outcome::Committed);
            }
        };
        self.ds.checkout_latest().await.map_err(|e| Failure::new("checkout-latest-error", format!("{e}")))?;
        match res {
            Err(m) => {
                obs.rejected += 1;
                obs.label(format!("rejected:{}:{}", op.kind(), truncate_str(&m, 50)));
                Ok(Outcome::Rejected(m))
            }
            Ok(()) => {
                if self.ds.version().version == before {
                    return Ok(Outcome::NoOp);
                }
                self.history.push(op.kind());
                Ok(Outcome::Committed)
            }
        }
    }

    /// every visible row: (uid, row id, row address)
    pub async fn row_meta(&self) -> Result<Vec<(i64, u64, u64)>, String> {
        let mut sc = self.ds.scan();
        sc.project(&[UID]).map_err(lerr)?;
        sc.with_row_id();
        sc.with_row_address();
        let batches: Vec<RecordBatch> = sc.try_into_stream().await.map_err(lerr)?.try_collect().await.map_err(lerr)?;
        let mut out = vec![];
        for b in &batches {
            let uid = b.column_by_name(UID).and_then(|c| c.as_any().downcast_ref::<Int64Array>().cloned()).ok_or("no uid column")?;
            let rid = b.column_by_name("_rowid").and_then(|c| c.as_any().downcast_ref::<UInt64Array>().cloned()).ok_or("no _rowid column")?;
            let addr = b.column_by_name("_rowaddr").and_then(|c| c.as_any().downcast_ref::<UInt64Array>().cloned()).ok_or("no _rowaddr column")?;
            for i in 0..b.num_rows() {
                out.push((uid.value(i), rid.value(i), addr.value(i)));
            }
        }
        Ok(out)
    }

    /// the whole table equals the model (multiset)
    pub async fn verify(&self, what: &str) -> CheckResult {
        let got = crate::world::scan_rows(&self.ds, &self.schema, false).await.map_err(|m| Failure::new("scan-error", format!("{what}: {m}")))?;
        let mut g = got.clone();
        g.sort();
        let mut w = self.rows.clone();
        w.sort();
        if g != w {
            return Err(Failure::new("rows-mismatch", format!("{what}: {}", crate::world::diff_rows(&got, &self.rows))));
        }
        Ok(())
    }
}

#[derive(Default, Debug, Clone)]
pub struct Summary {
    /// probes for which the index pruned >= 1 live covered row and >= 1 row matched
    pub nontrivial_probes: u32,
    pub index_used: u32,
    pub col_has_null: bool,
    pub col_has_nan: bool,
}

/// Check the predicate panel at both levels on the current table state.
pub async fn check_panel(t: &Tbl, probes: &[u16], obs: &mut Obs, env: &Env, what: &str, sum: &mut Summary) -> CheckResult {
    let trace = std::env::var("VERIF_TRACE").is_ok();
    let metas = t.ds.load_indices_by_name(IDX_NAME).await.map_err(|e| Failure::new("load-indices-error", format!("{what}: {e}")))?;
    if metas.is_empty() {
        obs.label("index-gone");
    }
    let meta = t.row_meta().await.map_err(|m| Failure::new("scan-error", format!("{what}: row meta: {m}")))?;
    let by_uid: BTreeMap<i64, (u64, u64)> = meta.iter().map(|(u, r, a)| (*u, (*r, *a))).collect();
    if by_uid.len() != t.rows.len() {
        return Err(Failure::new("rows-mismatch", format!("{what}: {} rows with row ids, model has {}", by_uid.len(), t.rows.len())));
    }
    let c0 = &t.schema.cols[0];
    sum.col_has_null |= t.rows.iter().any(|r| r.vals[0].is_null());
    sum.col_has_nan |= t.rows.iter().any(|r| matches!(&r.vals[0], Val::F(b) if f64::from_bits(*b).is_nan()));
    let float_special = c0.ty.is_float() || t.schema.cols.get(1).map(|c| c.ty.is_float()).unwrap_or(false);
    // open every delta once
    let mut deltas = vec![];
    for m in &metas {
        let idx = t.ds.open_scalar_index(C0, &m.uuid.to_string(), &NoOpMetricsCollector).await.map_err(|e| Failure::new("open-index-error", format!("{what}: {e}")))?;
        deltas.push((m.fragment_bitmap.clone(), idx));
    }
    obs.label(format!("deltas:{}", deltas.len().min(3)));
    if trace {
        eprintln!("[c20] ---- {what}: history {:?}", t.history);
        for f in t.ds.get_fragments() {
            eprintln!("[c20]   fragment {} physical_rows={:?} deletion_file={}", f.metadata().id, f.metadata().physical_rows, f.metadata().deletion_file.is_some());
        }
        for m in &metas {
            eprintln!("[c20]   delta {} fragment_bitmap={:?}", m.uuid, m.fragment_bitmap.as_ref().map(|b| b.iter().collect::<Vec<_>>()));
        }
        for r in &t.rows {
            let (rid, addr) = by_uid[&r.uid];
            eprintln!("[c20]   row uid={} c0={} rowid={rid} addr={addr:#x}", r.uid, r.vals[0].short());
        }
        eprintln!("[c20]   misplaced by training (simulated)={:?}", t.misplaced.iter().map(|(a, id)| format!("{a:#x}:{id}")).collect::<Vec<_>>());
    }
    'probe: for p in panel(t.kind, &t.schema, probes) {
        let sql = p.sql();
        if matches!(t.kind, Kind::NGram) && sql.contains(UPPER_FOLD) && env.known("C20-ngram-fold-uppercase-panic") {
            obs.known_hit("C20-ngram-fold-uppercase-panic", format!("needle in {sql:?} folds to an upper-case letter"));
            continue;
        }
        let mut want: Vec<i64> = t.rows.iter().filter(|r| p.eval(&t.schema, r) == Some(true)).map(|r| r.uid).collect();
        want.sort_unstable();
        let without = match filtered_uids(&t.ds, &sql, false).await {
            Ok(v) => v,
            Err(m) => {
                if filtered_uids(&t.ds, &sql, true).await.is_ok() {
                    return Err(Failure::new("unindexed-scan-error", format!("{what}: {sql:?} fails only without the index: {m}")));
                }
                obs.rejected += 1;
                obs.label(format!("planner-rejected:{}", truncate_str(&m, 40)));
                continue;
            }
        };
        obs.inner += 1;
        let uses_special_literal = sql.contains("NaN") || sql.contains("Infinity");
        let big_literal = sql.split(|c: char| !c.is_ascii_digit()).any(|t| t.len() >= 19 && t.parse::<i64>().is_err());
        if without != want && !float_special && !uses_special_literal && !big_literal {
            return Err(Failure::new("unindexed-vs-model", format!("{what}: {sql:?} without index returns uids {without:?}, model {want:?}")));
        }
        // ---- level (a): the index's own answer
        if let Some(q) = direct_query(t.kind, &p) {
            let matching: BTreeSet<i64> = without.iter().copied().collect();
            let mut pruned = 0usize;
            let mut covered = 0usize;
            for (di, (bitmap, index)) in deltas.iter().enumerate() {
                let res = match index.search(q.any(), &NoOpMetricsCollector).await {
                    Ok(r) => r,
                    Err(e) => return Err(Failure::new("index-search-error", format!("{what}: {sql:?}: search on delta {di} failed: {e}"))),
                };
                let kind_name = match &res {
                    SearchResult::Exact(_) => "exact",
                    SearchResult::AtMost(_) => "at-most",
                    SearchResult::AtLeast(_) => "at-least",
                };
                obs.label(format!("search:{}:{kind_name}", t.kind.name()));
                let set = res.row_ids();
                if trace {
                    let inside: Vec<i64> = by_uid.iter().filter(|(_, (rid, addr))| set.contains(if matches!(t.kind, Kind::NGram) { *rid } else { *addr })).map(|(u, _)| *u).collect();
                    eprintln!("[c20]   {sql:?}: delta {di} {kind_name} len={:?} live uids inside={inside:?}; matching={matching:?}", set.len());
                }
                for (uid, (rid, addr)) in &by_uid {
                    let frag = (*addr >> 32) as u32;
                    if !bitmap.as_ref().map(|b| b.contains(frag)).unwrap_or(false) {
                        continue;
                    }
                    covered += 1;
                    // zone maps and bloom filters are trained on row addresses, n-gram on row ids
                    let key = if matches!(t.kind, Kind::NGram) { *rid } else { *addr };
                    let inside = set.contains(key);
                    let m = matching.contains(uid);
                    let row = || t.rows.iter().find(|r| r.uid == *uid).map(|r| r.vals[0].short()).unwrap_or_default();
                    match &res {
                        SearchResult::AtMost(_) | SearchResult::Exact(_) if m && !inside => {
                            let detail = format!("{what}: {sql:?}: {} search ({kind_name}) on delta {di} does not contain matching row uid {uid} (value {}, row id {rid}, address {addr:#x})", t.kind.name(), row());
                            if let Some(id) = classify_drop(t, env, &p, *rid, *addr, false) {
                                obs.known_hit(id, detail);
                                continue 'probe;
                            }
                            return Err(Failure::new("index-search-dropped-row", detail));
                        }
                        SearchResult::AtLeast(_) | SearchResult::Exact(_) if inside && !m => {
                            return Err(Failure::new("index-search-false-guarantee", format!("{what}: {sql:?}: {} search ({kind_name}) on delta {di} guarantees row uid {uid} (value {}) which does not match", t.kind.name(), row())));
                        }
                        _ => {}
                    }
                    if !inside {
                        pruned += 1;
                    }
                }
            }
            obs.inner += 1;
            if covered > 0 && pruned > 0 && !matching.is_empty() {
                sum.nontrivial_probes += 1;
                obs.label(format!("pruned-and-matched:{}", t.kind.name()));
            }
            if covered > 0 && pruned > 0 {
                obs.label("index-pruned-rows");
            }
        }
        // ---- level (b): scan with the index
        let with = match filtered_uids(&t.ds, &sql, true).await {
            Ok(v) => v,
            Err(m) => return Err(Failure::new("indexed-scan-error", format!("{what}: {sql:?} fails only with the index: {m}"))),
        };
        if trace {
            eprintln!("[c20]   {sql:?}: with index {with:?}, without {without:?}, model {want:?}");
        }
        if with != without {
            let missing: Vec<i64> = without.iter().filter(|u| !with.contains(u)).copied().collect();
            let extra: Vec<i64> = with.iter().filter(|u| !without.contains(u)).copied().collect();
            let detail = format!("{what}: {sql:?} with the {} index returns uids {with:?}, without {without:?} (missing {missing:?}, extra {extra:?})", t.kind.name());
            if !missing.is_empty() {
                // every missing row must be explained by a listed finding
                let mut ids: Vec<&'static str> = vec![];
                for u in &missing {
                    let (rid, addr) = by_uid[u];
                    match classify_drop(t, env, &p, rid, addr, true) {
                        Some(id) => ids.push(id),
                        None => return Err(Failure::new("indexed-scan-dropped-row", detail)),
                    }
                }
                if extra.is_empty() {
                    obs.known_hit(ids[0], detail);
                    continue 'probe;
                }
            }
            return Err(Failure::new("indexed-scan-extra-row", detail));
        }
        if plan_uses_scalar_index(&t.ds, &sql).await {
            sum.index_used += 1;
            obs.label("index-actually-used");
        }
    }
    Ok(())
}

/// Known findings: the structural feature that triggers each one (narrow), or None.  `rid` / `addr` identify the
/// dropped row; `scan` = the row was dropped by the scan (level b) rather than by the index's own answer.
fn classify_drop(t: &Tbl, env: &Env, p: &PExpr, rid: u64, addr: u64, scan: bool) -> Option<&'static str> {
    let frag = (addr >> 32) as u32;
    let zoned = matches!(t.kind, Kind::ZoneMap { .. } | Kind::Bloom { .. });
    if matches!(t.kind, Kind::NGram) {
        // a needle of >= 3 bytes without any alphanumeric trigram after lower-casing / ASCII folding (anywhere in the filter)
        let mut needles = vec![];
        collect_needles(p, &mut needles);
        if needles.iter().any(|sub| sub.len() >= 3 && !has_alnum_trigram(sub)) && env.known("C20-ngram-needle-without-trigram") {
            return Some("C20-ngram-needle-without-trigram");
        }
    }
    let _ = frag;
    // the filtered read plans only the guaranteed rows of an AtLeast answer (short n-gram needle, negation over an
    // inexact leaf): matching rows outside the guarantee are never read
    if scan && result_kind(t.kind, p) == RK::AtLeast && env.known("C20-atleast-result-read-as-exact") {
        return Some("C20-atleast-result-read-as-exact");
    }
    if zoned {
        if let Some(id) = t.misplaced.get(&addr) {
            if env.known(id) {
                return Some(id);
            }
        }
    }
    // a compaction with deferred index remap re-labels the delta's fragment bitmap through the fragment reuse index,
    // but zone maps / bloom filters ignore that index when they answer
    if zoned && t.deferred_remap_since_training && !t.trained_frags.contains(&frag) && env.known("C20-zone-deferred-remap-ignored") {
        return Some("C20-zone-deferred-remap-ignored");
    }
    // on a table with stable row ids the answer (addresses as of training time) is read as row ids and is never
    // remapped: every row whose row id differs from its address is affected, at both levels
    if zoned && t.tcfg.stable_row_ids && rid != addr && env.known("C20-zone-addresses-as-stable-row-ids") {
        return Some("C20-zone-addresses-as-stable-row-ids");
    }
    None
}

/// kind of answer the scalar index expression of a filter evaluates to (port of ScalarIndexExpr::evaluate's
/// Exact / AtMost / AtLeast algebra in lance-index/src/scalar/expression.rs, for the predicate shapes of `panel`)
#[derive(Clone, Copy, Debug, PartialEq, Eq)]
pub enum RK {
    NoIndex,
    Exact,
    AtMost,
    AtLeast,
}

pub fn result_kind(kind: Kind, p: &PExpr) -> RK {
    let flip = |k: RK| match k {
        RK::AtMost => RK::AtLeast,
        RK::AtLeast => RK::AtMost,
        k => k,
    };
    match p {
        PExpr::Contains { col, sub } => {
            if col != C0 || !matches!(kind, Kind::NGram) {
                RK::NoIndex
            } else if sub.len() < 3 {
                RK::AtLeast
            } else {
                RK::AtMost
            }
        }
        PExpr::B(b) => {
            let mut cols = vec![];
            b.columns(&mut cols);
            if cols != [C0.to_string()] || matches!(kind, Kind::NGram) {
                return RK::NoIndex;
            }
            let bloom = matches!(kind, Kind::Bloom { .. });
            match b {
                BExpr::Cmp { op: CmpOp::Eq, .. } => RK::AtMost,
                BExpr::Cmp { op: CmpOp::Ne, .. } => RK::AtLeast,
                BExpr::Cmp { .. } | BExpr::Between { .. } => {
                    // a negated BETWEEN is planned as `c < lo OR c > hi`: two at-most answers
                    if bloom {
                        RK::NoIndex
                    } else {
                        RK::AtMost
                    }
                }
                BExpr::InList { negated, .. } => {
                    if *negated {
                        RK::AtLeast
                    } else {
                        RK::AtMost
                    }
                }
                BExpr::IsNull { .. } => RK::AtMost,
                BExpr::IsNotNull { .. } => RK::AtLeast,
                _ => RK::NoIndex,
            }
        }
        PExpr::Not(a) => flip(result_kind(kind, a)),
        PExpr::And(a, b) => match (result_kind(kind, a), result_kind(kind, b)) {
            (RK::NoIndex, k) | (k, RK::NoIndex) => k,
            (RK::Exact, RK::Exact) => RK::Exact,
            (RK::AtLeast, RK::AtLeast) => RK::AtLeast,
            _ => RK::AtMost,
        },
        PExpr::Or(a, b) => match (result_kind(kind, a), result_kind(kind, b)) {
            (RK::NoIndex, _) | (_, RK::NoIndex) => RK::NoIndex,
            (RK::Exact, RK::Exact) => RK::Exact,
            (RK::AtLeast, _) | (_, RK::AtLeast) => RK::AtLeast,
            _ => RK::AtMost,
        },
    }
}

/// the one generated character that tantivy's AsciiFoldingFilter maps to an UPPER-case ASCII letter after lower-casing
const UPPER_FOLD: char = 'ᴀ';

fn folds_to_upper_present(t: &Tbl) -> bool {
    matches!(t.kind, Kind::NGram) && t.rows.iter().any(|r| matches!(&r.vals[0], Val::S(s) if s.contains(UPPER_FOLD)))
}

fn op_brings_upper_fold(t: &Tbl, op: &XOp) -> bool {
    let c0 = &t.schema.cols[0];
    match op {
        XOp::Append { rows, .. } => rows.iter().any(|s| matches!(val20(c0.ty, c0.nullable, *s), Val::S(v) if v.contains(UPPER_FOLD))),
        XOp::Update { lit, .. } => matches!(val20(c0.ty, c0.nullable, *lit), Val::S(v) if v.contains(UPPER_FOLD)),
        _ => false,
    }
}

/// Port of ZoneMapIndexBuilder::train / BloomFilterIndexBuilder::train (zonemap.rs, bloomfilter.rs): the address-ordered
/// live rows are cut into batches of `zone` rows; returns the addresses of the rows that end up in a zone whose
/// claimed range (label fragment, start = sum of earlier zone lengths of that label, length) does not contain them.
/// Used only to attribute an observed drop to the listed findings about that routine.
pub fn simulate_zones(addrs: &[u64], zone: usize) -> Vec<u64> {
    struct Z {
        frag: u64,
        start: u64,
        members: Vec<u64>,
    }
    let mut maps: Vec<Z> = vec![];
    let mut pending: Vec<u64> = vec![];
    let mut cur_fragment_id: u64 = 0;
    fn new_map(maps: &mut Vec<Z>, pending: &mut Vec<u64>, frag: u64) {
        let start: u64 = maps.iter().filter(|z| z.frag == frag).map(|z| z.members.len() as u64).sum();
        maps.push(Z { frag, start, members: std::mem::take(pending) });
    }
    for batch in addrs.chunks(zone.max(1)) {
        if maps.is_empty() && pending.is_empty() {
            cur_fragment_id = batch[0] >> 32;
        }
        let mut remaining = batch.len();
        let mut array_offset = 0usize;
        let mut guard = 0;
        while remaining > 0 {
            guard += 1;
            if guard > 10_000 {
                break;
            }
            let next_fragment_index = (array_offset..batch.len()).find(|i| batch[*i] >> 32 == cur_fragment_id + 1);
            let empty_left = zone - pending.len();
            let desired = match next_fragment_index {
                Some(i) => {
                    cur_fragment_id = batch[i] >> 32;
                    (i - array_offset).min(empty_left)
                }
                None => empty_left,
            };
            if desired > remaining {
                pending.extend_from_slice(&batch[array_offset..array_offset + remaining]);
                break;
            } else if desired > 0 {
                pending.extend_from_slice(&batch[array_offset..array_offset + desired]);
                new_map(&mut maps, &mut pending, batch[array_offset] >> 32);
            } else {
                if !pending.is_empty() {
                    new_map(&mut maps, &mut pending, cur_fragment_id.wrapping_sub(1));
                }
                continue;
            }
            array_offset += desired;
            remaining = remaining.saturating_sub(desired);
        }
    }
    if !pending.is_empty() {
        new_map(&mut maps, &mut pending, cur_fragment_id);
    }
    let mut out = vec![];
    for z in &maps {
        let lo = (z.frag << 32) + z.start;
        let hi = lo + z.members.len() as u64;
        for a in &z.members {
            if *a < lo || *a >= hi {
                out.push(*a);
            }
        }
    }
    out
}

fn collect_needles<'a>(p: &'a PExpr, out: &mut Vec<&'a str>) {
    match p {
        PExpr::Contains { col, sub } if col == C0 => out.push(sub.as_str()),
        PExpr::Not(a) => collect_needles(a, out),
        PExpr::And(a, b) | PExpr::Or(a, b) => {
            collect_needles(a, out);
            collect_needles(b, out);
        }
        _ => {}
    }
}

/// does the needle produce at least one trigram token?  The tokenizer lower-cases, ASCII-folds and keeps the
/// 3-grams that are entirely ASCII alphanumeric; the folding below covers the characters this module generates.
fn has_alnum_trigram(s: &str) -> bool {
    let mut folded: Vec<char> = vec![];
    for c in s.to_lowercase().chars() {
        match c {
            'é' => folded.push('e'),
            'à' => folded.push('a'),
            'ß' => folded.extend(['s', 's']),
            c => folded.push(c),
        }
    }
    folded.windows(3).any(|w| w.iter().all(|c| c.is_ascii_alphanumeric()))
}

pub async fn run(input: &Input, obs: &mut Obs, env: &Env) -> Result<Summary, Failure> {
    let mut sum = Summary::default();
    let mut t = match Tbl::create(&input.cfg, &input.initial, input.init_file_rows.max(1) as usize).await {
        Ok(t) => t,
        Err(m) => {
            obs.rejected += 1;
            obs.label(format!("rejected:create:{}", truncate_str(&m, 40)));
            return Ok(sum);
        }
    };
    obs.label(format!("kind:{}", t.kind.name()));
    obs.label(format!("type:{:?}", t.schema.cols[0].ty));
    if input.cfg.stable_row_ids {
        obs.label("stable-row-ids");
    }
    for (i, op) in input.pre.iter().enumerate() {
        if matches!(op, XOp::CreateIndex | XOp::OptimizeIndices { .. }) {
            continue;
        }
        t.apply(op, obs).await.map_err(|f| Failure::new(f.kind, format!("pre step {i} ({}): {}", op.kind(), f.msg)))?;
    }
    t.verify("before index creation").await?;
    if folds_to_upper_present(&t) && env.known("C20-ngram-fold-uppercase-panic") {
        obs.known_hit("C20-ngram-fold-uppercase-panic", "a stored string holds a character that ASCII-folds to an upper-case letter (small capital A): ngram_to_token overflows");
        return Ok(sum);
    }
    if let Err(m) = t.create_index(false).await {
        obs.rejected += 1;
        obs.label(format!("rejected:create_index:{}", truncate_str(&m, 60)));
        return Ok(sum);
    }
    t.ds.checkout_latest().await.map_err(|e| Failure::new("checkout-latest-error", format!("{e}")))?;
    t.history.push("create_index");
    check_panel(&t, &input.probes, obs, env, "after index creation", &mut sum).await?;
    for (i, op) in input.post.iter().enumerate() {
        if matches!(t.kind, Kind::NGram) && op_brings_upper_fold(&t, op) && env.known("C20-ngram-fold-uppercase-panic") {
            obs.known_hit("C20-ngram-fold-uppercase-panic", "a string that ASCII-folds to an upper-case letter reaches the n-gram tokenizer");
            break;
        }
        let out = t.apply(op, obs).await.map_err(|f| Failure::new(f.kind, format!("step {i} ({}): {}", op.kind(), f.msg)))?;
        if !matches!(out, Outcome::Committed) {
            continue;
        }
        let what = format!("after step {i} ({})", op.kind());
        t.verify(&what).await?;
        check_panel(&t, &input.probes, obs, env, &what, &mut sum).await?;
    }
    if sum.nontrivial_probes > 0 {
        obs.nontrivial(format!("{}|{:?}|{}|{}", t.kind.name(), t.schema.cols[0].ty, t.history.join(","), sum.nontrivial_probes.min(8)));
    }
    Ok(sum)
}

// ---------------------------------------------------------------------------
// strategies

/// indices into ColType::ALL usable for each index kind
const ZONE_TYPES: &[u8] = &[0, 1, 2, 3, 4, 5, 6, 7, 8, 9, 10, 11, 13, 14, 9, 8, 10];
const BLOOM_TYPES: &[u8] = &[0, 1, 2, 3, 4, 5, 6, 7, 8, 9, 10, 11, 13, 14, 10, 9];
const NGRAM_TYPES: &[u8] = &[10, 10, 11];
const EXTRA_TYPES: &[u8] = &[2, 3, 9, 10, 12];

pub fn kind_zonemap() -> BoxedStrategy<Kind> {
    (1u8..9).prop_map(|rows_per_zone| Kind::ZoneMap { rows_per_zone }).boxed()
}
fn kind_bloom() -> BoxedStrategy<Kind> {
    (1u8..17, prop_oneof![Just(500u16), Just(100), Just(10), Just(1)]).prop_map(|(items, prob_milli)| Kind::Bloom { items, prob_milli }).boxed()
}

fn xop(after_index: bool) -> BoxedStrategy<XOp> {
    let append = (prop::collection::vec(0u16..96, 1..14), prop_oneof![Just(3u16), Just(5), Just(1000)]).prop_map(|(rows, m)| XOp::Append { rows, max_rows_per_file: m }).boxed();
    let delete = (prop::option::weighted(0.4, (any::<u16>(), any::<u16>())), prop::collection::vec(any::<u16>(), 1..5)).prop_map(|(block, picks)| XOp::Delete { block, picks }).boxed();
    let update = (prop::collection::vec(any::<u16>(), 1..4), 0u16..96).prop_map(|(picks, lit)| XOp::Update { picks, lit }).boxed();
    let compact = (prop_oneof![Just(4u16), Just(8), Just(1000)], any::<bool>(), prop::bool::weighted(0.3)).prop_map(|(target_rows, materialize, defer_remap)| XOp::Compact { target_rows, materialize, defer_remap }).boxed();
    if after_index {
        prop_oneof![
            5 => append,
            3 => delete,
            2 => update,
            2 => compact,
            1 => Just(XOp::CreateIndex),
            4 => (0u8..3).prop_map(|mode| XOp::OptimizeIndices { mode }),
            1 => Just(XOp::Reopen),
        ]
        .boxed()
    } else {
        prop_oneof![3 => append, 3 => delete, 1 => update, 1 => compact].boxed()
    }
}

pub fn input_strategy(kind: BoxedStrategy<Kind>) -> BoxedStrategy<Input> {
    kind.prop_flat_map(|kind| {
        let types: &'static [u8] = match kind {
            Kind::ZoneMap { .. } => ZONE_TYPES,
            Kind::Bloom { .. } => BLOOM_TYPES,
            Kind::NGram => NGRAM_TYPES,
        };
        (
            (Just(kind), prop::sample::select(types), prop::bool::weighted(0.7), prop::option::weighted(0.4, (prop::sample::select(EXTRA_TYPES), any::<bool>())), any::<bool>(), 1u8..4, any::<bool>(), 0u8..2),
            prop::collection::vec(0u16..96, 0..24),
            prop_oneof![Just(4u16), Just(7), Just(1000)],
            prop::collection::vec(xop(false), 0..3),
            prop::collection::vec(xop(true), 0..6),
            prop::collection::vec(0u16..96, 3..7),
        )
    })
    .prop_map(|((kind, ty, nullable, extra, stable_row_ids, storage, v2_manifest, handler), initial, init_file_rows, pre, post, probes)| Input {
        cfg: Cfg { kind, ty, nullable, extra, stable_row_ids, storage, v2_manifest, handler },
        initial,
        init_file_rows,
        pre,
        post,
        probes,
    })
    .boxed()
}

impl Property for C20 {
    type Input = Input;
    fn id(&self) -> &'static str {
        "C20"
    }
    fn rule(&self) -> String {
        "Table uid, c0[, c1] (c0: every integer width, Float32/64 incl. NaN / -0.0 / +-inf, Utf8/LargeUtf8 from a pool with shared trigrams, case/accent variants, separators, multi-byte characters, empty strings, Date32, Timestamp; nullable or not; storage 2.0/2.1/2.2, stable row ids on/off), several fragments. 0-2 operations {append, delete of a uid block or set, update, compaction} run BEFORE an inexact index is created on c0: ZoneMap (rows_per_zone 1-8), BloomFilter (number_of_items 1-16, probability 0.5/0.1/0.01/0.001) or NGram; then 0-5 operations {append (un-indexed tail), delete, update, compaction (immediate or deferred remap), index re-creation, optimize_indices (append/merge/default), reopen with a cold session}. After the creation and after every commit a predicate panel on c0 is checked: zone map =,<>,<,<=,>,>=,[NOT] BETWEEN,[NOT] IN,IS [NOT] NULL, AND/OR with a c1 predicate, NOT; bloom =,<>,[NOT] IN,IS [NOT] NULL (+ a range the parser declines); n-gram contains(c0,'s') with substrings of 0-5 characters of stored strings or absent strings, NOT, AND, OR. Level (a): every index delta is opened with DatasetIndexInternalExt::open_scalar_index and searched with the query the parser would build; for every live row in a fragment the delta covers: AtMost/Exact answers must contain each row the un-indexed scan returns (row address for zone map / bloom, row id for n-gram), Exact/AtLeast answers must not contain a non-matching row. Level (b): the scan with use_scalar_index(true) returns the same uid set as with (false); the un-indexed result equals the model evaluator except where floats are involved. Non-trivial = for some probe the index excluded >= 1 live covered row and >= 1 row matches; distinct by (kind, type, op-kind history).".into()
    }
    fn assumptions(&self) -> Vec<String> {
        vec![
            "legacy (0.1) storage is not generated (scalar-indexed scans on legacy files are a deprecated path, see C16-legacy-index-rowaddr-panic)".into(),
            "deletes address rows by uid only and updates set c0 to a finite literal: the model must not depend on the float comparison dialect".into(),
        ]
    }
    fn cases(&self, tier: Tier) -> u32 {
        tier.pick(900, 9000)
    }
    fn max_shrink_iters(&self) -> u32 {
        300
    }
    fn strategy(&self, _tier: Tier) -> BoxedStrategy<Input> {
        prop_oneof![kind_zonemap(), kind_bloom(), Just(Kind::NGram).boxed()].prop_flat_map(|k| input_strategy(Just(k).boxed())).boxed()
    }
    fn check(&self, input: &Input, obs: &mut Obs, env: &Env) -> CheckResult {
        NAN_MODE.with(|m| m.set(true));
        let r = env.block_on(run(input, obs, env));
        NAN_MODE.with(|m| m.set(false));
        r.map(|_| ())
    }
}
