//! C21 — Index result combination is sound.
//!
//! Two generated domains:
//!  (a) `Expr`: boolean trees over mock index leaves whose reported answer has a
//!      known relation (exact / at-most / at-least) to a known truth set; the
//!      evaluated `IndexExprResult` must keep its guarantee w.r.t. the truth of
//!      the boolean expression.  Small universes are enumerated exhaustively.
//!  (b) `Prog`: programs over `RowIdTreeMap` / `RowIdMask` compared after every
//!      step with an exact finite/co-finite set model.

use crate::engine::*;
use crate::{ensure, fail};
use arrow_array::BinaryArray;
use async_trait::async_trait;
use deepsize::DeepSizeOf;
use lance_core::utils::mask::{RowIdMask, RowIdTreeMap};
use lance_core::Result as LResult;
use lance_index::metrics::{MetricsCollector, NoOpMetricsCollector};
use lance_index::scalar::expression::{IndexExprResult, ScalarIndexExpr, ScalarIndexLoader, ScalarIndexSearch};
use lance_index::scalar::{AnyQuery, CreatedIndex, IndexStore, ScalarIndex, ScalarIndexParams, SearchResult, UpdateCriteria};
use lance_index::{Index, IndexType};
use proptest::prelude::*;
use roaring::RoaringBitmap;
use serde::{Deserialize, Serialize};
use std::any::Any;
use std::collections::{BTreeMap, BTreeSet, HashMap};
use std::sync::Arc;

pub struct C21;

// ---------------------------------------------------------------------------
// inputs

#[derive(Clone, Debug, Serialize, Deserialize, PartialEq)]
pub enum Tree {
    Leaf(u8),
    Not(Box<Tree>),
    And(Box<Tree>, Box<Tree>),
    Or(Box<Tree>, Box<Tree>),
}

/// kind: 0 exact, 1 at-most, 2 at-least.  `truth` and `extra` are bit sets over
/// the universe; the reported set is derived so that the leaf honours its kind:
/// exact: truth; at-most: truth | extra; at-least: truth & !extra.
#[derive(Clone, Debug, Serialize, Deserialize, PartialEq)]
pub struct Leaf {
    pub kind: u8,
    pub truth: u8,
    pub extra: u8,
}

#[derive(Clone, Debug, Serialize, Deserialize, PartialEq)]
pub enum SetOp {
    New,
    Insert { v: u64 },
    InsertRange { start: u64, len: u32, inclusive: bool },
    InsertFragment { f: u32 },
    InsertBitmap { f: u32, offs: Vec<u32> },
    Remove { on: u16, v: u64 },
    FromIter { vs: Vec<u64> },
    FromRange { start: u64, len: u32 },
    Union { a: u16, b: u16 },
    Inter { a: u16, b: u16 },
    Sub { a: u16, b: u16 },
    UnionAll { a: u16, b: u16, c: u16 },
    ExtendIds { on: u16, vs: Vec<u64> },
    ExtendSets { on: u16, b: u16 },
    Serde { a: u16 },
    MaskWith { a: u16, m: u16 },
    RetainFragments { a: u16, fs: Vec<u32> },
    // masks
    MAll,
    MNothing,
    MAllowed { a: u16 },
    MBlock { a: u16 },
    MBoth { a: u16, b: u16 },
    MNot { m: u16 },
    MAnd { m: u16, n: u16 },
    MOr { m: u16, n: u16 },
    MNormalize { m: u16 },
    MAlsoBlock { m: u16, a: u16 },
    MAlsoAllow { allow: Option<u16>, block: Option<u16>, a: u16 },
    MArrow { m: u16 },
}

#[derive(Clone, Debug, Serialize, Deserialize, PartialEq)]
pub enum Input {
    Expr { universe: u8, leaves: Vec<Leaf>, tree: Tree },
    Prog { ops: Vec<SetOp> },
}

// ---------------------------------------------------------------------------
// model: finite / co-finite sets per fragment, with a default for unlisted fragments

#[derive(Clone, Debug, PartialEq)]
enum FragSet {
    Fin(BTreeSet<u32>),
    CoFin(BTreeSet<u32>),
}

impl FragSet {
    fn contains(&self, o: u32) -> bool {
        match self {
            FragSet::Fin(s) => s.contains(&o),
            FragSet::CoFin(s) => !s.contains(&o),
        }
    }
    fn not(&self) -> FragSet {
        match self {
            FragSet::Fin(s) => FragSet::CoFin(s.clone()),
            FragSet::CoFin(s) => FragSet::Fin(s.clone()),
        }
    }
    fn or(&self, o: &FragSet) -> FragSet {
        use FragSet::*;
        match (self, o) {
            (Fin(a), Fin(b)) => Fin(a | b),
            (Fin(a), CoFin(b)) | (CoFin(b), Fin(a)) => CoFin(b - a),
            (CoFin(a), CoFin(b)) => CoFin(a & b),
        }
    }
    fn and(&self, o: &FragSet) -> FragSet {
        self.not().or(&o.not()).not()
    }
    fn card(&self) -> u128 {
        match self {
            FragSet::Fin(s) => s.len() as u128,
            FragSet::CoFin(s) => (1u128 << 32) - s.len() as u128,
        }
    }
    fn is_empty(&self) -> bool {
        matches!(self, FragSet::Fin(s) if s.is_empty())
    }
    fn is_full(&self) -> bool {
        matches!(self, FragSet::CoFin(s) if s.is_empty())
    }
}

#[derive(Clone, Debug, PartialEq)]
struct MSet {
    /// membership of ids in fragments that are not listed
    default: bool,
    frags: BTreeMap<u32, FragSet>,
}

impl MSet {
    fn empty() -> Self {
        Self { default: false, frags: BTreeMap::new() }
    }
    fn all() -> Self {
        Self { default: true, frags: BTreeMap::new() }
    }
    fn get(&self, f: u32) -> FragSet {
        self.frags.get(&f).cloned().unwrap_or_else(|| {
            if self.default {
                FragSet::CoFin(BTreeSet::new())
            } else {
                FragSet::Fin(BTreeSet::new())
            }
        })
    }
    fn contains(&self, id: u64) -> bool {
        self.get((id >> 32) as u32).contains(id as u32)
    }
    fn canon(mut self) -> Self {
        let d = self.default;
        self.frags.retain(|_, s| if d { !s.is_full() } else { !s.is_empty() });
        self
    }
    fn insert(&mut self, id: u64) {
        let f = (id >> 32) as u32;
        let mut s = self.get(f);
        match &mut s {
            FragSet::Fin(x) => {
                x.insert(id as u32);
            }
            FragSet::CoFin(x) => {
                x.remove(&(id as u32));
            }
        }
        self.frags.insert(f, s);
    }
    fn remove(&mut self, id: u64) {
        let f = (id >> 32) as u32;
        let mut s = self.get(f);
        match &mut s {
            FragSet::Fin(x) => {
                x.remove(&(id as u32));
            }
            FragSet::CoFin(x) => {
                x.insert(id as u32);
            }
        }
        self.frags.insert(f, s);
    }
    fn insert_fragment(&mut self, f: u32) {
        self.frags.insert(f, FragSet::CoFin(BTreeSet::new()));
    }
    fn not(&self) -> MSet {
        MSet {
            default: !self.default,
            frags: self.frags.iter().map(|(k, v)| (*k, v.not())).collect(),
        }
    }
    fn or(&self, o: &MSet) -> MSet {
        let keys: BTreeSet<u32> = self.frags.keys().chain(o.frags.keys()).copied().collect();
        MSet {
            default: self.default || o.default,
            frags: keys.into_iter().map(|k| (k, self.get(k).or(&o.get(k)))).collect(),
        }
    }
    fn and(&self, o: &MSet) -> MSet {
        let keys: BTreeSet<u32> = self.frags.keys().chain(o.frags.keys()).copied().collect();
        MSet {
            default: self.default && o.default,
            frags: keys.into_iter().map(|k| (k, self.get(k).and(&o.get(k)))).collect(),
        }
    }
    fn sub(&self, o: &MSet) -> MSet {
        self.and(&o.not())
    }
    /// cardinality (only meaningful when default == false)
    fn card(&self) -> u128 {
        self.frags.values().map(|s| s.card()).sum()
    }
    fn has_cofinite(&self) -> bool {
        self.default || self.frags.values().any(|s| matches!(s, FragSet::CoFin(_)))
    }
    fn enumerate(&self) -> Vec<u64> {
        let mut out = vec![];
        for (f, s) in &self.frags {
            if let FragSet::Fin(x) = s {
                for o in x {
                    out.push(((*f as u64) << 32) | *o as u64);
                }
            }
        }
        out
    }
    /// ids worth probing: every mentioned offset ± 1 in every mentioned fragment
    fn probes(&self, out: &mut BTreeSet<u64>) {
        for (f, s) in &self.frags {
            let x = match s {
                FragSet::Fin(x) | FragSet::CoFin(x) => x,
            };
            for o in x.iter().take(64) {
                for d in [o.wrapping_sub(1), *o, o.wrapping_add(1)] {
                    out.insert(((*f as u64) << 32) | d as u64);
                }
            }
            out.insert((*f as u64) << 32);
            out.insert(((*f as u64) << 32) | u32::MAX as u64);
        }
    }
}

/// Would `lhs -= rhs` (or removing one id) turn a full fragment into a 2^32-bit
/// bitmap?  lance does that correctly but it costs ~0.5 GB per fragment, so the
/// generator skips it (counted under the label "skipped-materialize").
fn would_materialize(lhs: &RowIdTreeMap, rhs: &RowIdTreeMap) -> bool {
    [0u32, 1, 2, 3, 4, 7, u32::MAX].iter().any(|f| {
        let full = lhs.get_fragment_bitmap(*f).is_none() && lhs.contains((*f as u64) << 32);
        full && rhs.get_fragment_bitmap(*f).is_some()
    })
}
fn is_full_frag(s: &RowIdTreeMap, f: u32) -> bool {
    s.get_fragment_bitmap(f).is_none() && s.contains((f as u64) << 32)
}
fn lists_conflict(ms: &[&RowIdMask]) -> bool {
    let mut lists: Vec<&RowIdTreeMap> = vec![];
    for m in ms {
        if let Some(a) = &m.allow_list {
            lists.push(a);
        }
        if let Some(b) = &m.block_list {
            lists.push(b);
        }
    }
    lists.iter().any(|x| lists.iter().any(|y| would_materialize(x, y)))
}

const FRAGS: [u32; 5] = [0, 1, 2, 7, u32::MAX];
const OFFS: [u32; 8] = [0, 1, 2, 3, 65535, 65536, u32::MAX - 1, u32::MAX];

fn base_probes() -> BTreeSet<u64> {
    let mut s = BTreeSet::new();
    for f in FRAGS {
        for o in OFFS {
            s.insert(((f as u64) << 32) | o as u64);
        }
    }
    s.insert(5u64 << 32 | 9);
    s
}

// ---------------------------------------------------------------------------
// strategies

fn id_strategy() -> impl Strategy<Value = u64> {
    (
        prop_oneof![4 => prop::sample::select(FRAGS.to_vec()), 1 => 0u32..4],
        prop_oneof![3 => prop::sample::select(OFFS.to_vec()), 2 => 0u32..12],
    )
        .prop_map(|(f, o)| ((f as u64) << 32) | o as u64)
}

fn range_start() -> impl Strategy<Value = u64> {
    prop_oneof![
        2 => id_strategy(),
        // just below a fragment boundary so that short ranges cross 2^32
        1 => (0u32..3, 0u64..6).prop_map(|(f, d)| (((f as u64) + 1) << 32) - 1 - d),
        1 => Just(0u64),
        1 => (0u64..4).prop_map(|d| u64::MAX - d),
    ]
}

fn set_op() -> impl Strategy<Value = SetOp> {
    let r = || any::<u16>();
    prop_oneof![
        1 => Just(SetOp::New),
        3 => id_strategy().prop_map(|v| SetOp::Insert { v }),
        3 => (range_start(), 0u32..40, any::<bool>()).prop_map(|(start, len, inclusive)| SetOp::InsertRange { start, len, inclusive }),
        2 => prop::sample::select(FRAGS.to_vec()).prop_map(|f| SetOp::InsertFragment { f }),
        1 => (prop::sample::select(FRAGS.to_vec()), prop::collection::vec(prop_oneof![prop::sample::select(OFFS.to_vec()), 0u32..12], 0..5)).prop_map(|(f, offs)| SetOp::InsertBitmap { f, offs }),
        2 => (r(), id_strategy()).prop_map(|(on, v)| SetOp::Remove { on, v }),
        2 => prop::collection::vec(id_strategy(), 0..6).prop_map(|vs| SetOp::FromIter { vs }),
        2 => (range_start(), 0u32..40).prop_map(|(start, len)| SetOp::FromRange { start, len }),
        3 => (r(), r()).prop_map(|(a, b)| SetOp::Union { a, b }),
        3 => (r(), r()).prop_map(|(a, b)| SetOp::Inter { a, b }),
        3 => (r(), r()).prop_map(|(a, b)| SetOp::Sub { a, b }),
        1 => (r(), r(), r()).prop_map(|(a, b, c)| SetOp::UnionAll { a, b, c }),
        1 => (r(), prop::collection::vec(id_strategy(), 0..5)).prop_map(|(on, vs)| SetOp::ExtendIds { on, vs }),
        1 => (r(), r()).prop_map(|(on, b)| SetOp::ExtendSets { on, b }),
        2 => r().prop_map(|a| SetOp::Serde { a }),
        2 => (r(), r()).prop_map(|(a, m)| SetOp::MaskWith { a, m }),
        1 => (r(), prop::collection::vec(prop::sample::select(FRAGS.to_vec()), 0..3)).prop_map(|(a, fs)| SetOp::RetainFragments { a, fs }),
        1 => Just(SetOp::MAll),
        1 => Just(SetOp::MNothing),
        3 => r().prop_map(|a| SetOp::MAllowed { a }),
        3 => r().prop_map(|a| SetOp::MBlock { a }),
        2 => (r(), r()).prop_map(|(a, b)| SetOp::MBoth { a, b }),
        3 => r().prop_map(|m| SetOp::MNot { m }),
        3 => (r(), r()).prop_map(|(m, n)| SetOp::MAnd { m, n }),
        3 => (r(), r()).prop_map(|(m, n)| SetOp::MOr { m, n }),
        1 => r().prop_map(|m| SetOp::MNormalize { m }),
        1 => (r(), r()).prop_map(|(m, a)| SetOp::MAlsoBlock { m, a }),
        1 => (prop::option::of(r()), prop::option::of(r()), r()).prop_map(|(allow, block, a)| SetOp::MAlsoAllow { allow, block, a }),
        2 => r().prop_map(|m| SetOp::MArrow { m }),
    ]
}

fn tree_strategy(nleaves: u8) -> impl Strategy<Value = Tree> {
    let leaf = (0..nleaves).prop_map(Tree::Leaf);
    leaf.prop_recursive(4, 12, 2, |inner| {
        prop_oneof![
            2 => inner.clone().prop_map(|t| Tree::Not(Box::new(t))),
            2 => (inner.clone(), inner.clone()).prop_map(|(a, b)| Tree::And(Box::new(a), Box::new(b))),
            2 => (inner.clone(), inner).prop_map(|(a, b)| Tree::Or(Box::new(a), Box::new(b))),
        ]
    })
}

fn expr_strategy() -> impl Strategy<Value = Input> {
    (1u8..=3).prop_flat_map(|n| {
        (
            prop::collection::vec((0u8..3, 0u8..16, 0u8..16).prop_map(|(kind, truth, extra)| Leaf { kind, truth, extra }), n as usize),
            tree_strategy(n),
        )
            .prop_map(|(leaves, tree)| Input::Expr { universe: 4, leaves, tree })
    })
}

/// all trees of depth <= d over n leaves
fn all_trees(n: u8, d: u32) -> Vec<Tree> {
    let mut cur: Vec<Tree> = (0..n).map(Tree::Leaf).collect();
    for _ in 0..d {
        let mut next = cur.clone();
        for t in &cur {
            next.push(Tree::Not(Box::new(t.clone())));
        }
        for a in &cur {
            for b in &cur {
                next.push(Tree::And(Box::new(a.clone()), Box::new(b.clone())));
                next.push(Tree::Or(Box::new(a.clone()), Box::new(b.clone())));
            }
        }
        next.dedup();
        cur = next;
    }
    cur
}

// ---------------------------------------------------------------------------
// mock index

#[derive(Debug)]
struct MockQuery(u8);
impl AnyQuery for MockQuery {
    fn as_any(&self) -> &dyn Any {
        self
    }
    fn format(&self, col: &str) -> String {
        format!("{col}~{}", self.0)
    }
    fn to_expr(&self, col: String) -> datafusion_expr::Expr {
        datafusion_expr::col(col)
    }
    fn dyn_eq(&self, other: &dyn AnyQuery) -> bool {
        other.as_any().downcast_ref::<MockQuery>().map(|o| o.0 == self.0).unwrap_or(false)
    }
}

#[derive(Debug)]
struct MockIndex {
    kind: u8,
    reported: Vec<u64>,
}
impl DeepSizeOf for MockIndex {
    fn deep_size_of_children(&self, _c: &mut deepsize::Context) -> usize {
        0
    }
}
#[async_trait]
impl Index for MockIndex {
    fn as_any(&self) -> &dyn Any {
        self
    }
    fn as_index(self: Arc<Self>) -> Arc<dyn Index> {
        self
    }
    fn as_vector_index(self: Arc<Self>) -> LResult<Arc<dyn lance_index::vector::VectorIndex>> {
        unimplemented!()
    }
    fn statistics(&self) -> LResult<serde_json::Value> {
        Ok(serde_json::Value::Null)
    }
    async fn prewarm(&self) -> LResult<()> {
        Ok(())
    }
    fn index_type(&self) -> IndexType {
        IndexType::BTree
    }
    async fn calculate_included_frags(&self) -> LResult<RoaringBitmap> {
        Ok(RoaringBitmap::new())
    }
}
#[async_trait]
impl ScalarIndex for MockIndex {
    async fn search(&self, _q: &dyn AnyQuery, _m: &dyn MetricsCollector) -> LResult<SearchResult> {
        let set: RowIdTreeMap = self.reported.iter().copied().collect();
        Ok(match self.kind {
            0 => SearchResult::Exact(set),
            1 => SearchResult::AtMost(set),
            _ => SearchResult::AtLeast(set),
        })
    }
    fn can_remap(&self) -> bool {
        false
    }
    async fn remap(&self, _m: &HashMap<u64, Option<u64>>, _d: &dyn IndexStore) -> LResult<CreatedIndex> {
        unimplemented!()
    }
    async fn update(&self, _n: datafusion::execution::SendableRecordBatchStream, _d: &dyn IndexStore) -> LResult<CreatedIndex> {
        unimplemented!()
    }
    fn update_criteria(&self) -> UpdateCriteria {
        unimplemented!()
    }
    fn derive_index_params(&self) -> LResult<ScalarIndexParams> {
        unimplemented!()
    }
}

struct MockLoader(Vec<Arc<MockIndex>>);
#[async_trait]
impl ScalarIndexLoader for MockLoader {
    async fn load_index(&self, _column: &str, index_name: &str, _m: &dyn MetricsCollector) -> LResult<Arc<dyn ScalarIndex>> {
        let i: usize = index_name.parse().unwrap();
        Ok(self.0[i].clone())
    }
}

const UNIVERSE: [u64; 4] = [0, 1, (1u64 << 32) | 0, (7u64 << 32) | 5];

fn bits_to_ids(bits: u8, n: u8) -> Vec<u64> {
    (0..n).filter(|i| bits & (1 << i) != 0).map(|i| UNIVERSE[i as usize]).collect()
}

fn truth_of(t: &Tree, leaves: &[Leaf], i: u8) -> bool {
    match t {
        Tree::Leaf(l) => leaves[*l as usize].truth & (1 << i) != 0,
        Tree::Not(a) => !truth_of(a, leaves, i),
        Tree::And(a, b) => truth_of(a, leaves, i) && truth_of(b, leaves, i),
        Tree::Or(a, b) => truth_of(a, leaves, i) || truth_of(b, leaves, i),
    }
}

fn to_index_expr(t: &Tree) -> ScalarIndexExpr {
    match t {
        Tree::Leaf(l) => ScalarIndexExpr::Query(ScalarIndexSearch {
            column: "c".into(),
            index_name: format!("{l}"),
            query: Arc::new(MockQuery(*l)),
            needs_recheck: false,
        }),
        Tree::Not(a) => ScalarIndexExpr::Not(Box::new(to_index_expr(a))),
        Tree::And(a, b) => ScalarIndexExpr::And(Box::new(to_index_expr(a)), Box::new(to_index_expr(b))),
        Tree::Or(a, b) => ScalarIndexExpr::Or(Box::new(to_index_expr(a)), Box::new(to_index_expr(b))),
    }
}

fn tree_shape(t: &Tree, leaves: &[Leaf]) -> String {
    match t {
        Tree::Leaf(l) => ["E", "M", "L"][leaves[*l as usize].kind as usize % 3].to_string(),
        Tree::Not(a) => format!("!{}", tree_shape(a, leaves)),
        Tree::And(a, b) => format!("({}&{})", tree_shape(a, leaves), tree_shape(b, leaves)),
        Tree::Or(a, b) => format!("({}|{})", tree_shape(a, leaves), tree_shape(b, leaves)),
    }
}

fn has_not(t: &Tree) -> bool {
    match t {
        Tree::Leaf(_) => false,
        Tree::Not(_) => true,
        Tree::And(a, b) | Tree::Or(a, b) => has_not(a) || has_not(b),
    }
}

fn kinds_in(t: &Tree, leaves: &[Leaf], out: &mut BTreeSet<u8>) {
    match t {
        Tree::Leaf(l) => {
            out.insert(leaves[*l as usize].kind % 3);
        }
        Tree::Not(a) => kinds_in(a, leaves, out),
        Tree::And(a, b) | Tree::Or(a, b) => {
            kinds_in(a, leaves, out);
            kinds_in(b, leaves, out);
        }
    }
}

impl C21 {
    fn check_expr(&self, universe: u8, leaves: &[Leaf], tree: &Tree, obs: &mut Obs, env: &Env) -> CheckResult {
        let n = universe.min(4);
        let full: u8 = ((1u16 << n) - 1) as u8;
        let idx: Vec<Arc<MockIndex>> = leaves
            .iter()
            .map(|l| {
                let t = l.truth & full;
                let e = l.extra & full;
                let rep = match l.kind % 3 {
                    0 => t,
                    1 => t | e,
                    _ => t & !e,
                };
                Arc::new(MockIndex { kind: l.kind % 3, reported: bits_to_ids(rep, n) })
            })
            .collect();
        let loader = MockLoader(idx);
        let expr = to_index_expr(tree);
        let res = env.block_on(expr.evaluate(&loader, &NoOpMetricsCollector));
        let res = match res {
            Ok(r) => r,
            Err(e) => fail!("expr-eval-error", "evaluate returned {e}"),
        };
        let mut kinds = BTreeSet::new();
        kinds_in(tree, leaves, &mut kinds);
        if has_not(tree) && kinds.len() >= 2 {
            obs.nontrivial(format!("{}", tree_shape(tree, leaves)));
        }
        obs.label(format!("result-{}", ["exact", "atmost", "atleast"][res.discriminant() as usize]));
        let mask = res.row_id_mask();
        // a probe outside the universe: truth there is false at every leaf
        for i in 0..n {
            let id = UNIVERSE[i as usize];
            let t = truth_of(tree, leaves, i);
            let s = mask.selected(id);
            let ok = match res.discriminant() {
                0 => s == t,
                1 => !t || s,
                _ => !s || t,
            };
            if !ok {
                let known = self.classify_expr(tree);
                if let Some(k) = known {
                    if env.known(k) {
                        obs.known_hit(k, format!("{tree:?}"));
                        return Ok(());
                    }
                }
                fail!(
                    known.map(|k| format!("expr-guarantee-broken:{k}")).unwrap_or("expr-guarantee-broken".into()),
                    "tree={} leaves={:?}: result kind {} selects id {:#x}={} but truth={}",
                    tree_shape(tree, leaves),
                    leaves,
                    res.discriminant(),
                    id,
                    s,
                    t
                );
            }
        }
        Ok(())
    }

    fn classify_expr(&self, _tree: &Tree) -> Option<&'static str> {
        None
    }

    fn check_prog(&self, ops: &[SetOp], obs: &mut Obs, _env: &Env) -> CheckResult {
        let mut sets: Vec<(RowIdTreeMap, MSet)> = vec![];
        let mut masks: Vec<(RowIdMask, MSet)> = vec![];
        let mut probes = base_probes();
        let mut shapes: BTreeSet<&'static str> = BTreeSet::new();
        let mut had_full = false;
        let mut had_binop_diff_shapes = false;

        fn shape(m: &RowIdMask) -> &'static str {
            match (&m.allow_list, &m.block_list) {
                (None, None) => "all",
                (Some(_), None) => "allow",
                (None, Some(_)) => "block",
                (Some(_), Some(_)) => "both",
            }
        }

        for (step, op) in ops.iter().enumerate() {
            let pick = |frac: u16, n: usize| idx(frac, n);
            // ids mentioned by the op become probes
            match op {
                SetOp::Insert { v } | SetOp::Remove { v, .. } => {
                    for d in [v.wrapping_sub(1), *v, v.wrapping_add(1)] {
                        probes.insert(d);
                    }
                }
                SetOp::InsertRange { start, len, .. } | SetOp::FromRange { start, len } => {
                    let end = start.saturating_add(*len as u64);
                    for d in [start.wrapping_sub(1), *start, start.wrapping_add(1), end.wrapping_sub(1), end, end.saturating_add(1)] {
                        probes.insert(d);
                    }
                }
                _ => {}
            }
            enum Made {
                Set(RowIdTreeMap, MSet),
                Mask(RowIdMask, MSet),
                None,
            }
            let made = match op {
                SetOp::New => Made::Set(RowIdTreeMap::new(), MSet::empty()),
                SetOp::Insert { v } => {
                    let (mut s, mut m) = sets.last().cloned().unwrap_or((RowIdTreeMap::new(), MSet::empty()));
                    let was = m.contains(*v);
                    let fresh = s.insert(*v);
                    ensure!(fresh == !was, "set-insert-retval", "step {step}: insert({v:#x}) returned {fresh} but membership before was {was}");
                    m.insert(*v);
                    Made::Set(s, m)
                }
                SetOp::InsertRange { start, len, inclusive } => {
                    let (mut s, mut m) = sets.last().cloned().unwrap_or((RowIdTreeMap::new(), MSet::empty()));
                    let end_excl = start.checked_add(*len as u64);
                    let mut expect_new = 0u64;
                    let ids: Vec<u64> = if *inclusive {
                        // start ..= start+len  (saturating at u64::MAX)
                        let end = start.saturating_add(*len as u64);
                        (*start..=end).collect()
                    } else {
                        match end_excl {
                            Some(e) => (*start..e).collect(),
                            None => (*start..u64::MAX).collect(),
                        }
                    };
                    for id in &ids {
                        if !m.contains(*id) {
                            expect_new += 1;
                        }
                    }
                    let got = if *inclusive {
                        let end = start.saturating_add(*len as u64);
                        s.insert_range(*start..=end)
                    } else {
                        match end_excl {
                            Some(e) => s.insert_range(*start..e),
                            None => s.insert_range(*start..u64::MAX),
                        }
                    };
                    for id in &ids {
                        m.insert(*id);
                    }
                    if ids.is_empty() {
                        obs.label("empty-range");
                    }
                    if ids.first().map(|a| a >> 32) != ids.last().map(|a| a >> 32) {
                        obs.label("range-crosses-2^32");
                    }
                    let r = Made::Set(s, m);
                    if got != expect_new {
                        // membership is checked below as well; the return value is part of the API
                        if let Made::Set(s, m) = &r {
                            Self::compare_set(step, op, s, m, &probes)?;
                        }
                        fail!("set-insert-range-count", "step {step}: {op:?} returned {got}, model inserted {expect_new} new ids");
                    }
                    r
                }
                SetOp::InsertFragment { f } => {
                    let (mut s, mut m) = sets.last().cloned().unwrap_or((RowIdTreeMap::new(), MSet::empty()));
                    s.insert_fragment(*f);
                    m.insert_fragment(*f);
                    had_full = true;
                    Made::Set(s, m)
                }
                SetOp::InsertBitmap { f, offs } => {
                    let (mut s, mut m) = sets.last().cloned().unwrap_or((RowIdTreeMap::new(), MSet::empty()));
                    // precondition used by every in-tree caller: the fragment is not yet present
                    if m.frags.contains_key(f) || offs.is_empty() {
                        Made::None
                    } else {
                        s.insert_bitmap(*f, offs.iter().copied().collect());
                        for o in offs {
                            m.insert(((*f as u64) << 32) | *o as u64);
                        }
                        Made::Set(s, m)
                    }
                }
                SetOp::Remove { on, v } => {
                    if sets.is_empty() {
                        Made::None
                    } else {
                        let (mut s, mut m) = sets[pick(*on, sets.len())].clone();
                        if is_full_frag(&s, (*v >> 32) as u32) {
                            obs.label("skipped-materialize");
                            continue;
                        }
                        let was = m.contains(*v);
                        let removed = s.remove(*v);
                        ensure!(removed == was, "set-remove-retval", "step {step}: remove({v:#x}) returned {removed}, membership before was {was}");
                        m.remove(*v);
                        Made::Set(s, m.canon())
                    }
                }
                SetOp::FromIter { vs } => {
                    let s: RowIdTreeMap = vs.iter().collect();
                    let mut m = MSet::empty();
                    for v in vs {
                        m.insert(*v);
                    }
                    Made::Set(s, m)
                }
                SetOp::FromRange { start, len } => {
                    let end = start.saturating_add(*len as u64);
                    let s = RowIdTreeMap::from(*start..end);
                    let mut m = MSet::empty();
                    for id in *start..end {
                        m.insert(id);
                    }
                    if *start == end {
                        obs.label("empty-range");
                    }
                    Made::Set(s, m)
                }
                SetOp::Union { a, b } | SetOp::Inter { a, b } | SetOp::Sub { a, b } | SetOp::ExtendSets { on: a, b } => {
                    if sets.is_empty() {
                        Made::None
                    } else {
                        let (sa, ma) = sets[pick(*a, sets.len())].clone();
                        let (sb, mb) = sets[pick(*b, sets.len())].clone();
                        match op {
                            SetOp::Union { .. } => Made::Set(sa | sb, ma.or(&mb).canon()),
                            SetOp::Inter { .. } => Made::Set(sa & sb, ma.and(&mb).canon()),
                            SetOp::Sub { .. } => {
                                if would_materialize(&sa, &sb) {
                                    obs.label("skipped-materialize");
                                    continue;
                                }
                                Made::Set(sa - sb, ma.sub(&mb).canon())
                            }
                            _ => {
                                let mut s = sa;
                                s.extend(std::iter::once(sb));
                                Made::Set(s, ma.or(&mb).canon())
                            }
                        }
                    }
                }
                SetOp::UnionAll { a, b, c } => {
                    if sets.is_empty() {
                        Made::None
                    } else {
                        let x = &sets[pick(*a, sets.len())];
                        let y = &sets[pick(*b, sets.len())];
                        let z = &sets[pick(*c, sets.len())];
                        Made::Set(RowIdTreeMap::union_all(&[&x.0, &y.0, &z.0]), x.1.or(&y.1).or(&z.1).canon())
                    }
                }
                SetOp::ExtendIds { on, vs } => {
                    if sets.is_empty() {
                        Made::None
                    } else {
                        let (mut s, mut m) = sets[pick(*on, sets.len())].clone();
                        s.extend(vs.iter());
                        for v in vs {
                            m.insert(*v);
                        }
                        Made::Set(s, m)
                    }
                }
                SetOp::Serde { a } => {
                    if sets.is_empty() {
                        Made::None
                    } else {
                        let (s, m) = sets[pick(*a, sets.len())].clone();
                        let mut buf = vec![];
                        if let Err(e) = s.serialize_into(&mut buf) {
                            fail!("set-serialize-error", "step {step}: {e}");
                        }
                        ensure!(buf.len() == s.serialized_size(), "set-serialized-size", "step {step}: serialized_size()={} but wrote {} bytes", s.serialized_size(), buf.len());
                        match RowIdTreeMap::deserialize_from(&buf[..]) {
                            Ok(s2) => Made::Set(s2, m),
                            Err(e) => fail!("set-deserialize-error", "step {step}: {e}"),
                        }
                    }
                }
                SetOp::MaskWith { a, m } => {
                    if sets.is_empty() || masks.is_empty() {
                        Made::None
                    } else {
                        let (mut s, ms) = sets[pick(*a, sets.len())].clone();
                        let (mk, mm) = &masks[pick(*m, masks.len())];
                        if mk.block_list.as_ref().map(|b| would_materialize(&s, b)).unwrap_or(false) {
                            obs.label("skipped-materialize");
                            continue;
                        }
                        s.mask(mk);
                        Made::Set(s, ms.and(mm).canon())
                    }
                }
                SetOp::RetainFragments { a, fs } => {
                    if sets.is_empty() {
                        Made::None
                    } else {
                        let (mut s, ms) = sets[pick(*a, sets.len())].clone();
                        s.retain_fragments(fs.iter().copied());
                        let mut keep = MSet::empty();
                        for f in fs {
                            keep.insert_fragment(*f);
                        }
                        Made::Set(s, ms.and(&keep).canon())
                    }
                }
                SetOp::MAll => Made::Mask(RowIdMask::all_rows(), MSet::all()),
                SetOp::MNothing => Made::Mask(RowIdMask::allow_nothing(), MSet::empty()),
                SetOp::MAllowed { a } => {
                    if sets.is_empty() {
                        Made::None
                    } else {
                        let (s, m) = sets[pick(*a, sets.len())].clone();
                        Made::Mask(RowIdMask::from_allowed(s), m)
                    }
                }
                SetOp::MBlock { a } => {
                    if sets.is_empty() {
                        Made::None
                    } else {
                        let (s, m) = sets[pick(*a, sets.len())].clone();
                        Made::Mask(RowIdMask::from_block(s), m.not().canon())
                    }
                }
                SetOp::MBoth { a, b } => {
                    if sets.is_empty() {
                        Made::None
                    } else {
                        let (sa, ma) = sets[pick(*a, sets.len())].clone();
                        let (sb, mb) = sets[pick(*b, sets.len())].clone();
                        Made::Mask(RowIdMask { allow_list: Some(sa), block_list: Some(sb) }, ma.sub(&mb).canon())
                    }
                }
                SetOp::MNot { m } => {
                    if masks.is_empty() {
                        Made::None
                    } else {
                        let (k, mm) = masks[pick(*m, masks.len())].clone();
                        if lists_conflict(&[&k]) {
                            // negating allow-minus-block subtracts the lists: would materialise a full fragment
                            obs.label("skipped-materialize");
                            continue;
                        }
                        shapes.insert(shape(&k));
                        Made::Mask(!k, mm.not().canon())
                    }
                }
                SetOp::MAnd { m, n } | SetOp::MOr { m, n } => {
                    if masks.is_empty() {
                        Made::None
                    } else {
                        let (k1, m1) = masks[pick(*m, masks.len())].clone();
                        let (k2, m2) = masks[pick(*n, masks.len())].clone();
                        if matches!(op, SetOp::MOr { .. }) && lists_conflict(&[&k1, &k2]) {
                            obs.label("skipped-materialize");
                            continue;
                        }
                        if shape(&k1) != shape(&k2) {
                            had_binop_diff_shapes = true;
                        }
                        if matches!(op, SetOp::MAnd { .. }) {
                            Made::Mask(k1 & k2, m1.and(&m2).canon())
                        } else {
                            Made::Mask(k1 | k2, m1.or(&m2).canon())
                        }
                    }
                }
                SetOp::MNormalize { m } => {
                    if masks.is_empty() {
                        Made::None
                    } else {
                        let (k, mm) = masks[pick(*m, masks.len())].clone();
                        if lists_conflict(&[&k]) {
                            obs.label("skipped-materialize");
                            continue;
                        }
                        Made::Mask(k.normalize(), mm)
                    }
                }
                SetOp::MAlsoBlock { m, a } => {
                    if masks.is_empty() || sets.is_empty() {
                        Made::None
                    } else {
                        let (k, mm) = masks[pick(*m, masks.len())].clone();
                        let (s, ms) = sets[pick(*a, sets.len())].clone();
                        Made::Mask(k.also_block(s), mm.sub(&ms).canon())
                    }
                }
                SetOp::MAlsoAllow { allow, block, a } => {
                    if sets.is_empty() {
                        Made::None
                    } else {
                        // (allow ∪ s) minus block; with no allow list every row is already allowed
                        let al = allow.map(|i| sets[pick(i, sets.len())].clone());
                        let bl = block.map(|i| sets[pick(i, sets.len())].clone());
                        let (s, ms) = sets[pick(*a, sets.len())].clone();
                        let k = RowIdMask { allow_list: al.as_ref().map(|x| x.0.clone()), block_list: bl.as_ref().map(|x| x.0.clone()) };
                        let allow_m = al.map(|x| x.1.or(&ms)).unwrap_or_else(MSet::all);
                        let block_m = bl.map(|x| x.1).unwrap_or_else(MSet::empty);
                        Made::Mask(k.also_allow(s), allow_m.sub(&block_m).canon())
                    }
                }
                SetOp::MArrow { m } => {
                    if masks.is_empty() {
                        Made::None
                    } else {
                        let (k, mm) = masks[pick(*m, masks.len())].clone();
                        let arr: BinaryArray = match k.into_arrow() {
                            Ok(a) => a,
                            Err(e) => fail!("mask-into-arrow-error", "step {step}: {e}"),
                        };
                        match RowIdMask::from_arrow(&arr) {
                            Ok(k2) => Made::Mask(k2, mm),
                            Err(e) => fail!("mask-from-arrow-error", "step {step}: {e}"),
                        }
                    }
                }
            };
            match made {
                Made::Set(s, m) => {
                    m.probes(&mut probes);
                    Self::compare_set(step, op, &s, &m, &probes)?;
                    if sets.len() < 24 {
                        sets.push((s, m));
                    } else {
                        let n = sets.len();
                        sets[step % n] = (s, m);
                    }
                }
                Made::Mask(k, m) => {
                    m.probes(&mut probes);
                    shapes.insert(shape(&k));
                    if let Err(f) = Self::compare_mask(step, op, &k, &m, &probes) {
                        return Err(f);
                    }
                    if masks.len() < 24 {
                        masks.push((k, m));
                    } else {
                        let n = masks.len();
                        masks[step % n] = (k, m);
                    }
                }
                Made::None => {}
            }
        }
        for s in &shapes {
            obs.label(format!("mask-shape-{s}"));
        }
        if had_full {
            obs.label("full-fragment");
        }
        if had_full && had_binop_diff_shapes {
            let sig: Vec<String> = ops.iter().map(|o| format!("{o:?}").split([' ', '{']).next().unwrap_or("").to_string()).collect();
            obs.nontrivial(sig.join(","));
        }
        Ok(())
    }

    fn compare_set(step: usize, op: &SetOp, s: &RowIdTreeMap, m: &MSet, probes: &BTreeSet<u64>) -> CheckResult {
        for id in probes {
            let got = s.contains(*id);
            let want = m.contains(*id);
            if got != want {
                let kind = match op {
                    SetOp::InsertRange { .. } | SetOp::FromRange { .. } => "set-range-membership",
                    _ => "set-membership",
                };
                fail!(kind, "step {step} {op:?}: contains({id:#x}) = {got}, model says {want}");
            }
        }
        debug_assert!(!m.default);
        if let Some(n) = s.len() {
            ensure!(n as u128 == m.card(), "set-len", "step {step} {op:?}: len()={n}, model cardinality {}", m.card());
        }
        if !m.has_cofinite() {
            if let Some(it) = s.row_ids() {
                let got: Vec<u64> = it.map(u64::from).collect();
                let want = m.enumerate();
                ensure!(got == want, "set-row-ids", "step {step} {op:?}: row_ids()={got:x?}, model {want:x?}");
            }
        }
        Ok(())
    }

    fn compare_mask(step: usize, op: &SetOp, k: &RowIdMask, m: &MSet, probes: &BTreeSet<u64>) -> CheckResult {
        for id in probes {
            let got = k.selected(*id);
            let want = m.contains(*id);
            if got != want {
                let kind = match op {
                    SetOp::MNot { .. } => "mask-not-membership",
                    SetOp::MOr { .. } => "mask-or-membership",
                    SetOp::MAnd { .. } => "mask-and-membership",
                    _ => "mask-membership",
                };
                fail!(kind, "step {step} {op:?}: selected({id:#x}) = {got}, model says {want}; mask={k:?}");
            }
        }
        // selected_indices agrees with selected
        if k.allow_list.is_some() || k.block_list.is_some() {
            let ids: Vec<u64> = probes.iter().copied().collect();
            let got = k.selected_indices(ids.iter());
            let want: Vec<u64> = ids.iter().enumerate().filter(|(_, id)| m.contains(**id)).map(|(i, _)| i as u64).collect();
            ensure!(got == want, "mask-selected-indices", "step {step} {op:?}: selected_indices mismatch");
        }
        if !m.has_cofinite() {
            if let Some(it) = k.iter_ids() {
                let got: Vec<u64> = it.map(u64::from).collect();
                let want = m.enumerate();
                ensure!(got == want, "mask-iter-ids", "step {step} {op:?}: iter_ids()={got:x?}, model {want:x?}");
            }
            if let Some(n) = k.max_len() {
                ensure!(n as u128 >= m.card(), "mask-max-len", "step {step} {op:?}: max_len()={n} < cardinality {}", m.card());
            }
        }
        Ok(())
    }
}

impl Property for C21 {
    type Input = Input;
    fn id(&self) -> &'static str {
        "C21"
    }
    fn rule(&self) -> String {
        "Two generated domains. (a) boolean trees (NOT/AND/OR, depth<=2 over <=2 leaves enumerated with every (kind, truth, reported) assignment over a 2-id universe in quick, depth<=2 over <=3 leaves sampled over a 4-id universe) evaluated through ScalarIndexExpr::evaluate with mock indices whose reported set honours exact/at-most/at-least against a known truth set; non-trivial = tree contains a NOT and mixes >=2 leaf kinds; distinct by tree shape with leaf kinds. (b) random programs of RowIdTreeMap/RowIdMask operations checked after every step against an exact finite/co-finite set model on a probe universe (fragments {0,1,2,7,u32::MAX} x offsets {0,1,2,3,65535,65536,u32::MAX-1,u32::MAX} plus every mentioned id +-1); non-trivial = program used a full fragment and a binary mask op between masks of different shapes; distinct by op-kind sequence.".into()
    }
    fn assumptions(&self) -> Vec<String> {
        vec![
            "insert_bitmap is only called for a fragment not yet present (what in-tree callers do)".into(),
            "ranges are short (<= 40 ids) so the exact model stays small; ranges crossing 2^32 and at 0 / u64::MAX are generated".into(),
        ]
    }
    fn cases(&self, tier: Tier) -> u32 {
        tier.pick(60_000, 3_000_000)
    }
    fn strategy(&self, _tier: Tier) -> BoxedStrategy<Input> {
        prop_oneof![
            1 => expr_strategy(),
            3 => prop::collection::vec(set_op(), 1..40).prop_map(|ops| Input::Prog { ops }),
        ]
        .boxed()
    }
    fn enumerate(&self, tier: Tier) -> Vec<Input> {
        // exhaustive: universe of 2 ids, <= 2 leaves, trees of depth <= 2, all leaf assignments
        let mut out = vec![];
        let u: u8 = 2;
        let sets: Vec<u8> = (0..(1u8 << u)).collect();
        let mut leaf_opts: Vec<Leaf> = vec![];
        for kind in 0..3u8 {
            for &truth in &sets {
                for &extra in &sets {
                    // skip duplicates: exact ignores extra
                    if kind == 0 && extra != 0 {
                        continue;
                    }
                    leaf_opts.push(Leaf { kind, truth, extra });
                }
            }
        }
        let depth = tier.pick(2, 2);
        for nl in 1..=2u8 {
            let trees = all_trees(nl, depth);
            let trees: Vec<&Tree> = trees.iter().filter(|t| uses_all(t, nl)).collect();
            if nl == 1 {
                for t in &trees {
                    for l in &leaf_opts {
                        out.push(Input::Expr { universe: u, leaves: vec![l.clone()], tree: (*t).clone() });
                    }
                }
            } else {
                // 2 leaves: all pairs in thorough, a fixed stride in quick
                let stride = tier.pick(7, 1);
                let mut c = 0usize;
                for t in &trees {
                    for a in &leaf_opts {
                        for b in &leaf_opts {
                            c += 1;
                            if c % stride != 0 {
                                continue;
                            }
                            out.push(Input::Expr { universe: u, leaves: vec![a.clone(), b.clone()], tree: (*t).clone() });
                        }
                    }
                }
            }
        }
        out
    }
    fn enumeration_is_exhaustive(&self, tier: Tier) -> bool {
        tier == Tier::Thorough
    }
    fn check(&self, input: &Input, obs: &mut Obs, env: &Env) -> CheckResult {
        match input {
            Input::Expr { universe, leaves, tree } => {
                obs.label("expr");
                if leaves.is_empty() || !leaves_in_range(tree, leaves.len()) {
                    return Ok(());
                }
                self.check_expr(*universe, leaves, tree, obs, env)
            }
            Input::Prog { ops } => {
                obs.label("prog");
                self.check_prog(ops, obs, env)
            }
        }
    }
}

fn leaves_in_range(t: &Tree, n: usize) -> bool {
    match t {
        Tree::Leaf(l) => (*l as usize) < n,
        Tree::Not(a) => leaves_in_range(a, n),
        Tree::And(a, b) | Tree::Or(a, b) => leaves_in_range(a, n) && leaves_in_range(b, n),
    }
}

fn uses_all(t: &Tree, n: u8) -> bool {
    fn collect(t: &Tree, s: &mut BTreeSet<u8>) {
        match t {
            Tree::Leaf(l) => {
                s.insert(*l);
            }
            Tree::Not(a) => collect(a, s),
            Tree::And(a, b) | Tree::Or(a, b) => {
                collect(a, s);
                collect(b, s);
            }
        }
    }
    let mut s = BTreeSet::new();
    collect(t, &mut s);
    s.len() == n as usize
}
