//! C22 — Vector search returns the true nearest neighbours when it claims exactness.
//!
//! The table (uid: Int64, f: Int32 filter column, vec: FixedSizeList<f16|f32|f64>[dim]) is created on the
//! in-memory `VStore` exactly like `World::create` does (explicit commit handler + session); vector columns
//! are not part of the `World` model, so this module keeps its own model: a Vec of rows (uid, f, the exact
//! element values as f64, "was covered by the vector index when it was last built/optimised").
//!
//! Oracle: brute force over the model rows in f64 (compensated dot products).  `_distance` is (read off
//! lance-linalg and `scanner.rs::flat_knn`): L2 = squared Euclidean distance, cosine = 1 - cos, dot = 1 - x.q,
//! always reported as f32.
//!
//! Tolerance (derived, not tuned; same idea as C35: Higham, Accuracy and Stability, 3.1/4.2): every kernel
//! accumulates n products in f32 (f16/f32) or in f64 followed by a cast to f32 (f64), in any order, with or
//! without FMA.  With u = 2^-24, g = gamma_{n+8}(u) = (n+8)u / (1 - (n+8)u), A = sum|x_i q_i|:
//!   L2     : |err| <= g * d                                   (d = sum (x_i-q_i)^2, all terms >= 0)
//!   dot    : |err| <= g * A + 4u * |1 - x.q|
//!   cosine : c' = (N + eN) / (nx ny) (1 + rho), |eN| <= g A, |rho| <= 2g + 8u  (two norms: half of g each + sqrt,
//!            two divisions / one product)  =>  |err| <= 1.01 * (g * S + |c| (2g + 8u)) + 2u |1 - c|,
//!            S = A / (|x||q|).
//!   When a vector index exists and may answer directly, cosine is evaluated on vectors normalised in the
//!   element precision u_e (`NormalizeTransformer`, `normalize_arrow` of the query): x^_i = s x_i (1 + d_i),
//!   |d_i| <= u_e; the common scale s cancels, the element-wise part changes c by at most
//!   2.01 u_e (S + |c|); that term is added whenever an index may be used (u_e = max(u_elem, 2^-24)).
//! A row whose reference distance is undefined (cosine with a zero vector / zero query: lance-linalg's scalar
//! definition gives 0/0 = NaN and the index builder drops non-finite normalised vectors) is excluded from the
//! oracle's ranking: such rows may or may not be returned; the remaining rows must still be the nearest ones.

use crate::engine::*;
use crate::store::{self, VStore};
use crate::world::{handler_of, new_session, storage_version};
use crate::{ensure, fail};
use arrow_array::{Array, ArrayRef, FixedSizeListArray, Float16Array, Float32Array, Float64Array, Int32Array, Int64Array, RecordBatch, RecordBatchIterator};
use arrow_schema::{DataType, Field, Schema, SchemaRef};
use futures::{FutureExt, TryStreamExt};
use lance::dataset::builder::DatasetBuilder;
use lance::dataset::optimize::{compact_files, CompactionOptions};
use lance::dataset::{WriteMode, WriteParams};
use lance::index::vector::VectorIndexParams;
use lance::session::Session;
use lance::Dataset;
use lance_index::optimize::OptimizeOptions;
use lance_index::scalar::ScalarIndexParams;
use lance_index::vector::ivf::IvfBuildParams;
use lance_index::vector::pq::PQBuildParams;
use lance_index::vector::sq::builder::SQBuildParams;
use lance_index::{DatasetIndexExt, IndexType};
use lance_linalg::distance::MetricType;
use lance_table::io::commit::CommitHandler;
use proptest::prelude::*;
use serde::{Deserialize, Serialize};
use std::collections::{BTreeMap, BTreeSet};
use std::sync::Arc;

pub struct C22;

pub(super) const SEARCH_TIMEOUT_S: u64 = 20;
const STEP_TIMEOUT_S: u64 = 400;

const KNOWN_IVFFLAT_NONF32: &str = "C22-ivfflat-f16-f64-unsearchable";
const KNOWN_PQ_DEFERRED_REMAP: &str = "C22-ivfpq-deferred-remap-stale-rowids";
pub(super) const KNOWN_STABLE_COMPACTED: &str = "C22-stable-rowid-compaction-deleted-rows-in-index";
pub(super) const KNOWN_STABLE_DV_UNSORTED: &str = "C22-stable-rowid-deletion-mask-unsorted";
const KNOWN_LATE_SEARCH_HANG: &str = "C22-late-search-hangs-after-optimize-compact";
const KNOWN_SHORTCUT_DUP: &str = "C22-prefilter-shortcut-duplicates-unindexed-rows";

// ---------------------------------------------------------------------------
// input

#[derive(Clone, Debug, PartialEq, Eq, Serialize, Deserialize)]
pub struct Cfg {
    /// 0 f16, 1 f32, 2 f64
    pub ety: u8,
    pub dim: u16,
    /// 0 L2, 1 cosine, 2 dot
    pub metric: u8,
    /// 0 legacy, 1 = 2.0, 2 = 2.1, 3 = 2.2
    pub storage: u8,
    pub stable_row_ids: bool,
    pub f_nullable: bool,
    pub vec_field_nullable: bool,
    pub handler: u8,
    pub v2_manifest: bool,
}

/// How one vector is drawn; the elements are a pure function of this spec (and of the rows that exist when
/// it is resolved, for the copy kinds).
#[derive(Clone, Debug, PartialEq, Eq, Serialize, Deserialize)]
pub struct VSpec {
    /// 0 grid (multiples of 1/8 in [-2,2]), 1 fine (multiples of 2^-20 in [-1,1], rounded to the element type),
    /// 2 clustered (one of 4 centres + noise of k/64), 3 zero vector, 4 copy of an existing row, 5 scaled copy
    /// (x2, x0.5, x-1), 6 sparse (two non-zero elements), 7 tiny (grid * 2^-6)
    pub kind: u8,
    pub seed: u32,
    pub cluster: u8,
    /// which existing row to copy (fraction)
    pub of: u16,
}

#[derive(Clone, Debug, PartialEq, Eq, Serialize, Deserialize)]
pub struct RowSpec {
    pub v: VSpec,
    /// filter column: 0..=6, 7 = NULL when the column is nullable (else 0)
    pub f: u8,
}

#[derive(Clone, Debug, PartialEq, Eq, Serialize, Deserialize)]
pub enum Atom {
    /// f <op> lit; op: 0 <, 1 <=, 2 =, 3 >=, 4 >
    Cmp { op: u8, lit: i8 },
    In(Vec<i8>),
    Between(i8, i8),
    IsNull,
    IsNotNull,
    /// uid < bound (fraction of the next uid)
    UidLt(u16),
    UidGe(u16),
}

#[derive(Clone, Debug, PartialEq, Eq, Serialize, Deserialize)]
pub struct Filt {
    pub a: Atom,
    /// (true = AND / false = OR, second atom)
    pub b: Option<(bool, Atom)>,
}

#[derive(Clone, Debug, PartialEq, Eq, Serialize, Deserialize)]
pub enum Step {
    Append { rows: Vec<RowSpec>, file_rows: u16 },
    DeleteUids { picks: Vec<u16> },
    DeleteWhere { filter: Filt },
    /// kind: 0 IVF_FLAT, 1 IVF_PQ, 2 IVF_SQ
    CreateIndex { kind: u8, parts: u8, pq_bits8: bool, pq_sub: u8, replace: bool },
    /// scalar index on the filter column: 0 btree, 1 bitmap
    ScalarIndex { kind: u8 },
    Compact { target_rows: u16, materialize: bool, defer_remap: bool },
    /// 0 append, 1 merge(2), 2 default
    Optimize { mode: u8 },
    Reopen,
}

impl Step {
    fn kind(&self) -> &'static str {
        match self {
            Step::Append { .. } => "append",
            Step::DeleteUids { .. } => "delete",
            Step::DeleteWhere { .. } => "delete-where",
            Step::CreateIndex { kind, .. } => match kind % 3 {
                0 => "ivf_flat",
                1 => "ivf_pq",
                _ => "ivf_sq",
            },
            Step::ScalarIndex { .. } => "scalar-index",
            Step::Compact { .. } => "compact",
            Step::Optimize { .. } => "optimize",
            Step::Reopen => "reopen",
        }
    }
}

#[derive(Clone, Debug, PartialEq, Eq, Serialize, Deserialize)]
pub enum KSel {
    Small(u8),
    /// 1 + fraction of 2n
    Frac(u16),
}

#[derive(Clone, Debug, PartialEq, Eq, Serialize, Deserialize)]
pub struct Query {
    pub v: VSpec,
    pub k: KSel,
    pub filter: Option<Filt>,
    pub prefilter: bool,
    pub use_index: bool,
    /// 0 nprobes(P), 1 minimum_nprobes(P), 2 nprobes(P + 2), 3 nprobes(1), 4 defaults (minimum 1, no maximum)
    pub probes: u8,
    /// 0 none, 1 large (k * factor >= all rows), 2 small factor (1 + seed % 3)
    pub refine: u8,
    pub fast: bool,
    /// hand the query over as Float32Array (lance coerces it to the element type) when that is exact
    pub as_f32: bool,
}

#[derive(Clone, Debug, PartialEq, Eq, Serialize, Deserialize)]
pub struct Input {
    pub cfg: Cfg,
    pub initial: Vec<RowSpec>,
    pub init_file_rows: u16,
    pub steps: Vec<Step>,
    pub queries: Vec<Query>,
}

// ---------------------------------------------------------------------------
// strategies

const DIMS_SPECIAL: [u16; 4] = [64, 96, 128, 130];

fn vspec(copy_w: u32) -> impl Strategy<Value = VSpec> {
    (
        prop_oneof![
            4 => Just(0u8),
            3 => Just(1u8),
            5 => Just(2u8),
            1 => Just(3u8),
            copy_w => Just(4u8),
            2 => Just(5u8),
            1 => Just(6u8),
            1 => Just(7u8),
        ],
        any::<u32>(),
        0u8..4,
        any::<u16>(),
    )
        .prop_map(|(kind, seed, cluster, of)| VSpec { kind, seed, cluster, of })
}

fn rowspec() -> impl Strategy<Value = RowSpec> {
    (vspec(2), 0u8..8).prop_map(|(v, f)| RowSpec { v, f })
}

fn atom() -> impl Strategy<Value = Atom> {
    prop_oneof![
        6 => (0u8..5, -1i8..8).prop_map(|(op, lit)| Atom::Cmp { op, lit }),
        2 => prop::collection::vec(0i8..7, 1..4).prop_map(Atom::In),
        2 => (0i8..7, 0i8..7).prop_map(|(a, b)| Atom::Between(a, b)),
        1 => Just(Atom::IsNull),
        1 => Just(Atom::IsNotNull),
        2 => any::<u16>().prop_map(Atom::UidLt),
        2 => any::<u16>().prop_map(Atom::UidGe),
    ]
}

fn filt() -> impl Strategy<Value = Filt> {
    (atom(), prop::option::weighted(0.35, (any::<bool>(), atom()))).prop_map(|(a, b)| Filt { a, b })
}

fn step_append() -> impl Strategy<Value = Step> {
    (prop::collection::vec(rowspec(), 1..14), prop_oneof![Just(4u16), Just(9), Just(1000)]).prop_map(|(rows, file_rows)| Step::Append { rows, file_rows })
}

fn step_delete() -> impl Strategy<Value = Step> {
    prop_oneof![
        3 => prop::collection::vec(any::<u16>(), 1..6).prop_map(|picks| Step::DeleteUids { picks }),
        1 => filt().prop_map(|filter| Step::DeleteWhere { filter }),
    ]
}

fn step_index() -> impl Strategy<Value = Step> {
    (prop_oneof![5 => Just(0u8), 2 => Just(1u8), 3 => Just(2u8)], prop_oneof![1 => Just(1u8), 5 => Just(2u8), 4 => Just(3u8), 2 => Just(4u8), 1 => Just(7u8)], prop::bool::weighted(0.15), 0u8..4, prop::bool::weighted(0.8))
        .prop_map(|(kind, parts, pq_bits8, pq_sub, replace)| Step::CreateIndex { kind, parts, pq_bits8, pq_sub, replace })
}

fn step_pre() -> impl Strategy<Value = Step> {
    prop_oneof![
        3 => step_append(),
        4 => step_delete(),
        1 => (0u8..2).prop_map(|kind| Step::ScalarIndex { kind }),
    ]
}

fn step_post() -> impl Strategy<Value = Step> {
    prop_oneof![
        6 => step_append(),
        4 => step_delete(),
        2 => (prop_oneof![Just(8u16), Just(40), Just(1000)], any::<bool>(), prop::bool::weighted(0.25)).prop_map(|(target_rows, materialize, defer_remap)| Step::Compact { target_rows, materialize, defer_remap }),
        1 => (0u8..3).prop_map(|mode| Step::Optimize { mode }),
        1 => Just(Step::Reopen),
        1 => (0u8..2).prop_map(|kind| Step::ScalarIndex { kind }),
        1 => step_index(),
    ]
}

fn query() -> impl Strategy<Value = Query> {
    (
        vspec(6),
        prop_oneof![3 => (1u8..=10).prop_map(KSel::Small), 2 => any::<u16>().prop_map(KSel::Frac)],
        prop::option::weighted(0.6, filt()),
        prop::bool::weighted(0.85),
        prop::bool::weighted(0.85),
        prop_oneof![5 => Just(0u8), 2 => Just(1u8), 1 => Just(2u8), 1 => Just(3u8), 1 => Just(4u8)],
        prop_oneof![3 => Just(0u8), 5 => Just(1u8), 1 => Just(2u8)],
        prop::bool::weighted(0.2),
        prop::bool::weighted(0.25),
    )
        .prop_map(|(v, k, filter, prefilter, use_index, probes, refine, fast, as_f32)| Query { v, k, filter, prefilter, use_index, probes, refine, fast, as_f32 })
}

fn cfg() -> impl Strategy<Value = Cfg> {
    (
        prop_oneof![1 => Just(0u8), 2 => Just(1u8), 1 => Just(2u8)],
        prop_oneof![4 => 1u16..=40, 1 => prop::sample::select(DIMS_SPECIAL.to_vec())],
        0u8..3,
        prop_oneof![1 => Just(0u8), 3 => Just(1u8), 3 => Just(2u8), 2 => Just(3u8)],
        // stable row ids + deletions is dominated by two known findings: kept as a small class
        prop::bool::weighted(0.15),
        any::<bool>(),
        any::<bool>(),
        0u8..2,
        any::<bool>(),
    )
        .prop_map(|(ety, dim, metric, storage, stable_row_ids, f_nullable, vec_field_nullable, handler, v2_manifest)| Cfg { ety, dim, metric, storage, stable_row_ids, f_nullable, vec_field_nullable, handler, v2_manifest })
}

fn input_strategy(_tier: Tier) -> BoxedStrategy<Input> {
    (
        cfg(),
        prop_oneof![6 => prop::collection::vec(rowspec(), 8..60), 3 => prop::collection::vec(rowspec(), 60..140), 1 => prop::collection::vec(rowspec(), 256..300)],
        prop_oneof![Just(7u16), Just(25), Just(1000)],
        prop::collection::vec(step_pre(), 0..3),
        prop::option::weighted(0.8, step_index()),
        (prop::bool::weighted(0.75), step_append(), prop::collection::vec(step_post(), 0..4)).prop_map(|(first, a, mut rest)| {
            // mostly: rows appended right after the index was built (the unindexed tail)
            if first {
                rest.insert(0, a);
            }
            rest
        }),
        prop::collection::vec(query(), 1..5),
        any::<u8>(),
    )
        .prop_map(|(cfg, initial, init_file_rows, pre, index, post, queries, coin)| {
            let mut steps = pre;
            if let Some(mut ix) = index {
                // IVF_FLAT over f16 / f64 is a known finding (C22-ivfflat-f16-f64-unsearchable): keep that class small
                if let Step::CreateIndex { kind, .. } = &mut ix {
                    if cfg.ety != 1 && *kind % 3 == 0 && coin % 8 != 0 {
                        *kind = 2;
                    }
                }
                steps.push(ix);
            }
            steps.extend(post);
            Input { cfg, initial, init_file_rows, steps, queries }
        })
        .boxed()
}

// ---------------------------------------------------------------------------
// model

#[derive(Clone, Debug)]
struct MRow {
    uid: i64,
    f: Option<i32>,
    v: Vec<f64>,
    /// covered by the vector index when it was last (re)built or optimised
    indexed: bool,
    /// not deleted
    live: bool,
}

#[derive(Clone, Debug)]
struct VIndex {
    kind: u8,
    parts: usize,
}

struct Model {
    rows: Vec<MRow>,
    next_uid: i64,
    vindex: Option<VIndex>,
    deletions: usize,
    /// a compaction with defer_index_remap ran since the IVF_PQ index was built
    pq_deferred_remap: bool,
    /// stable row ids: a compaction ran while rows that are in the vector index were deleted
    stable_compacted_deleted: bool,
    has_scalar_index: bool,
    /// optimize_indices ran since the vector index was built
    optimized: bool,
    /// ... and a compaction ran after that
    optimized_then_compacted: bool,
    deferred_pending: bool,
    deferred_then_immediate: bool,
}

fn mix(mut z: u64) -> u64 {
    z = z.wrapping_add(0x9E37_79B9_7F4A_7C15);
    z = (z ^ (z >> 30)).wrapping_mul(0xBF58_476D_1CE4_E5B9);
    z = (z ^ (z >> 27)).wrapping_mul(0x94D0_49BB_1331_11EB);
    z ^ (z >> 31)
}

fn h(seed: u32, i: usize, salt: u64) -> u64 {
    mix((seed as u64).wrapping_mul(0x9E37_79B9_7F4A_7C15) ^ mix((i as u64) ^ salt.wrapping_mul(0xD6E8_FEB8_6659_FD93)))
}

fn quant(ety: u8, v: f64) -> f64 {
    match ety {
        0 => half::f16::from_f64(v).to_f64(),
        1 => (v as f32) as f64,
        _ => v,
    }
}

fn grid(hv: u64) -> f64 {
    ((hv % 33) as f64 - 16.0) / 8.0
}

fn gen_vec(s: &VSpec, cfg: &Cfg, pool_a: &[MRow], pool_b: &[MRow]) -> Vec<f64> {
    let dim = cfg.dim as usize;
    let pool_len = pool_a.len() + pool_b.len();
    let pool_at = |i: usize| if i < pool_a.len() { &pool_a[i] } else { &pool_b[i - pool_a.len()] };
    let e = cfg.ety;
    let base_grid = || (0..dim).map(|i| grid(h(s.seed, i, 1))).collect::<Vec<f64>>();
    match s.kind % 8 {
        0 => base_grid(),
        1 => (0..dim).map(|i| quant(e, (h(s.seed, i, 2) % (1 << 21)) as f64 / (1u64 << 20) as f64 - 1.0)).collect(),
        2 => (0..dim)
            .map(|i| {
                let c = grid(h(s.cluster as u32 % 4, i, 3));
                let noise = ((h(s.seed, i, 4) % 9) as f64 - 4.0) / 64.0;
                quant(e, c + noise)
            })
            .collect(),
        3 => vec![0.0; dim],
        4 => {
            if pool_len == 0 {
                base_grid()
            } else {
                pool_at(idx(s.of, pool_len)).v.clone()
            }
        }
        5 => {
            if pool_len == 0 {
                base_grid()
            } else {
                let src = &pool_at(idx(s.of, pool_len)).v;
                let maxabs = src.iter().fold(0.0f64, |m, v| m.max(v.abs()));
                let factor = match s.seed % 3 {
                    0 if maxabs <= 4.0 => 2.0,
                    0 | 1 => 0.5,
                    _ => -1.0,
                };
                src.iter().map(|v| quant(e, v * factor)).collect()
            }
        }
        6 => {
            let mut v = vec![0.0; dim];
            for j in 0..2 {
                let p = (h(s.seed, j, 5) % dim as u64) as usize;
                let g = grid(h(s.seed, j, 6));
                v[p] = if g == 0.0 { 1.0 } else { g };
            }
            v
        }
        _ => (0..dim).map(|i| grid(h(s.seed, i, 7)) / 64.0).collect(),
    }
}

/// the legacy (0.1) format does not store NULLs faithfully (documented limitation): non-nullable there
fn f_is_nullable(cfg: &Cfg) -> bool {
    cfg.f_nullable && cfg.storage % 4 != 0
}

fn f_of(cfg: &Cfg, f: u8) -> Option<i32> {
    if f % 8 == 7 {
        if f_is_nullable(cfg) {
            None
        } else {
            Some(0)
        }
    } else {
        Some((f % 8) as i32)
    }
}

fn uid_bound(frac: u16, next_uid: i64) -> i64 {
    idx(frac, next_uid as usize + 1) as i64
}

impl Atom {
    fn sql(&self, next_uid: i64) -> String {
        match self {
            Atom::Cmp { op, lit } => format!("f {} {}", ["<", "<=", "=", ">=", ">"][*op as usize % 5], lit),
            Atom::In(l) => format!("f IN ({})", l.iter().map(|x| x.to_string()).collect::<Vec<_>>().join(", ")),
            // an inverted range makes DataFusion's interval analysis fail with an internal error (the filter
            // grammar is C16's subject): the bounds are ordered
            Atom::Between(a, b) => format!("f BETWEEN {} AND {}", a.min(b), a.max(b)),
            Atom::IsNull => "f IS NULL".into(),
            Atom::IsNotNull => "f IS NOT NULL".into(),
            Atom::UidLt(fr) => format!("uid < {}", uid_bound(*fr, next_uid)),
            Atom::UidGe(fr) => format!("uid >= {}", uid_bound(*fr, next_uid)),
        }
    }
    /// SQL three-valued logic
    fn eval(&self, r: &MRow, next_uid: i64) -> Option<bool> {
        match self {
            Atom::Cmp { op, lit } => r.f.map(|f| {
                let l = *lit as i32;
                match op % 5 {
                    0 => f < l,
                    1 => f <= l,
                    2 => f == l,
                    3 => f >= l,
                    _ => f > l,
                }
            }),
            Atom::In(l) => r.f.map(|f| l.iter().any(|x| *x as i32 == f)),
            Atom::Between(a, b) => r.f.map(|f| f >= *a.min(b) as i32 && f <= *a.max(b) as i32),
            Atom::IsNull => Some(r.f.is_none()),
            Atom::IsNotNull => Some(r.f.is_some()),
            Atom::UidLt(fr) => Some(r.uid < uid_bound(*fr, next_uid)),
            Atom::UidGe(fr) => Some(r.uid >= uid_bound(*fr, next_uid)),
        }
    }
}

impl Filt {
    fn sql(&self, next_uid: i64) -> String {
        match &self.b {
            None => self.a.sql(next_uid),
            Some((and, b)) => format!("({}) {} ({})", self.a.sql(next_uid), if *and { "AND" } else { "OR" }, b.sql(next_uid)),
        }
    }
    fn eval(&self, r: &MRow, next_uid: i64) -> Option<bool> {
        let a = self.a.eval(r, next_uid);
        match &self.b {
            None => a,
            Some((true, b)) => match (a, b.eval(r, next_uid)) {
                (Some(false), _) | (_, Some(false)) => Some(false),
                (Some(true), Some(true)) => Some(true),
                _ => None,
            },
            Some((false, b)) => match (a, b.eval(r, next_uid)) {
                (Some(true), _) | (_, Some(true)) => Some(true),
                (Some(false), Some(false)) => Some(false),
                _ => None,
            },
        }
    }
    fn passes(&self, r: &MRow, next_uid: i64) -> bool {
        self.eval(r, next_uid) == Some(true)
    }
}

// ---------------------------------------------------------------------------
// reference distances

const U32R: f64 = 5.960_464_477_539_063e-8; // 2^-24

fn two_sum(a: f64, b: f64) -> (f64, f64) {
    let s = a + b;
    let bb = s - a;
    (s, (a - (s - bb)) + (b - bb))
}

/// (sum a_i*b_i as if in twice the working precision, sum |a_i*b_i|)
fn dot2(a: &[f64], b: &[f64]) -> (f64, f64) {
    let mut p = 0.0f64;
    let mut s = 0.0f64;
    let mut abs = 0.0f64;
    for (x, y) in a.iter().zip(b.iter()) {
        let hh = x * y;
        let r = x.mul_add(*y, -hh);
        let (p2, q) = two_sum(p, hh);
        p = p2;
        s += q + r;
        abs += hh.abs();
    }
    (p + s, abs)
}

#[derive(Clone, Copy, Debug)]
struct Dist {
    /// reference value
    v: f64,
    /// bound on |reported - v|
    e: f64,
    defined: bool,
}

fn elem_u(ety: u8) -> f64 {
    match ety {
        0 => 4.882_812_5e-4, // 2^-11
        _ => U32R,
    }
}

/// `u_in`: element-wise relative perturbation of the inputs by a normalisation step (0 when no index can answer)
fn ref_dist(metric: u8, x: &[f64], q: &[f64], u_in: f64) -> Dist {
    let n = x.len();
    let ku = (n as f64 + 8.0) * U32R;
    let g = ku / (1.0 - ku);
    // slack for the reference itself (Dot2 + f64 roundings of differences / quotients)
    let r64 = 1e-15;
    match metric % 3 {
        0 => {
            let d: Vec<f64> = x.iter().zip(q).map(|(a, b)| a - b).collect();
            let (s, _) = dot2(&d, &d);
            Dist { v: s, e: (g + r64) * s, defined: true }
        }
        2 => {
            let (s, a) = dot2(x, q);
            let d = 1.0 - s;
            Dist { v: d, e: g * a + 4.0 * U32R * d.abs() + r64 * (a + 1.0), defined: true }
        }
        _ => {
            let (xx, _) = dot2(x, x);
            let (qq, _) = dot2(q, q);
            if !(xx > 0.0) || !(qq > 0.0) {
                return Dist { v: f64::NAN, e: f64::NAN, defined: false };
            }
            let (s, a) = dot2(x, q);
            let den = xx.sqrt() * qq.sqrt();
            let c = s / den;
            let big_s = a / den;
            let d = 1.0 - c;
            let e = 1.01 * (g * big_s + c.abs() * (2.0 * g + 8.0 * U32R)) + 2.0 * U32R * d.abs() + 2.01 * u_in * (big_s + c.abs()) * 1.01 + r64 * (big_s + 1.0);
            Dist { v: d, e, defined: true }
        }
    }
}

// ---------------------------------------------------------------------------
// the lance side

pub(super) fn elem_type(ety: u8) -> DataType {
    match ety {
        0 => DataType::Float16,
        1 => DataType::Float32,
        _ => DataType::Float64,
    }
}

fn values_array(ety: u8, vals: &[f64]) -> ArrayRef {
    match ety {
        0 => Arc::new(Float16Array::from_iter_values(vals.iter().map(|v| half::f16::from_f64(*v)))),
        1 => Arc::new(Float32Array::from_iter_values(vals.iter().map(|v| *v as f32))),
        _ => Arc::new(Float64Array::from_iter_values(vals.iter().copied())),
    }
}

fn schema_of(cfg: &Cfg) -> SchemaRef {
    let item = Arc::new(Field::new("item", elem_type(cfg.ety), true));
    Arc::new(Schema::new(vec![
        Field::new("uid", DataType::Int64, false),
        Field::new("f", DataType::Int32, f_is_nullable(cfg)),
        Field::new("vec", DataType::FixedSizeList(item, cfg.dim as i32), cfg.vec_field_nullable),
    ]))
}

fn batch_of(cfg: &Cfg, rows: &[MRow]) -> RecordBatch {
    let schema = schema_of(cfg);
    let uid = Int64Array::from_iter_values(rows.iter().map(|r| r.uid));
    let f: Int32Array = if f_is_nullable(cfg) { rows.iter().map(|r| r.f).collect() } else { Int32Array::from_iter_values(rows.iter().map(|r| r.f.unwrap_or(0))) };
    let mut flat = Vec::with_capacity(rows.len() * cfg.dim as usize);
    for r in rows {
        flat.extend_from_slice(&r.v);
    }
    let item = Arc::new(Field::new("item", elem_type(cfg.ety), true));
    let fsl = FixedSizeListArray::new(item, cfg.dim as i32, values_array(cfg.ety, &flat), None);
    RecordBatch::try_new(schema, vec![Arc::new(uid), Arc::new(f), Arc::new(fsl)]).unwrap()
}

struct Table {
    store: VStore,
    session: Arc<Session>,
    handler: Arc<dyn CommitHandler>,
    uri: String,
    ds: Dataset,
}

fn write_params(cfg: &Cfg, t_session: &Arc<Session>, handler: &Arc<dyn CommitHandler>, mode: WriteMode, file_rows: usize) -> WriteParams {
    WriteParams {
        mode,
        max_rows_per_file: file_rows.max(1),
        max_rows_per_group: 1024.min(file_rows.max(1)),
        commit_handler: Some(handler.clone()),
        data_storage_version: Some(storage_version(cfg.storage)),
        enable_stable_row_ids: cfg.stable_row_ids,
        enable_v2_manifest_paths: cfg.v2_manifest,
        session: Some(t_session.clone()),
        auto_cleanup: None,
        ..Default::default()
    }
}

fn metric_of(m: u8) -> MetricType {
    match m % 3 {
        0 => MetricType::L2,
        1 => MetricType::Cosine,
        _ => MetricType::Dot,
    }
}

/// what a query asks lance for, resolved against the table state
struct RQ<'a> {
    qv: &'a [f64],
    k: usize,
    filter_sql: Option<String>,
    prefilter: bool,
    use_index: bool,
    /// (minimum, maximum) nprobes settings: (Some(n), Some(n)) = nprobes(n)
    nprobes: Option<usize>,
    min_nprobes: Option<usize>,
    refine: Option<u32>,
    fast: bool,
    as_f32: bool,
}

async fn run_query(ds: &Dataset, cfg: &Cfg, q: &RQ<'_>) -> Result<Vec<(i64, f32)>, String> {
    let fut = async {
        let mut sc = ds.scan();
        let key: ArrayRef = if q.as_f32 { Arc::new(Float32Array::from_iter_values(q.qv.iter().map(|v| *v as f32))) } else { values_array(cfg.ety, q.qv) };
        sc.nearest("vec", key.as_ref(), q.k).map_err(|e| e.to_string())?;
        sc.distance_metric(metric_of(cfg.metric));
        if let Some(n) = q.nprobes {
            sc.nprobes(n);
        }
        if let Some(n) = q.min_nprobes {
            sc.minimum_nprobes(n);
        }
        if let Some(r) = q.refine {
            sc.refine(r);
        }
        if !q.use_index {
            sc.use_index(false);
        }
        if q.fast {
            sc.fast_search();
        }
        if let Some(f) = &q.filter_sql {
            sc.filter(f).map_err(|e| e.to_string())?;
            sc.prefilter(q.prefilter);
        }
        sc.project(&["uid"]).map_err(|e| e.to_string())?;
        let st = sc.try_into_stream().await.map_err(|e| e.to_string())?;
        let bs: Vec<RecordBatch> = st.try_collect().await.map_err(|e| e.to_string())?;
        let mut out = vec![];
        for b in &bs {
            let u = b.column_by_name("uid").ok_or("no uid column in the result")?.as_any().downcast_ref::<Int64Array>().ok_or("uid is not Int64")?;
            let d = b.column_by_name("_distance").ok_or("no _distance column in the result")?.as_any().downcast_ref::<Float32Array>().ok_or("_distance is not Float32")?;
            for i in 0..b.num_rows() {
                if u.is_null(i) {
                    return Err("NULL uid in the result".into());
                }
                if d.is_null(i) {
                    return Err(format!("NULL _distance for uid {}", u.value(i)));
                }
                out.push((u.value(i), d.value(i)));
            }
        }
        Ok(out)
    };
    // a panic inside one of lance's background tasks can leave the search pending forever (SharedPrerequisite never
    // completes): detected here instead of by the engine's watchdog
    match tokio::time::timeout(std::time::Duration::from_secs(SEARCH_TIMEOUT_S), std::panic::AssertUnwindSafe(fut).catch_unwind()).await {
        Ok(Ok(r)) => r,
        Ok(Err(_)) => Err("panic inside the search".into()),
        Err(_) => Err(format!("timeout: the search did not complete within {SEARCH_TIMEOUT_S} s")),
    }
}

fn short(s: &str) -> String {
    truncate_str(s, 300)
}

struct QStats {
    nontrivial: bool,
    /// the search hung (known finding): every further search on this table would take the timeout again
    abort: bool,
}

/// Stable row ids: `DatasetPreFilter::do_create_deletion_mask_row_id` masks the row id sequence with the positions of
/// an unordered deletion set, so as soon as one fragment has two or more deleted rows an index search may keep
/// deleted rows (and lose live ones).  Every failure of an index search under exactly that structural condition is
/// attributed to that finding.
#[allow(clippy::too_many_arguments)]
async fn check_query(qi: usize, at: &str, q: &Query, cfg: &Cfg, t: &Table, m: &Model, obs: &mut Obs, env: &Env) -> Result<QStats, Failure> {
    let index_search = m.vindex.is_some() && q.use_index;
    // (condition, finding, failure kind in strict mode); the first structural condition that holds takes the blame
    let late_search = index_search && q.probes % 5 == 4 && m.vindex.as_ref().map(|v| v.parts > 1).unwrap_or(false);
    let candidates: [(bool, &'static str, &'static str); 4] = [
        // see C23: a deferred remap followed by an immediate one leaves stale row addresses in the index
        (index_search && m.deferred_then_immediate, super::c23::KNOWN_DEFERRED_THEN_IMMEDIATE, "stale-addresses-after-deferred-then-immediate-remap"),
        // default nprobes (minimum 1, no maximum) after optimize_indices + compact_files: on about every second index
        // training the late search never completes (no panic; the stream stays pending)
        (late_search && m.optimized_then_compacted, KNOWN_LATE_SEARCH_HANG, "late-search-hangs-after-optimize-compact"),
        // IVF_PQ after compact_files(defer_index_remap): the storage keeps the old row addresses; searches fail in
        // the take or silently return nothing / the wrong rows
        (index_search && m.pq_deferred_remap, KNOWN_PQ_DEFERRED_REMAP, "ivfpq-deferred-remap-stale-rowids"),
        // (the same deletion mask guards a scalar index that answers the prefilter)
        (cfg.stable_row_ids && (index_search || (m.has_scalar_index && q.filter.is_some())) && m.rows.iter().filter(|r| !r.live).count() >= 2, KNOWN_STABLE_DV_UNSORTED, "stable-rowid-deletions-break-index-search"),
    ];
    match check_query_inner(qi, at, q, cfg, t, m, obs, env).await {
        Err(f) if f.kind != "ivfflat-nonf32-search-fails" && f.kind != "stable-rowid-compacted-deleted-row-in-index" => {
            for (cond, id, kind) in candidates {
                if cond && (id != KNOWN_LATE_SEARCH_HANG || f.msg.contains("timeout: the search did not complete")) {
                    if env.known(id) {
                        obs.known_hit(id, format!("[{}] {}", f.kind, f.msg));
                        return Ok(QStats { nontrivial: false, abort: f.msg.contains("timeout: the search did not complete") });
                    }
                    return Err(Failure::new(kind, format!("[{}] {}", f.kind, f.msg)));
                }
            }
            Err(f)
        }
        r => r,
    }
}

#[allow(clippy::too_many_arguments)]
async fn check_query_inner(qi: usize, at: &str, q: &Query, cfg: &Cfg, t: &Table, m: &Model, obs: &mut Obs, env: &Env) -> Result<QStats, Failure> {
    let live: Vec<&MRow> = m.rows.iter().filter(|r| r.live).collect();
    let n = live.len();
    let qv = gen_vec(&q.v, cfg, &m.rows, &[]);
    let k = match &q.k {
        KSel::Small(s) => (*s as usize).max(1),
        KSel::Frac(fr) => 1 + idx(*fr, (2 * n).max(2)),
    };
    let has_vidx = m.vindex.is_some();
    let parts = m.vindex.as_ref().map(|v| v.parts).unwrap_or(1);
    let vkind = m.vindex.as_ref().map(|v| v.kind);
    let fast = q.fast && has_vidx && q.use_index;
    let index_path = has_vidx && (q.use_index || fast);
    let filter_sql = q.filter.as_ref().map(|f| f.sql(m.next_uid));
    let refine = if !index_path {
        None
    } else {
        match q.refine % 3 {
            0 => None,
            1 => Some(((m.rows.len() + 1) / k + 2) as u32),
            _ => Some(1 + q.v.seed % 3),
        }
    };
    let (nprobes, min_nprobes, full_probe) = if !index_path {
        (None, None, true)
    } else {
        match q.probes % 5 {
            0 => (Some(parts), None, true),
            1 => (None, Some(parts), true),
            2 => (Some(parts + 2), None, true),
            3 => (Some(1), None, parts == 1),
            _ => (None, None, parts == 1),
        }
    };
    let as_f32 = q.as_f32 && qv.iter().all(|v| ((*v as f32) as f64) == *v && (cfg.ety != 0 || half::f16::from_f64(*v).to_f64() == *v));
    let rq = RQ { qv: &qv, k, filter_sql: filter_sql.clone(), prefilter: q.prefilter, use_index: q.use_index || fast, nprobes, min_nprobes, refine, fast, as_f32 };
    let what = format!(
        "{at} query {qi}: k={k} metric={} filter={:?} prefilter={} use_index={} nprobes={:?} min_nprobes={:?} refine={:?} fast={} index={:?} parts={} live_rows={n} q={:?}",
        ["l2", "cosine", "dot"][cfg.metric as usize % 3],
        filter_sql,
        q.prefilter,
        rq.use_index,
        nprobes,
        min_nprobes,
        refine,
        fast,
        vkind.map(|k| ["ivf_flat", "ivf_pq", "ivf_sq"][k as usize % 3]),
        parts,
        truncate_str(&format!("{qv:?}"), 200)
    );

    // classification of the mode
    let postfilter = q.filter.is_some() && !q.prefilter;
    let exact = !postfilter
        && if !index_path {
            true
        } else {
            match vkind.unwrap() % 3 {
                0 => full_probe,
                _ => full_probe && q.refine % 3 == 1,
            }
        };
    let dist_exact = !index_path || exact || refine.is_some();
    let mode = format!(
        "{}{}{}",
        if !index_path {
            if has_vidx {
                "flat(use_index=false)".to_string()
            } else {
                "flat".to_string()
            }
        } else {
            format!("{}{}{}", ["ivf_flat", "ivf_pq", "ivf_sq"][vkind.unwrap() as usize % 3], if full_probe { "+all-probes" } else { "+partial-probes" }, match q.refine % 3 {
                0 => "",
                1 => "+refine-large",
                _ => "+refine-small",
            })
        },
        if fast { "+fast_search" } else { "" },
        if postfilter {
            "+postfilter"
        } else if q.filter.is_some() {
            "+prefilter"
        } else {
            ""
        }
    );
    obs.label(format!("mode:{mode}:{}", if exact { "exact" } else { "approx" }));

    let res = run_query(&t.ds, cfg, &rq).await;
    obs.inner += 1;
    let got = match res {
        Ok(g) => g,
        Err(e) => {
            let broken = index_path && vkind.unwrap() % 3 == 0 && cfg.ety != 1;
            if broken && env.known(KNOWN_IVFFLAT_NONF32) {
                obs.known_hit(KNOWN_IVFFLAT_NONF32, format!("{what}: {}", short(&e)));
                return Ok(QStats { nontrivial: false, abort: false });
            }
            // the filter grammar is C16's subject: DataFusion's interval analysis fails on contradictory predicates
            if e.contains("Internal error: Only intervals with the same data type") {
                obs.rejected += 1;
                obs.label("filter-planner-internal-error");
                return Ok(QStats { nontrivial: false, abort: false });
            }
            if index_path && m.stable_compacted_deleted && e.contains("merge two RecordBatch with different sizes") {
                if env.known(KNOWN_STABLE_COMPACTED) {
                    obs.known_hit(KNOWN_STABLE_COMPACTED, format!("{what}: {}", short(&e)));
                    return Ok(QStats { nontrivial: false, abort: false });
                }
                fail!("stable-rowid-compacted-deleted-row-in-index", "{what}: stable row ids: the index still returns rows that were deleted and then dropped by compaction: {}", short(&e));
            }
            if broken {
                fail!("ivfflat-nonf32-search-fails", "{what}: an IVF_FLAT index over a {} column was built without error but cannot be searched: {}", elem_type(cfg.ety), short(&e));
            }
            fail!("search-error", "{what}: {}", short(&e));
        }
    };

    // u_in: normalisation in the element precision when an index may answer a cosine query
    let u_in = if index_path && cfg.metric % 3 == 1 { elem_u(cfg.ety) } else { 0.0 };
    let by_uid: BTreeMap<i64, &MRow> = m.rows.iter().map(|r| (r.uid, r)).collect();
    let passes = |r: &MRow| q.filter.as_ref().map(|f| f.passes(r, m.next_uid)).unwrap_or(true);

    // (1) structure: no unknown / deleted / filtered-out / duplicate row, at most k rows
    ensure!(got.len() <= k, "more-than-k-rows", "{what}: {} rows returned", got.len());
    let mut seen = BTreeSet::new();
    for (uid, d) in &got {
        let Some(r) = by_uid.get(uid) else { fail!("unknown-row-returned", "{what}: uid {uid} (distance {d}) was never written") };
        ensure!(r.live, "deleted-row-returned", "{what}: uid {uid} (distance {d}) was deleted");
        ensure!(passes(r), "filter-violated", "{what}: uid {uid} (f = {:?}) does not satisfy the filter", r.f);
        if !seen.insert(*uid) {
            // late-search shortcut ("fewer than k rows pass the prefilter: return them all with distance +inf") with a
            // scalar-index prefilter that also covers fragments the vector index does not: those rows come back a
            // second time from the flat search over the unindexed fragments
            if index_path && !full_probe && !fast && q.filter.is_some() && q.prefilter && m.has_scalar_index && !r.indexed {
                if env.known(KNOWN_SHORTCUT_DUP) {
                    obs.known_hit(KNOWN_SHORTCUT_DUP, format!("{what}: uid {uid} appears twice in {:?}", got));
                    return Ok(QStats { nontrivial: false, abort: false });
                }
                fail!("prefilter-shortcut-duplicates-unindexed-rows", "{what}: uid {uid} (not covered by the vector index) appears twice in {:?}", got);
            }
            fail!("row-returned-twice", "{what}: uid {uid} appears twice in {:?}", got);
        }
    }
    // (2) ascending order.  A NaN distance is legitimate only for a row whose distance is undefined (cosine with a
    // zero vector); where such rows are placed is not asserted (lance puts them first or last depending on the plan)
    let mut prev: Option<f32> = None;
    for (uid, d) in &got {
        if d.is_nan() {
            let r = by_uid[uid];
            ensure!(!ref_dist(cfg.metric, &r.v, &qv, 0.0).defined, "nan-distance", "{what}: uid {uid} has a NaN _distance although its distance is defined: {:?}", got);
            obs.label("nan-distance-for-zero-vector");
            continue;
        }
        if let Some(p) = prev {
            ensure!(p <= *d, "not-sorted", "{what}: distances not ascending: {:?}", got);
        }
        prev = Some(*d);
    }
    // (3) each reported distance is the distance of that row
    let mut rd = 0usize; // returned rows with a defined reference distance
    for (uid, d) in &got {
        let r = by_uid[uid];
        let rf = ref_dist(cfg.metric, &r.v, &qv, u_in);
        if !rf.defined {
            obs.label("cosine-zero-vector-returned");
            continue;
        }
        rd += 1;
        if dist_exact {
            let dd = *d as f64;
            if d.is_nan() || !((dd - rf.v).abs() <= rf.e) {
                fail!(
                    "distance-mismatch",
                    "{what}: uid {uid} reported _distance {d:e} but its recomputed distance is {:e} (|diff| {:e} > derived bound {:e}); vector {:?}",
                    rf.v,
                    (dd - rf.v).abs(),
                    rf.e,
                    truncate_str(&format!("{:?}", r.v), 200)
                );
            }
            let used = if rf.e > 0.0 { (dd - rf.v).abs() / rf.e } else { 0.0 };
            obs.label(format!("bound-used-{}", if used == 0.0 { "0" } else if used < 1e-2 { "<1e-2" } else if used < 0.1 { "<0.1" } else if used < 0.5 { "<0.5" } else { "<=1" }));
        }
    }
    if !exact {
        return Ok(QStats { nontrivial: false, abort: false });
    }

    // (4) exact modes: the right number of rows, and they are the nearest ones
    struct C {
        uid: i64,
        d: Dist,
        sure: bool,
    }
    let mut cands: Vec<C> = vec![];
    let mut undefined = 0usize;
    for r in &live {
        if !passes(r) {
            continue;
        }
        let d = ref_dist(cfg.metric, &r.v, &qv, u_in);
        if !d.defined {
            undefined += 1;
            continue;
        }
        cands.push(C { uid: r.uid, d, sure: !fast || r.indexed });
    }
    if undefined > 0 {
        obs.label("cosine-zero-vector-candidate");
    }
    let ru = got.len() - rd;
    let nd = cands.len();
    let n_sure = cands.iter().filter(|c| c.sure).count();
    let k_eff = k - ru.min(k);
    if fast {
        ensure!(rd >= k_eff.min(n_sure) && rd <= k.min(nd), "wrong-result-count", "{what}: {} rows with a defined distance returned (+{ru} undefined); {n_sure} indexed candidates, {nd} candidates: {:?}", rd, got);
    } else {
        ensure!(rd == k_eff.min(nd), "wrong-result-count", "{what}: {} rows with a defined distance returned (+{ru} undefined), expected min(k - {ru}, {nd} matching rows): {:?}", rd, got);
    }
    let returned: BTreeSet<i64> = got.iter().map(|g| g.0).collect();
    // (a) no returned row is certainly farther than rd other (certainly searched) candidates
    for c in cands.iter().filter(|c| returned.contains(&c.uid)) {
        let lo = c.d.v - c.d.e;
        let closer = cands.iter().filter(|x| x.sure && x.uid != c.uid && x.d.v + x.d.e < lo).count();
        ensure!(closer < rd, "returned-row-not-among-nearest", "{what}: uid {} (true distance {:e}) was returned although {closer} candidates are certainly nearer and only {rd} rows were returned: {:?}", c.uid, c.d.v, got);
    }
    // (b) a candidate that is certainly among the rd nearest must be returned
    for c in cands.iter().filter(|c| c.sure && !returned.contains(&c.uid)) {
        let hi = c.d.v + c.d.e;
        let maybe_before = cands.iter().filter(|x| x.uid != c.uid && x.d.v - x.d.e <= hi).count();
        ensure!(
            maybe_before >= rd,
            "nearer-row-missing",
            "{what}: uid {} (true distance {:e} +- {:e}, indexed={}) is certainly among the {rd} nearest of {nd} candidates (only {maybe_before} others can be as near) but was not returned: {:?}",
            c.uid,
            c.d.v,
            c.d.e,
            by_uid[&c.uid].indexed,
            got
        );
    }
    // classification
    let mut sorted: Vec<f64> = cands.iter().map(|c| c.d.v).collect();
    sorted.sort_by(|a, b| a.partial_cmp(b).unwrap());
    if rd >= 1 && rd < nd && sorted[rd - 1] == sorted[rd] {
        obs.label("tie-at-the-kth-distance");
    }
    if sorted.windows(2).any(|w| w[0] == w[1]) {
        obs.label("duplicate-distances");
    }
    if k > n {
        obs.label("k-exceeds-rows");
    }
    let unindexed_live = live.iter().filter(|r| !r.indexed).count();
    if index_path && unindexed_live > 0 {
        obs.label(if fast { "fast_search-with-unindexed-rows" } else { "index-plus-unindexed-rows" });
    }
    let nt = (m.deletions > 0 || q.filter.is_some()) && k < nd && (!index_path || (parts >= 2 && unindexed_live >= 1));
    Ok(QStats { nontrivial: nt, abort: false })
}

async fn reopen(t: &mut Table) -> Result<(), String> {
    let session = new_session(&t.store);
    let ds = DatasetBuilder::from_uri(&t.uri).with_session(session.clone()).with_commit_handler(t.handler.clone()).load().await.map_err(|e| e.to_string())?;
    t.session = session;
    t.ds = ds;
    Ok(())
}

fn resolve_rows(specs: &[RowSpec], cfg: &Cfg, m: &mut Model) -> Vec<MRow> {
    let mut out: Vec<MRow> = vec![];
    for s in specs {
        // copies may refer to rows of the same batch: resolve against everything so far
        let v = gen_vec(&s.v, cfg, &m.rows, &out);
        out.push(MRow { uid: m.next_uid, f: f_of(cfg, s.f), v, indexed: false, live: true });
        m.next_uid += 1;
    }
    out
}

pub async fn run(input: &Input, obs: &mut Obs, env: &Env) -> CheckResult {
    let cfg = &input.cfg;
    ensure!(cfg.dim >= 1, "bad-input", "dim 0");
    if let Ok(dir) = std::env::var("VERIF_TRACE_CASES") {
        // debugging aid (hangs): the case each worker is working on
        let _ = std::fs::write(format!("{dir}/C22-w{}.json", env.worker), serde_json::to_string(&serde_json::json!({ "input": input })).unwrap_or_default());
    }
    obs.label(format!("elem:{}", ["f16", "f32", "f64"][cfg.ety as usize % 3]));
    obs.label(format!("metric:{}", ["l2", "cosine", "dot"][cfg.metric as usize % 3]));
    obs.label(format!("dim:{}", if cfg.dim % 8 == 0 { "multiple-of-8" } else if cfg.dim < 8 { "below-8" } else { "with-tail" }));
    let store = VStore::new();
    let session = new_session(&store);
    let handler = handler_of(cfg.handler);
    let uri = store::uri("t");
    let mut m = Model { rows: vec![], next_uid: 0, vindex: None, deletions: 0, pq_deferred_remap: false, stable_compacted_deleted: false, has_scalar_index: false, optimized: false, optimized_then_compacted: false, deferred_pending: false, deferred_then_immediate: false };
    let init = resolve_rows(&input.initial, cfg, &mut m);
    let b = batch_of(cfg, &init);
    let reader = RecordBatchIterator::new(vec![Ok(b)], schema_of(cfg));
    let params = write_params(cfg, &session, &handler, WriteMode::Create, input.init_file_rows as usize);
    let ds = match Dataset::write(reader, &uri, Some(params)).await {
        Ok(d) => d,
        Err(e) => {
            obs.rejected += 1;
            obs.label(format!("create-rejected:{}", truncate_str(&e.to_string(), 60)));
            return Ok(());
        }
    };
    m.rows.extend(init);
    let mut t = Table { store, session, handler, uri, ds };
    let first_index = input.steps.iter().position(|s| matches!(s, Step::CreateIndex { .. }));
    let mut any_nt = false;
    let mut kinds: Vec<&'static str> = vec![];
    let nsteps = input.steps.len();
    for (si, step) in input.steps.iter().enumerate() {
        kinds.push(step.kind());
        let r: Result<Result<(), String>, ()> = {
            let fut = apply_step(step, cfg, &mut t, &mut m, obs);
            match tokio::time::timeout(std::time::Duration::from_secs(STEP_TIMEOUT_S), std::panic::AssertUnwindSafe(fut).catch_unwind()).await {
                Ok(Ok(r)) => Ok(r),
                Ok(Err(_)) => Err(()),
                Err(_) => fail!("step-timeout", "step {si} ({}) did not complete within {STEP_TIMEOUT_S} s", step.kind()),
            }
        };
        match r {
            Ok(Ok(())) => {}
            Ok(Err(e)) => {
                obs.rejected += 1;
                obs.label(format!("step-rejected:{}:{}", step.kind(), truncate_str(&e, 70)));
            }
            Err(()) => {
                let broken = m.vindex.as_ref().map(|v| v.kind % 3 == 0).unwrap_or(false) && cfg.ety != 1;
                if broken && env.known(KNOWN_IVFFLAT_NONF32) {
                    obs.known_hit(KNOWN_IVFFLAT_NONF32, format!("step {si} ({}) panicked on a table with an IVF_FLAT index over {}", step.kind(), elem_type(cfg.ety)));
                    return Ok(());
                }
                fail!("step-panic", "step {si} ({}) panicked", step.kind());
            }
        }
        let after_index = first_index.map(|fi| si >= fi).unwrap_or(false);
        if after_index || si + 1 == nsteps {
            let at = format!("after step {si} ({})", kinds.join(","));
            for (qi, q) in input.queries.iter().enumerate() {
                let st = check_query(qi, &at, q, cfg, &t, &m, obs, env).await?;
                any_nt |= st.nontrivial;
                if st.abort {
                    obs.label("case-aborted-after-search-timeout");
                    return Ok(());
                }
            }
        }
    }
    if nsteps == 0 {
        for (qi, q) in input.queries.iter().enumerate() {
            let st = check_query(qi, "after create", q, cfg, &t, &m, obs, env).await?;
            any_nt |= st.nontrivial;
        }
    }
    if any_nt {
        obs.nontrivial(format!("{}|{}|d{}|{}|q{}", ["f16", "f32", "f64"][cfg.ety as usize % 3], ["l2", "cos", "dot"][cfg.metric as usize % 3], cfg.dim, kinds.join(","), input.queries.len()));
    }
    Ok(())
}

async fn apply_step(step: &Step, cfg: &Cfg, t: &mut Table, m: &mut Model, obs: &mut Obs) -> Result<(), String> {
    match step {
        Step::Append { rows, file_rows } => {
            let saved_next = m.next_uid;
            let new = resolve_rows(rows, cfg, m);
            let b = batch_of(cfg, &new);
            let reader = RecordBatchIterator::new(vec![Ok(b)], schema_of(cfg));
            let params = write_params(cfg, &t.session, &t.handler, WriteMode::Append, *file_rows as usize);
            match t.ds.append(reader, Some(params)).await {
                Ok(()) => {
                    m.rows.extend(new);
                    Ok(())
                }
                Err(e) => {
                    m.next_uid = saved_next;
                    Err(e.to_string())
                }
            }
        }
        Step::DeleteUids { picks } => {
            let live: Vec<i64> = m.rows.iter().filter(|r| r.live).map(|r| r.uid).collect();
            if live.is_empty() {
                return Ok(());
            }
            let mut ids: Vec<i64> = picks.iter().map(|p| live[idx(*p, live.len())]).collect();
            ids.sort_unstable();
            ids.dedup();
            let sql = format!("uid IN ({})", ids.iter().map(|i| i.to_string()).collect::<Vec<_>>().join(", "));
            t.ds.delete(&sql).await.map_err(|e| e.to_string())?;
            for r in m.rows.iter_mut() {
                if r.live && ids.contains(&r.uid) {
                    r.live = false;
                    m.deletions += 1;
                }
            }
            Ok(())
        }
        Step::DeleteWhere { filter } => {
            let sql = filter.sql(m.next_uid);
            t.ds.delete(&sql).await.map_err(|e| e.to_string())?;
            let next = m.next_uid;
            let mut n = 0;
            for r in m.rows.iter_mut() {
                if r.live && filter.passes(r, next) {
                    r.live = false;
                    n += 1;
                }
            }
            m.deletions += n;
            Ok(())
        }
        Step::CreateIndex { kind, parts, pq_bits8, pq_sub, replace } => {
            let metric = metric_of(cfg.metric);
            let parts = (*parts as usize).max(1);
            let dim = cfg.dim as usize;
            // 4-bit PQ needs an even number of sub-vectors (an odd one panics inside the builder instead of
            // returning an error: not this property's subject); without an even divisor 8 bits are used when
            // there are enough rows, else the index becomes IVF_SQ
            let live = m.rows.iter().filter(|r| r.live).count();
            let even: Vec<usize> = (2..=dim.min(16)).filter(|d| dim % d == 0 && d % 2 == 0).collect();
            let bits8 = *pq_bits8 || even.is_empty();
            let kind = if kind % 3 == 1 && bits8 && live < 256 && even.is_empty() { 2 } else { kind % 3 };
            let params = match kind {
                0 => VectorIndexParams::ivf_flat(parts, metric),
                1 => {
                    // a sub-vector count that divides the dimension
                    let divisors: Vec<usize> = if bits8 { (1..=dim.min(16)).filter(|d| dim % d == 0).collect() } else { even.clone() };
                    let sub = divisors[*pq_sub as usize % divisors.len()];
                    let pq = PQBuildParams { num_sub_vectors: sub, num_bits: if bits8 { 8 } else { 4 }, max_iters: 8, ..Default::default() };
                    obs.label(format!("pq-bits-{}", pq.num_bits));
                    VectorIndexParams::with_ivf_pq_params(metric, IvfBuildParams::new(parts), pq)
                }
                _ => VectorIndexParams::with_ivf_sq_params(metric, IvfBuildParams::new(parts), SQBuildParams::default()),
            };
            t.ds.create_index(&["vec"], IndexType::Vector, Some("vidx".into()), &params, *replace).await.map_err(|e| e.to_string())?;
            m.vindex = Some(VIndex { kind, parts });
            m.pq_deferred_remap = false;
            m.stable_compacted_deleted = false;
            m.optimized = false;
            m.optimized_then_compacted = false;
            m.deferred_pending = false;
            m.deferred_then_immediate = false;
            for r in m.rows.iter_mut() {
                r.indexed = r.live;
            }
            Ok(())
        }
        Step::ScalarIndex { kind } => {
            let (ty, p) = match kind % 2 {
                0 => (IndexType::BTree, ScalarIndexParams::for_builtin(lance_index::scalar::BuiltinIndexType::BTree)),
                _ => (IndexType::Bitmap, ScalarIndexParams::for_builtin(lance_index::scalar::BuiltinIndexType::Bitmap)),
            };
            t.ds.create_index(&["f"], ty, Some("f_idx".into()), &p, true).await.map_err(|e| e.to_string())?;
            m.has_scalar_index = true;
            Ok(())
        }
        Step::Compact { target_rows, materialize, defer_remap } => {
            let opts = CompactionOptions {
                target_rows_per_fragment: (*target_rows as usize).max(1),
                materialize_deletions: *materialize,
                materialize_deletions_threshold: 0.0,
                defer_index_remap: *defer_remap,
                num_threads: Some(1),
                ..Default::default()
            };
            compact_files(&mut t.ds, opts, None).await.map(|_| ()).map_err(|e| e.to_string())?;
            if m.vindex.is_some() && m.optimized {
                m.optimized_then_compacted = true;
            }
            if m.vindex.is_some() {
                if *defer_remap {
                    m.deferred_pending = true;
                } else if m.deferred_pending {
                    m.deferred_then_immediate = true;
                }
            }
            if let Some(v) = &m.vindex {
                if *defer_remap && v.kind % 3 == 1 {
                    m.pq_deferred_remap = true;
                }
                if cfg.stable_row_ids && m.rows.iter().any(|r| r.indexed && !r.live) {
                    m.stable_compacted_deleted = true;
                }
            }
            Ok(())
        }
        Step::Optimize { mode } => {
            let opts = match mode % 3 {
                0 => OptimizeOptions::append(),
                1 => OptimizeOptions::merge(2),
                _ => OptimizeOptions::default(),
            };
            t.ds.optimize_indices(&opts).await.map_err(|e| e.to_string())?;
            if m.vindex.is_some() {
                m.optimized = true;
                for r in m.rows.iter_mut() {
                    if r.live {
                        r.indexed = true;
                    }
                }
            }
            Ok(())
        }
        Step::Reopen => reopen(t).await,
    }
}

impl Property for C22 {
    type Input = Input;
    fn id(&self) -> &'static str {
        "C22"
    }
    fn rule(&self) -> String {
        "A table (uid Int64, f Int32 [nullable], vec FixedSizeList<f16|f32|f64>[dim], dim in 1..=40 or 64/96/128/130; storage legacy/2.0/2.1/2.2, optional stable row ids) is built on the in-memory store from 8-300 generated rows in several fragments; vectors are grid values, fine values, 4 clusters + noise, zero vectors, exact copies and x2/x0.5/x-1 copies of existing rows, sparse and tiny vectors. A history of appends, deletes (uid lists / predicates), an optional IVF_FLAT / IVF_PQ (4 or 8 bit) / IVF_SQ index with 1-7 partitions, scalar index on f, compaction (with/without deferred remap), optimize_indices (append / merge / default), index replacement and re-opening follows. 1-4 nearest() queries (query = copy of a row or a generated vector, k in 1..2n, optional filter on f/uid as prefilter or postfilter, use_index on/off, nprobes = P / minimum_nprobes = P / P+2 / 1 / default, refine none / large / small, fast_search, query passed in the element type or as Float32) run after every step from the first index creation on and at the end. Oracle: brute force in f64 over the model rows. ALL modes: at most k rows, no unknown / deleted / filter-violating / duplicate row, _distance ascending. Whenever the distance is computed from the original vectors (flat search, refine, exact modes): |_distance - recomputed distance of that row| <= derived Higham bound (f32 accumulation, n+8 roundings; cosine over an index additionally 2.01*u_elem*(S+|c|) for the normalisation). Exact modes (flat; IVF_FLAT with every partition probed; IVF_PQ/SQ with every partition probed and refine large): result has min(k, #matching) rows and is a set of nearest rows up to the error bounds (no returned row is certainly farther than |result| other candidates; every candidate that is certainly among the |result| nearest is returned), rows appended after indexing included; with fast_search the same holds relative to the rows covered by the index (sandwich between indexed and all candidates). Rows with an undefined cosine distance (zero vector) are excluded from the ranking. Non-trivial = an exact-mode query with (>= 1 deletion in the history or a filter), k < #candidates and, when an index answers, >= 2 partitions and >= 1 live unindexed row; distinct by (element type, metric, dim, step kinds, #queries).".into()
    }
    fn assumptions(&self) -> Vec<String> {
        vec![
            "_distance is the squared L2 distance, 1 - cosine similarity, or 1 - dot product, as f32 (lance-linalg definitions)".into(),
            "kernels accumulate in f32 (f16/f32 elements) or f64 then cast (f64), IEEE round-to-nearest, any summation order / FMA; values are bounded (|x| <= 16) so no overflow/underflow occurs".into(),
            "the query metric always equals the index metric (knn_combined silently switches to the index metric otherwise)".into(),
            "rows with a zero vector under cosine (and every row for a zero query) have no defined distance and are not ranked by the oracle".into(),
            "optimize_indices (append / merge / default options) is taken to cover every live row (used only for the fast_search lower bound)".into(),
            "NULL vectors, multivectors, distance_range, HNSW and RQ indices are not generated".into(),
        ]
    }
    fn cases(&self, tier: Tier) -> u32 {
        tier.pick(250, 5000)
    }
    fn max_shrink_iters(&self) -> u32 {
        150
    }
    fn strategy(&self, tier: Tier) -> BoxedStrategy<Input> {
        input_strategy(tier)
    }
    fn check(&self, input: &Input, obs: &mut Obs, env: &Env) -> CheckResult {
        env.block_on(run(input, obs, env))
    }
}
