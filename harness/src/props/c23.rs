//! C23 — Full-text search matches the tokenised documents.
//!
//! Table (uid: Int64, f: Int32, doc: Utf8/LargeUtf8 nullable) on the in-memory `VStore`, created like
//! `World::create` does.  Own model: rows (uid, f, document text or NULL, live, "covered by the inverted index").
//!
//! Reference tokeniser (re-implemented from tantivy 0.24's `SimpleTokenizer` / `WhitespaceTokenizer`,
//! `RemoveLongFilter`, `LowerCaser`, in the order `InvertedIndexParams::build` applies them; stemming, stop words
//! and ASCII folding are switched off so that this is exact):
//!   simple      = maximal runs of `char::is_alphanumeric`
//!   whitespace  = maximal runs of `!char::is_ascii_whitespace`
//!   remove long = drop tokens of >= 40 bytes (the generator never produces one)
//!   lower case  = per char `to_lowercase`
//! Reference matcher: MATCH/OR = any query token occurs, MATCH/AND = every query token occurs, PHRASE = the query
//! token sequence occurs at consecutive positions, BOOLEAN = (all must | any should when there is no must) and no
//! must_not.  A query without tokens matches nothing.

use crate::engine::*;
use crate::store::{self, VStore};
use crate::world::{handler_of, new_session, storage_version};
use crate::{ensure, fail};
use arrow_array::{Array, ArrayRef, Float32Array, Int32Array, Int64Array, LargeStringArray, RecordBatch, RecordBatchIterator, StringArray};
use arrow_schema::{DataType, Field, Schema, SchemaRef};
use futures::{FutureExt, TryStreamExt};
use lance::dataset::builder::DatasetBuilder;
use lance::dataset::optimize::{compact_files, CompactionOptions};
use lance::dataset::{WriteMode, WriteParams};
use lance::session::Session;
use lance::Dataset;
use lance_index::optimize::OptimizeOptions;
use lance_index::scalar::inverted::query::{BooleanQuery, FtsQuery, MatchQuery, Occur, Operator, PhraseQuery};
use lance_index::scalar::{FullTextSearchQuery, InvertedIndexParams};
use lance_index::{DatasetIndexExt, IndexType};
use lance_table::io::commit::CommitHandler;
use proptest::prelude::*;
use serde::{Deserialize, Serialize};
use std::collections::{BTreeMap, BTreeSet};
use std::sync::Arc;

pub struct C23;

use super::c22::SEARCH_TIMEOUT_S;
const STEP_TIMEOUT_S: u64 = 400;

const KNOWN_FLAT_AND: &str = "C23-flat-match-and-as-or";
const KNOWN_PHRASE_UNINDEXED: &str = "C23-phrase-skips-unindexed";
const KNOWN_AND_ABSENT_TOKEN: &str = "C23-and-drops-absent-token";
const KNOWN_FLAT_SCORE_DRIFT: &str = "C23-flat-score-depends-on-scan-order";
const KNOWN_FLAT_NONPOS: &str = "C23-flat-scorer-nonpositive-score";
const KNOWN_DEFERRED_REMAP: &str = "C23-deferred-remap-after-delete-panics";
const KNOWN_PREFILTER_AND: &str = "C23-wand-prefilter-and-as-or";
const KNOWN_PHRASE_LAG: &str = "C23-phrase-lagging-term-misses-match";
pub(super) const KNOWN_DEFERRED_THEN_IMMEDIATE: &str = "C23-deferred-then-immediate-remap-stale-addresses";

pub const VOCAB: [&str; 14] = ["apple", "Apple", "BANANA", "banana", "cherry", "x", "b2b", "Éclair", "éclair", "naïve", "日本語", "Привет", "co-op", "42"];
pub const SEPS: [&str; 9] = [" ", " ", "  ", ", ", ". ", "-", "\t", "\n", "! "];

// ---------------------------------------------------------------------------
// input

#[derive(Clone, Debug, PartialEq, Eq, Serialize, Deserialize)]
pub struct Cfg {
    /// 0 simple, 1 whitespace
    pub base: u8,
    pub lower_case: bool,
    pub with_position: bool,
    /// false: max_token_length None, true: the default Some(40)
    pub max_token_len_40: bool,
    pub large_utf8: bool,
    /// 0 legacy, 1 = 2.0, 2 = 2.1, 3 = 2.2
    pub storage: u8,
    pub stable_row_ids: bool,
    pub handler: u8,
    pub v2_manifest: bool,
}

#[derive(Clone, Debug, PartialEq, Eq, Serialize, Deserialize)]
pub struct RowSpec {
    /// None = NULL document; (word index, separator index written after the word)
    pub doc: Option<Vec<(u8, u8)>>,
    pub f: u8,
}

#[derive(Clone, Debug, PartialEq, Eq, Serialize, Deserialize)]
pub enum Step {
    Append { rows: Vec<RowSpec>, file_rows: u16 },
    DeleteUids { picks: Vec<u16> },
    /// delete where f = value
    DeleteF { f: u8 },
    CreateIndex { replace: bool },
    /// 0 append, 1 merge(2), 2 default
    Optimize { mode: u8 },
    Compact { target_rows: u16, materialize: bool, defer_remap: bool },
    Reopen,
}

impl Step {
    fn kind(&self) -> &'static str {
        match self {
            Step::Append { .. } => "append",
            Step::DeleteUids { .. } => "delete",
            Step::DeleteF { .. } => "delete-f",
            Step::CreateIndex { .. } => "create-index",
            Step::Optimize { .. } => "optimize",
            Step::Compact { .. } => "compact",
            Step::Reopen => "reopen",
        }
    }
}

#[derive(Clone, Debug, PartialEq, Eq, Serialize, Deserialize)]
pub enum Leaf {
    /// words joined by a blank; and = Operator::And
    Match { words: Vec<u8>, and: bool },
    Phrase { words: Vec<u8> },
}

#[derive(Clone, Debug, PartialEq, Eq, Serialize, Deserialize)]
pub enum QSpec {
    Leaf(Leaf),
    Bool { must: Vec<Leaf>, should: Vec<Leaf>, must_not: Vec<Leaf> },
}

#[derive(Clone, Debug, PartialEq, Eq, Serialize, Deserialize)]
pub struct Query {
    pub q: QSpec,
    /// None = no limit; Some(extra) = limit corpus size + extra
    pub limit: Option<u8>,
    /// prefilter `f <op> lit` (op: 0 <, 1 =, 2 >=)
    pub filter: Option<(u8, u8)>,
    /// leave the column unset (searches every indexed column = the one column)
    pub no_column: bool,
}

#[derive(Clone, Debug, PartialEq, Eq, Serialize, Deserialize)]
pub struct Input {
    pub cfg: Cfg,
    pub initial: Vec<RowSpec>,
    pub init_file_rows: u16,
    pub steps: Vec<Step>,
    pub queries: Vec<Query>,
}

// ---------------------------------------------------------------------------
// strategies

fn word() -> impl Strategy<Value = u8> {
    // the first words are more frequent, so that multi-term queries have matches
    prop_oneof![6 => 0u8..5, 3 => 0u8..(VOCAB.len() as u8)]
}

fn rowspec() -> impl Strategy<Value = RowSpec> {
    (prop::option::weighted(0.92, prop::collection::vec((word(), 0u8..(SEPS.len() as u8)), 0..=12)), 0u8..5).prop_map(|(doc, f)| RowSpec { doc, f })
}

fn leaf() -> impl Strategy<Value = Leaf> {
    prop_oneof![
        2 => word().prop_map(|w| Leaf::Match { words: vec![w], and: false }),
        7 => (prop::collection::vec(word(), 2..4), Just(false)).prop_map(|(words, and)| Leaf::Match { words, and }),
        3 => (prop::collection::vec(word(), 2..4), Just(true)).prop_map(|(words, and)| Leaf::Match { words, and }),
        3 => prop::collection::vec(word(), 1..4).prop_map(|words| Leaf::Phrase { words }),
    ]
}

fn qspec() -> impl Strategy<Value = QSpec> {
    prop_oneof![
        7 => leaf().prop_map(QSpec::Leaf),
        3 => (prop::collection::vec(leaf(), 0..3), prop::collection::vec(leaf(), 0..3), prop::collection::vec(leaf(), 0..2)).prop_map(|(must, should, must_not)| QSpec::Bool { must, should, must_not }),
    ]
}

fn query() -> impl Strategy<Value = Query> {
    (qspec(), prop::option::weighted(0.5, 0u8..4), prop::option::weighted(0.25, (0u8..3, 0u8..5)), prop::bool::weighted(0.15)).prop_map(|(q, limit, filter, no_column)| Query { q, limit, filter, no_column })
}

fn step_append() -> impl Strategy<Value = Step> {
    (prop::collection::vec(rowspec(), 1..10), prop_oneof![Just(3u16), Just(1000)]).prop_map(|(rows, file_rows)| Step::Append { rows, file_rows })
}

fn step_delete() -> impl Strategy<Value = Step> {
    prop_oneof![4 => prop::collection::vec(any::<u16>(), 1..6).prop_map(|picks| Step::DeleteUids { picks }), 1 => (0u8..5).prop_map(|f| Step::DeleteF { f })]
}

fn step_post() -> impl Strategy<Value = Step> {
    prop_oneof![
        6 => step_append(),
        5 => step_delete(),
        1 => (0u8..3).prop_map(|mode| Step::Optimize { mode }),
        1 => (prop_oneof![Just(6u16), Just(1000)], any::<bool>(), prop::bool::weighted(0.25)).prop_map(|(target_rows, materialize, defer_remap)| Step::Compact { target_rows, materialize, defer_remap }),
        1 => Just(Step::Reopen),
        1 => prop::bool::weighted(0.9).prop_map(|replace| Step::CreateIndex { replace }),
    ]
}

fn cfg() -> impl Strategy<Value = Cfg> {
    (0u8..2, any::<bool>(), prop::bool::weighted(0.8), any::<bool>(), prop::bool::weighted(0.25), prop_oneof![1 => Just(0u8), 3 => Just(1u8), 3 => Just(2u8), 2 => Just(3u8)], prop::bool::weighted(0.15), 0u8..2, any::<bool>())
        .prop_map(|(base, lower_case, with_position, max_token_len_40, large_utf8, storage, stable_row_ids, handler, v2_manifest)| Cfg { base, lower_case, with_position, max_token_len_40, large_utf8, storage, stable_row_ids, handler, v2_manifest })
}

fn input_strategy() -> BoxedStrategy<Input> {
    (
        cfg(),
        prop::collection::vec(rowspec(), 3..40),
        prop_oneof![Just(5u16), Just(1000)],
        prop::collection::vec(prop_oneof![step_append(), step_delete()], 0..2),
        (prop::bool::weighted(0.8), step_append(), prop::bool::weighted(0.7), step_delete(), prop::collection::vec(step_post(), 0..4)).prop_map(|(a_first, a, d_first, d, mut rest)| {
            // mostly: an unindexed tail and a deletion right after the index was built
            if d_first {
                rest.insert(0, d);
            }
            if a_first {
                rest.insert(0, a);
            }
            rest
        }),
        prop::collection::vec(query(), 1..6),
    )
        .prop_map(|(cfg, initial, init_file_rows, pre, post, queries)| {
            let mut steps = pre;
            steps.push(Step::CreateIndex { replace: true });
            steps.extend(post);
            Input { cfg, initial, init_file_rows, steps, queries }
        })
        .boxed()
}

// ---------------------------------------------------------------------------
// reference tokeniser / matcher

/// (token, position)
pub fn ref_tokens(cfg: &Cfg, text: &str) -> Vec<(String, usize)> {
    let is_tok = |c: char| if cfg.base % 2 == 0 { c.is_alphanumeric() } else { !c.is_ascii_whitespace() };
    let mut raw: Vec<String> = vec![];
    let mut cur = String::new();
    for c in text.chars() {
        if is_tok(c) {
            cur.push(c);
        } else if !cur.is_empty() {
            raw.push(std::mem::take(&mut cur));
        }
    }
    if !cur.is_empty() {
        raw.push(cur);
    }
    let mut out = vec![];
    for (pos, t) in raw.into_iter().enumerate() {
        if cfg.max_token_len_40 && t.len() >= 40 {
            continue;
        }
        let t = if cfg.lower_case { t.chars().flat_map(|c| c.to_lowercase()).collect::<String>() } else { t };
        out.push((t, pos));
    }
    out
}

fn doc_text(spec: &[(u8, u8)]) -> String {
    let mut s = String::new();
    // bytes since the last ASCII whitespace: keeps every whitespace-token far below the 40 byte limit
    let mut run = 0usize;
    for (i, (w, sep)) in spec.iter().enumerate() {
        let word = VOCAB[*w as usize % VOCAB.len()];
        s.push_str(word);
        run += word.len();
        if i + 1 < spec.len() || *sep as usize % SEPS.len() >= 3 {
            let mut sp = SEPS[*sep as usize % SEPS.len()];
            if !sp.contains(|c: char| c.is_ascii_whitespace()) && run + sp.len() + 12 >= 30 {
                sp = " ";
            }
            s.push_str(sp);
            if sp.contains(|c: char| c.is_ascii_whitespace()) {
                run = 0;
            } else {
                run += sp.len();
            }
        }
    }
    s
}

fn terms_text(words: &[u8]) -> String {
    words.iter().map(|w| VOCAB[*w as usize % VOCAB.len()]).collect::<Vec<_>>().join(" ")
}

struct LeafEval {
    /// query tokens in order
    qtokens: Vec<String>,
    and: bool,
    phrase: bool,
}

impl LeafEval {
    fn new(cfg: &Cfg, l: &Leaf) -> Self {
        match l {
            Leaf::Match { words, and } => LeafEval { qtokens: ref_tokens(cfg, &terms_text(words)).into_iter().map(|t| t.0).collect(), and: *and, phrase: false },
            Leaf::Phrase { words } => LeafEval { qtokens: ref_tokens(cfg, &terms_text(words)).into_iter().map(|t| t.0).collect(), and: true, phrase: true },
        }
    }
    fn distinct_terms(&self) -> usize {
        self.qtokens.iter().collect::<BTreeSet<_>>().len()
    }
    fn matches(&self, doc: &[(String, usize)]) -> bool {
        if self.qtokens.is_empty() {
            return false;
        }
        if self.phrase {
            let m = self.qtokens.len();
            // consecutive positions
            doc.iter().enumerate().any(|(i, (_, p0))| {
                (0..m).all(|j| doc.get(i + j).map(|(t, p)| *t == self.qtokens[j] && *p == p0 + j).unwrap_or(false))
            })
        } else if self.and {
            self.qtokens.iter().all(|q| doc.iter().any(|(t, _)| t == q))
        } else {
            self.qtokens.iter().any(|q| doc.iter().any(|(t, _)| t == q))
        }
    }
    /// `Wand::check_positions` advances every position iterator past an alignment of the first terms when a later
    /// term still lags behind: possible when a term at query index >= 2 also occurs before its place in a match
    fn phrase_lag_possible(&self, doc: &[(String, usize)]) -> bool {
        let m = self.qtokens.len();
        if !self.phrase || m < 3 {
            return false;
        }
        let starts: Vec<usize> = doc.iter().enumerate().filter(|(i, (_, p0))| (0..m).all(|j| doc.get(i + j).map(|(t, p)| *t == self.qtokens[j] && *p == p0 + j).unwrap_or(false))).map(|(_, (_, p0))| *p0).collect();
        starts.iter().any(|p0| (2..m).any(|j| doc.iter().any(|(t, x)| *t == self.qtokens[j] && *x >= j && *x - j < *p0)))
    }
    fn any_term(&self, doc: &[(String, usize)]) -> bool {
        self.qtokens.iter().any(|q| doc.iter().any(|(t, _)| t == q))
    }
}

fn eval_q(cfg: &Cfg, q: &QSpec, doc: &[(String, usize)]) -> bool {
    match q {
        QSpec::Leaf(l) => LeafEval::new(cfg, l).matches(doc),
        QSpec::Bool { must, should, must_not } => {
            let pos = if !must.is_empty() { must.iter().all(|l| LeafEval::new(cfg, l).matches(doc)) } else { should.iter().any(|l| LeafEval::new(cfg, l).matches(doc)) };
            pos && !must_not.iter().any(|l| LeafEval::new(cfg, l).matches(doc))
        }
    }
}

fn leaves(q: &QSpec) -> Vec<&Leaf> {
    match q {
        QSpec::Leaf(l) => vec![l],
        QSpec::Bool { must, should, must_not } => must.iter().chain(should.iter()).chain(must_not.iter()).collect(),
    }
}

// ---------------------------------------------------------------------------
// model + lance side

#[derive(Clone, Debug)]
struct MRow {
    uid: i64,
    f: i32,
    doc: Option<String>,
    toks: Vec<(String, usize)>,
    live: bool,
    indexed: bool,
    /// was in the index when it was (re)built or optimised (its tokens may still be in the postings)
    ever_indexed: bool,
}

struct Model {
    rows: Vec<MRow>,
    next_uid: i64,
    has_index: bool,
    /// tokens of every document that was live when an index segment was (re)built: the index vocabulary can only
    /// contain these
    index_vocab: BTreeSet<String>,
    /// documents (NULL ones included) and tokens the index statistics were computed from
    idx_docs: usize,
    idx_tokens: usize,
    /// a compaction with defer_index_remap ran while rows that are in the inverted index were deleted
    deferred_remap_after_delete: bool,
    /// stable row ids: a compaction ran while rows that are in the inverted index were deleted
    stable_compacted_deleted: bool,
    /// a compaction with defer_index_remap ran since the index was built ...
    deferred_pending: bool,
    /// ... and a later compaction remapped the index immediately
    deferred_then_immediate: bool,
}

fn schema_of(cfg: &Cfg) -> SchemaRef {
    Arc::new(Schema::new(vec![
        Field::new("uid", DataType::Int64, false),
        Field::new("f", DataType::Int32, false),
        Field::new("doc", if cfg.large_utf8 { DataType::LargeUtf8 } else { DataType::Utf8 }, true),
    ]))
}

fn batch_of(cfg: &Cfg, rows: &[MRow]) -> RecordBatch {
    let uid = Int64Array::from_iter_values(rows.iter().map(|r| r.uid));
    let f = Int32Array::from_iter_values(rows.iter().map(|r| r.f));
    let doc: ArrayRef = if cfg.large_utf8 { Arc::new(rows.iter().map(|r| r.doc.clone()).collect::<LargeStringArray>()) } else { Arc::new(rows.iter().map(|r| r.doc.clone()).collect::<StringArray>()) };
    RecordBatch::try_new(schema_of(cfg), vec![Arc::new(uid), Arc::new(f), doc]).unwrap()
}

struct Table {
    store: VStore,
    session: Arc<Session>,
    handler: Arc<dyn CommitHandler>,
    uri: String,
    ds: Dataset,
}

fn write_params(cfg: &Cfg, session: &Arc<Session>, handler: &Arc<dyn CommitHandler>, mode: WriteMode, file_rows: usize) -> WriteParams {
    WriteParams {
        mode,
        max_rows_per_file: file_rows.max(1),
        max_rows_per_group: 1024.min(file_rows.max(1)),
        commit_handler: Some(handler.clone()),
        data_storage_version: Some(storage_version(cfg.storage)),
        enable_stable_row_ids: cfg.stable_row_ids,
        enable_v2_manifest_paths: cfg.v2_manifest,
        session: Some(session.clone()),
        auto_cleanup: None,
        ..Default::default()
    }
}

fn index_params(cfg: &Cfg) -> InvertedIndexParams {
    InvertedIndexParams::default()
        .base_tokenizer(if cfg.base % 2 == 0 { "simple".to_string() } else { "whitespace".to_string() })
        .lower_case(cfg.lower_case)
        .stem(false)
        .remove_stop_words(false)
        .ascii_folding(false)
        .with_position(cfg.with_position)
        .max_token_length(if cfg.max_token_len_40 { Some(40) } else { None })
}

fn lance_leaf(l: &Leaf, with_column: bool) -> FtsQuery {
    let col = if with_column { Some("doc".to_string()) } else { None };
    match l {
        Leaf::Match { words, and } => FtsQuery::Match(MatchQuery::new(terms_text(words)).with_column(col).with_operator(if *and { Operator::And } else { Operator::Or })),
        Leaf::Phrase { words } => FtsQuery::Phrase(PhraseQuery::new(terms_text(words)).with_column(col)),
    }
}

fn lance_query(q: &QSpec, with_column: bool) -> FtsQuery {
    match q {
        QSpec::Leaf(l) => lance_leaf(l, with_column),
        QSpec::Bool { must, should, must_not } => FtsQuery::Boolean(BooleanQuery::new(
            must.iter().map(|l| (Occur::Must, lance_leaf(l, true))).chain(should.iter().map(|l| (Occur::Should, lance_leaf(l, true)))).chain(must_not.iter().map(|l| (Occur::MustNot, lance_leaf(l, true)))),
        )),
    }
}

async fn run_fts(ds: &Dataset, q: FtsQuery, limit: Option<i64>, filter: Option<&str>) -> Result<Vec<(i64, f32)>, String> {
    let fut = async {
        let mut sc = ds.scan();
        sc.full_text_search(FullTextSearchQuery::new_query(q).limit(limit)).map_err(|e| e.to_string())?;
        if let Some(f) = filter {
            sc.filter(f).map_err(|e| e.to_string())?;
            sc.prefilter(true);
        }
        sc.project(&["uid"]).map_err(|e| e.to_string())?;
        let st = sc.try_into_stream().await.map_err(|e| e.to_string())?;
        let bs: Vec<RecordBatch> = st.try_collect().await.map_err(|e| e.to_string())?;
        let mut out = vec![];
        for b in &bs {
            let u = b.column_by_name("uid").ok_or("no uid column in the result")?.as_any().downcast_ref::<Int64Array>().ok_or("uid is not Int64")?;
            let s = b.column_by_name("_score").ok_or("no _score column in the result")?.as_any().downcast_ref::<Float32Array>().ok_or("_score is not Float32")?;
            for i in 0..b.num_rows() {
                if u.is_null(i) || s.is_null(i) {
                    return Err("NULL uid or _score in the result".into());
                }
                out.push((u.value(i), s.value(i)));
            }
        }
        Ok(out)
    };
    // a panic inside one of lance's background tasks can leave the search pending forever (SharedPrerequisite never
    // completes): detected here instead of by the engine's watchdog
    match tokio::time::timeout(std::time::Duration::from_secs(SEARCH_TIMEOUT_S), std::panic::AssertUnwindSafe(fut).catch_unwind()).await {
        Ok(Ok(r)) => r,
        Ok(Err(_)) => Err("panic inside the search".into()),
        Err(_) => Err(format!("timeout: the search did not complete within {SEARCH_TIMEOUT_S} s")),
    }
}

fn multiset(toks: &[(String, usize)]) -> BTreeMap<&str, usize> {
    let mut m = BTreeMap::new();
    for (t, _) in toks {
        *m.entry(t.as_str()).or_insert(0) += 1;
    }
    m
}

struct QStats {
    nontrivial: bool,
    /// the search hung (known finding): every further search on this table would take the timeout again
    abort: bool,
}

/// see `c22::check_query`: stable row ids + a fragment with >= 2 deleted rows breaks the deletion mask of every
/// index search (listed under C22)
async fn check_query(qi: usize, at: &str, q: &Query, cfg: &Cfg, t: &Table, m: &Model, obs: &mut Obs, env: &Env) -> Result<QStats, Failure> {
    // (condition, finding, failure kind in strict mode); the first structural condition that holds takes the blame
    let candidates: [(bool, &'static str, &'static str); 3] = [
        // compact_files(defer_index_remap) followed by a compaction that remaps immediately: the second remap is applied
        // to addresses that still await the first one; the index answers with fragments that no longer exist
        (m.deferred_then_immediate, KNOWN_DEFERRED_THEN_IMMEDIATE, "fts-stale-addresses-after-deferred-then-immediate-remap"),
        // compact_files(defer_index_remap) over deleted indexed rows: the remapped DocSet loses the deleted documents
        // while the posting lists keep their doc ids: panics (index out of bounds) or answers with shifted rows
        (m.deferred_remap_after_delete, KNOWN_DEFERRED_REMAP, "fts-wrong-after-deferred-remap"),
        (cfg.stable_row_ids && m.rows.iter().filter(|r| !r.live).count() >= 2, super::c22::KNOWN_STABLE_DV_UNSORTED, "stable-rowid-deletions-break-index-search"),
    ];
    match check_query_inner(qi, at, q, cfg, t, m, obs, env).await {
        Err(f) if f.kind != "stable-rowid-compacted-deleted-row-in-index" && f.kind != "fts-panics-after-deferred-remap" => {
            for (cond, id, kind) in candidates {
                if cond {
                    if env.known(id) {
                        obs.known_hit(id, format!("[{}] {}", f.kind, f.msg));
                        return Ok(QStats { nontrivial: false, abort: f.msg.contains("timeout: the search did not complete") });
                    }
                    return Err(Failure::new(kind, format!("[{}] {}", f.kind, f.msg)));
                }
            }
            Err(f)
        }
        r => r,
    }
}

async fn check_query_inner(qi: usize, at: &str, q: &Query, cfg: &Cfg, t: &Table, m: &Model, obs: &mut Obs, env: &Env) -> Result<QStats, Failure> {
    let n_all = m.rows.len();
    let limit = q.limit.map(|extra| (n_all + extra as usize) as i64);
    let filter_sql = q.filter.map(|(op, lit)| format!("f {} {}", ["<", "=", ">="][op as usize % 3], lit));
    let passes = |r: &MRow| match q.filter {
        None => true,
        Some((op, lit)) => match op % 3 {
            0 => r.f < lit as i32,
            1 => r.f == lit as i32,
            _ => r.f >= lit as i32,
        },
    };
    let ls = leaves(&q.q);
    let has_phrase = ls.iter().any(|l| matches!(l, Leaf::Phrase { .. }));
    let is_bool = matches!(q.q, QSpec::Bool { .. });
    if let QSpec::Bool { must, should, .. } = &q.q {
        if must.is_empty() && should.is_empty() {
            // documented rejection: "boolean query must have at least one should/must query"
            let r = run_fts(&t.ds, lance_query(&q.q, true), limit, filter_sql.as_deref()).await;
            ensure!(r.is_err(), "bool-without-positive-clause-accepted", "{at} query {qi}: a boolean query with only must_not clauses returned {:?}", r);
            obs.rejected += 1;
            obs.label("bool-only-must-not-rejected");
            return Ok(QStats { nontrivial: false, abort: false });
        }
    }
    let lq = lance_query(&q.q, !(q.no_column && !is_bool));
    let what = format!("{at} query {qi}: {:?} limit={limit:?} filter={filter_sql:?} tokenizer={} lower_case={} positions={}", q.q, ["simple", "whitespace"][cfg.base as usize % 2], cfg.lower_case, cfg.with_position);
    let res = run_fts(&t.ds, lq, limit, filter_sql.as_deref()).await;
    obs.inner += 1;
    let got = match res {
        Ok(g) => g,
        Err(e) => {
            if has_phrase && !cfg.with_position {
                // documented: "position is not found but required for phrase queries"
                obs.rejected += 1;
                obs.label("phrase-without-positions-rejected");
                return Ok(QStats { nontrivial: false, abort: false });
            }
            if m.deferred_remap_after_delete && e.contains("index out of bounds") {
                if env.known(KNOWN_DEFERRED_REMAP) {
                    obs.known_hit(KNOWN_DEFERRED_REMAP, format!("{what}: {}", truncate_str(&e, 300)));
                    return Ok(QStats { nontrivial: false, abort: false });
                }
                fail!("fts-panics-after-deferred-remap", "{what}: {}", truncate_str(&e, 400));
            }
            if m.stable_compacted_deleted && e.contains("merge two RecordBatch with different sizes") {
                if env.known(super::c22::KNOWN_STABLE_COMPACTED) {
                    obs.known_hit(super::c22::KNOWN_STABLE_COMPACTED, format!("{what}: {}", truncate_str(&e, 300)));
                    return Ok(QStats { nontrivial: false, abort: false });
                }
                fail!("stable-rowid-compacted-deleted-row-in-index", "{what}: {}", truncate_str(&e, 400));
            }
            fail!("fts-error", "{what}: {}", truncate_str(&e, 400));
        }
    };
    if has_phrase && !cfg.with_position {
        fail!("phrase-without-positions-accepted", "{what}: a phrase query on an index without positions returned {} rows instead of the documented error", got.len());
    }
    obs.label(format!(
        "query:{}",
        match &q.q {
            QSpec::Leaf(Leaf::Match { words, and }) =>
                if words.len() == 1 {
                    "single-term".to_string()
                } else {
                    format!("match-{}", if *and { "and" } else { "or" })
                },
            QSpec::Leaf(Leaf::Phrase { .. }) => "phrase".into(),
            QSpec::Bool { .. } => "boolean".into(),
        }
    ));
    let by_uid: BTreeMap<i64, &MRow> = m.rows.iter().map(|r| (r.uid, r)).collect();
    // safety
    let mut seen = BTreeSet::new();
    for (uid, s) in &got {
        let Some(r) = by_uid.get(uid) else { fail!("unknown-row-returned", "{what}: uid {uid} was never written") };
        ensure!(r.live, "deleted-row-returned", "{what}: uid {uid} (score {s}) was deleted; doc {:?}", r.doc);
        ensure!(passes(r), "filter-violated", "{what}: uid {uid} (f = {}) does not satisfy the filter", r.f);
        ensure!(seen.insert(*uid), "row-returned-twice", "{what}: uid {uid} appears twice: {:?}", got);
        ensure!(!s.is_nan(), "nan-score", "{what}: uid {uid} has a NaN score");
    }
    for w in got.windows(2) {
        ensure!(w[0].1 >= w[1].1, "score-not-descending", "{what}: scores are not non-increasing: {:?}", got);
    }
    // matching set
    let expect: BTreeSet<i64> = m.rows.iter().filter(|r| r.live && passes(r) && r.doc.is_some() && eval_q(cfg, &q.q, &r.toks)).map(|r| r.uid).collect();
    let missing: Vec<i64> = expect.difference(&seen).copied().collect();
    let spurious: Vec<i64> = seen.difference(&expect).copied().collect();
    let evals: Vec<LeafEval> = ls.iter().map(|l| LeafEval::new(cfg, l)).collect();
    if !missing.is_empty() || !spurious.is_empty() {
        let describe = |ids: &[i64]| ids.iter().take(4).map(|u| format!("uid {u} (indexed={}) {:?}", by_uid[u].indexed, by_uid[u].doc)).collect::<Vec<_>>().join("; ");
        let detail = format!("{what}: missing [{}], spurious [{}]; returned {:?}", describe(&missing), describe(&spurious), got.iter().map(|g| g.0).collect::<Vec<_>>());
        // -- narrow classification: every discrepant row must be explained by the structural trigger of a listed finding
        // a query token is certainly in the index vocabulary when a live indexed document contains it; tokens that only
        // deleted (or no) indexed documents contain may have been purged by a remap / optimize
        let in_vocab = |t: &String| m.index_vocab.contains(t) && m.rows.iter().any(|r| r.live && r.indexed && r.toks.iter().any(|(x, _)| x == t));
        // The flat scorer (MemBM25Scorer) starts from the index statistics (trunc(avg length) * docs tokens, docs
        // documents, df(t) = max(index df, 1)) and is updated with every unindexed document BEFORE that document is
        // scored: df(t) grows by one per OCCURRENCE and the average length is an integer division.  A matching
        // document is dropped when its score is <= 0, which needs idf(t) <= 0 (df(t) > docs) for one of its query
        // tokens or an average length of 0.  Both are decided here for the most adverse scan order (the scan over
        // the unindexed fragments is unordered), with the bounds that make the defect most likely.
        // bounds on the number of documents the index statistics count: NULL documents never, empty ones only when
        // their partition has at least one token, deleted ones until the index is rewritten
        let ni_lo = m.rows.iter().filter(|r| r.live && r.indexed && !r.toks.is_empty()).count();
        let ni_hi = m.rows.iter().filter(|r| r.ever_indexed && r.doc.is_some()).count();
        let total0 = if m.idx_docs == 0 { 0 } else { (m.idx_tokens / m.idx_docs) * ni_lo };
        let unindexed: Vec<&MRow> = m.rows.iter().filter(|r| r.live && !r.indexed && r.doc.is_some()).collect();
        let empties = unindexed.iter().filter(|r| r.toks.is_empty()).count();
        let occ = |r: &MRow, t: &str| r.toks.iter().filter(|(x, _)| x == t).count();
        let nonpositive_possible = |r: &MRow, e: &LeafEval| {
            let avg_zero = !r.toks.is_empty() && total0 + r.toks.len() <= ni_hi + empties;
            let idf_nonpos = e.qtokens.iter().any(|t| {
                let c = occ(r, t);
                if c == 0 {
                    return false;
                }
                let df0 = m.rows.iter().filter(|x| x.ever_indexed && occ(x, t) > 0).count().max(1);
                let others: usize = unindexed.iter().filter(|u| u.uid != r.uid).map(|u| occ(u, t).max(1) - 1).sum();
                df0 + c - 1 + others > ni_lo
            });
            avg_zero || idf_nonpos
        };
        // (finding id, failure kind in strict mode)
        let explain = |uid: &i64, is_missing: bool| -> Option<(&'static str, &'static str)> {
            let r = by_uid[uid];
            if !is_bool {
                let e = &evals[0];
                if !is_missing {
                    if !r.indexed && !e.phrase && e.and && e.distinct_terms() >= 2 && e.any_term(&r.toks) {
                        return Some((KNOWN_FLAT_AND, "flat-and-matches-like-or"));
                    }
                    let known: Vec<&String> = e.qtokens.iter().filter(|t| in_vocab(t)).collect();
                    if r.indexed && !e.phrase && e.and && known.len() < e.qtokens.len() && !known.is_empty() && known.iter().all(|q| r.toks.iter().any(|(t, _)| t == *q)) {
                        return Some((KNOWN_AND_ABSENT_TOKEN, "and-ignores-absent-token"));
                    }
                    // a selective prefilter switches WAND to `flat_search`, which never looks at the operator
                    if r.indexed && q.filter.is_some() && !e.phrase && e.and && e.distinct_terms() >= 2 && e.any_term(&r.toks) {
                        return Some((KNOWN_PREFILTER_AND, "prefilter-and-matches-like-or"));
                    }
                    // ... and checks phrase positions on posting lists that are not all aligned with the candidate
                    if r.indexed && q.filter.is_some() && e.phrase && e.qtokens.len() >= 2 && e.any_term(&r.toks) {
                        return Some((KNOWN_PREFILTER_AND, "prefilter-phrase-false-match"));
                    }
                } else {
                    if !r.indexed && e.phrase {
                        return Some((KNOWN_PHRASE_UNINDEXED, "phrase-misses-unindexed-rows"));
                    }
                    if r.indexed && e.phrase_lag_possible(&r.toks) {
                        return Some((KNOWN_PHRASE_LAG, "phrase-misses-indexed-match"));
                    }
                    // ... and only aligns the first posting list with a candidate: documents without that term are skipped
                    if r.indexed && q.filter.is_some() && e.qtokens.len() >= 2 {
                        return Some((KNOWN_PREFILTER_AND, "prefilter-multi-term-misses-match"));
                    }
                    if !r.indexed && !e.phrase && nonpositive_possible(r, e) {
                        return Some((KNOWN_FLAT_NONPOS, "flat-nonpositive-score-drops-match"));
                    }
                }
                None
            } else {
                // boolean queries inherit the leaf defects (either direction, through must_not)
                if !r.indexed {
                    if evals.iter().any(|e| e.phrase) {
                        return Some((KNOWN_PHRASE_UNINDEXED, "bool-phrase-misses-unindexed-rows"));
                    }
                    if evals.iter().any(|e| !e.phrase && e.and && e.distinct_terms() >= 2) {
                        return Some((KNOWN_FLAT_AND, "bool-flat-and-matches-like-or"));
                    }
                    if evals.iter().any(|e| !e.phrase && nonpositive_possible(r, e)) {
                        return Some((KNOWN_FLAT_NONPOS, "bool-flat-nonpositive-score-drops-match"));
                    }
                } else if evals.iter().any(|e| !e.phrase && e.and && e.qtokens.iter().any(|t| !in_vocab(t)) && e.qtokens.iter().any(|t| in_vocab(t))) {
                    return Some((KNOWN_AND_ABSENT_TOKEN, "bool-and-ignores-absent-token"));
                } else if q.filter.is_some() && evals.iter().any(|e| e.qtokens.len() >= 2) {
                    return Some((KNOWN_PREFILTER_AND, "bool-prefilter-multi-term-wrong"));
                } else if evals.iter().any(|e| e.phrase_lag_possible(&r.toks)) {
                    return Some((KNOWN_PHRASE_LAG, "bool-phrase-misses-indexed-match"));
                }
                None
            }
        };
        let mut hits: Vec<&'static str> = vec![];
        for (uid, is_missing) in missing.iter().map(|u| (u, true)).chain(spurious.iter().map(|u| (u, false))) {
            match explain(uid, is_missing) {
                Some((id, kind)) => {
                    if env.known(id) {
                        if !hits.contains(&id) {
                            hits.push(id);
                        }
                    } else {
                        fail!(kind, "{detail}");
                    }
                }
                None => {
                    if is_missing {
                        fail!("matching-row-missing", "uid {uid}: {detail}");
                    }
                    fail!("non-matching-row-returned", "uid {uid}: {detail}");
                }
            }
        }
        for id in hits {
            obs.known_hit(id, detail.clone());
        }
        return Ok(QStats { nontrivial: false, abort: false });
    }
    // metamorphic BM25 sanity (single leaf queries; same side of the index)
    if let QSpec::Leaf(l) = &q.q {
        let ev = LeafEval::new(cfg, l);
        let qset: BTreeSet<&str> = ev.qtokens.iter().map(|s| s.as_str()).collect();
        let rel = |a: f32, b: f32| (a - b).abs() <= 1e-5 * a.abs().max(b.abs());
        // Wand::flat_search (selective prefilter) scores only the posting lists up to its pivot
        let prefilter_multi = q.filter.is_some() && ev.qtokens.len() >= 2;
        for (i, (ua, sa)) in got.iter().enumerate() {
            for (ub, sb) in got.iter().skip(i + 1) {
                let (ra, rb) = (by_uid[ua], by_uid[ub]);
                if ra.indexed != rb.indexed {
                    continue;
                }
                let (ma, mb) = (multiset(&ra.toks), multiset(&rb.toks));
                if ma == mb {
                    obs.label("score:equal-multisets-pair");
                    if !rel(*sa, *sb) {
                        let detail = format!("{what}: uid {ua} and uid {ub} (indexed={}) have the same token multiset {:?} but scores {sa} and {sb}", ra.indexed, ra.doc);
                        if !ra.indexed {
                            if env.known(KNOWN_FLAT_SCORE_DRIFT) {
                                obs.known_hit(KNOWN_FLAT_SCORE_DRIFT, detail);
                                continue;
                            }
                            fail!("flat-equal-docs-different-score", "{detail}");
                        }
                        if prefilter_multi && env.known(KNOWN_PREFILTER_AND) {
                            obs.known_hit(KNOWN_PREFILTER_AND, detail);
                            continue;
                        }
                        fail!("equal-docs-different-score", "{detail}");
                    }
                } else if ra.toks.len() == rb.toks.len() {
                    // same length: if a has at least as many occurrences of every query token, it must not score lower
                    let fa = |t: &str| ma.get(t).copied().unwrap_or(0);
                    let fb = |t: &str| mb.get(t).copied().unwrap_or(0);
                    let a_ge = qset.iter().all(|t| fa(t) >= fb(t));
                    let b_ge = qset.iter().all(|t| fb(t) >= fa(t));
                    let bad = (a_ge && !b_ge && *sa < *sb && !rel(*sa, *sb)) || (b_ge && !a_ge && *sb < *sa && !rel(*sa, *sb)) || (a_ge && b_ge && !rel(*sa, *sb));
                    if a_ge || b_ge {
                        obs.label("score:same-length-dominance-pair");
                    }
                    if bad {
                        let detail = format!("{what}: same length {} tokens, uid {ua} {:?} scores {sa}, uid {ub} {:?} scores {sb} (indexed={})", ra.toks.len(), ra.doc, rb.doc, ra.indexed);
                        if !ra.indexed {
                            if env.known(KNOWN_FLAT_SCORE_DRIFT) {
                                obs.known_hit(KNOWN_FLAT_SCORE_DRIFT, detail);
                                continue;
                            }
                            fail!("flat-more-occurrences-score-lower", "{detail}");
                        }
                        if prefilter_multi && env.known(KNOWN_PREFILTER_AND) {
                            obs.known_hit(KNOWN_PREFILTER_AND, detail);
                            continue;
                        }
                        fail!("more-occurrences-score-lower", "{detail}");
                    }
                }
            }
        }
    }
    // non-trivial: >= 1 deleted matching document, >= 1 unindexed matching document, >= 2 query terms
    let deleted_match = m.rows.iter().any(|r| !r.live && passes(r) && r.doc.is_some() && eval_q(cfg, &q.q, &r.toks));
    let unindexed_match = expect.iter().any(|u| !by_uid[u].indexed);
    let terms: usize = evals.iter().map(|e| e.qtokens.len()).sum();
    if deleted_match {
        obs.label("deleted-matching-doc");
    }
    if unindexed_match {
        obs.label("unindexed-matching-doc");
    }
    if expect.is_empty() {
        obs.label("no-match");
    }
    Ok(QStats { nontrivial: deleted_match && unindexed_match && terms >= 2, abort: false })
}

fn resolve_rows(specs: &[RowSpec], cfg: &Cfg, m: &mut Model) -> Vec<MRow> {
    specs
        .iter()
        .map(|s| {
            let doc = s.doc.as_ref().map(|d| doc_text(d));
            let toks = doc.as_ref().map(|d| ref_tokens(cfg, d)).unwrap_or_default();
            let r = MRow { uid: m.next_uid, f: (s.f % 5) as i32, doc, toks, live: true, indexed: false, ever_indexed: false };
            m.next_uid += 1;
            r
        })
        .collect()
}

async fn apply_step(step: &Step, cfg: &Cfg, t: &mut Table, m: &mut Model) -> Result<(), String> {
    match step {
        Step::Append { rows, file_rows } => {
            let saved = m.next_uid;
            let new = resolve_rows(rows, cfg, m);
            let reader = RecordBatchIterator::new(vec![Ok(batch_of(cfg, &new))], schema_of(cfg));
            let params = write_params(cfg, &t.session, &t.handler, WriteMode::Append, *file_rows as usize);
            match t.ds.append(reader, Some(params)).await {
                Ok(()) => {
                    m.rows.extend(new);
                    Ok(())
                }
                Err(e) => {
                    m.next_uid = saved;
                    Err(e.to_string())
                }
            }
        }
        Step::DeleteUids { picks } => {
            let live: Vec<i64> = m.rows.iter().filter(|r| r.live).map(|r| r.uid).collect();
            if live.is_empty() {
                return Ok(());
            }
            let mut ids: Vec<i64> = picks.iter().map(|p| live[idx(*p, live.len())]).collect();
            ids.sort_unstable();
            ids.dedup();
            t.ds.delete(&format!("uid IN ({})", ids.iter().map(|i| i.to_string()).collect::<Vec<_>>().join(", "))).await.map_err(|e| e.to_string())?;
            for r in m.rows.iter_mut() {
                if ids.contains(&r.uid) {
                    r.live = false;
                }
            }
            Ok(())
        }
        Step::DeleteF { f } => {
            t.ds.delete(&format!("f = {}", f % 5)).await.map_err(|e| e.to_string())?;
            for r in m.rows.iter_mut() {
                if r.f == (*f % 5) as i32 {
                    r.live = false;
                }
            }
            Ok(())
        }
        Step::CreateIndex { replace } => {
            t.ds.create_index(&["doc"], IndexType::Inverted, Some("doc_idx".into()), &index_params(cfg), *replace).await.map_err(|e| e.to_string())?;
            m.has_index = true;
            m.index_vocab.clear();
            m.idx_docs = 0;
            m.idx_tokens = 0;
            m.deferred_remap_after_delete = false;
            m.stable_compacted_deleted = false;
            m.deferred_pending = false;
            m.deferred_then_immediate = false;
            for r in m.rows.iter_mut() {
                r.indexed = r.live;
                r.ever_indexed = r.live;
                if r.live {
                    m.index_vocab.extend(r.toks.iter().map(|t| t.0.clone()));
                    m.idx_docs += 1;
                    m.idx_tokens += r.toks.len();
                }
            }
            Ok(())
        }
        Step::Optimize { mode } => {
            let opts = match mode % 3 {
                0 => OptimizeOptions::append(),
                1 => OptimizeOptions::merge(2),
                _ => OptimizeOptions::default(),
            };
            t.ds.optimize_indices(&opts).await.map_err(|e| e.to_string())?;
            if m.has_index {
                for r in m.rows.iter_mut() {
                    if r.live {
                        if !r.indexed {
                            m.idx_docs += 1;
                            m.idx_tokens += r.toks.len();
                        }
                        r.indexed = true;
                        r.ever_indexed = true;
                        m.index_vocab.extend(r.toks.iter().map(|t| t.0.clone()));
                    }
                }
            }
            Ok(())
        }
        Step::Compact { target_rows, materialize, defer_remap } => {
            let opts = CompactionOptions {
                target_rows_per_fragment: (*target_rows as usize).max(1),
                materialize_deletions: *materialize,
                materialize_deletions_threshold: 0.0,
                defer_index_remap: *defer_remap,
                num_threads: Some(1),
                ..Default::default()
            };
            compact_files(&mut t.ds, opts, None).await.map(|_| ()).map_err(|e| e.to_string())?;
            if *defer_remap && m.has_index && m.rows.iter().any(|r| r.ever_indexed && !r.live) {
                m.deferred_remap_after_delete = true;
            }
            if m.has_index {
                if *defer_remap {
                    m.deferred_pending = true;
                } else if m.deferred_pending {
                    m.deferred_then_immediate = true;
                }
            }
            if cfg.stable_row_ids && m.has_index && m.rows.iter().any(|r| r.ever_indexed && !r.live) {
                m.stable_compacted_deleted = true;
            }
            Ok(())
        }
        Step::Reopen => {
            let session = new_session(&t.store);
            let ds = DatasetBuilder::from_uri(&t.uri).with_session(session.clone()).with_commit_handler(t.handler.clone()).load().await.map_err(|e| e.to_string())?;
            t.session = session;
            t.ds = ds;
            Ok(())
        }
    }
}

pub async fn run(input: &Input, obs: &mut Obs, env: &Env) -> CheckResult {
    let cfg = &input.cfg;
    if let Ok(dir) = std::env::var("VERIF_TRACE_CASES") {
        // debugging aid (hangs): the case each worker is working on
        let _ = std::fs::write(format!("{dir}/C23-w{}.json", env.worker), serde_json::to_string(&serde_json::json!({ "input": input })).unwrap_or_default());
    }
    obs.label(format!("tokenizer:{}{}", ["simple", "whitespace"][cfg.base as usize % 2], if cfg.lower_case { "+lower" } else { "" }));
    let store = VStore::new();
    let session = new_session(&store);
    let handler = handler_of(cfg.handler);
    let uri = store::uri("t");
    let mut m = Model { rows: vec![], next_uid: 0, has_index: false, index_vocab: BTreeSet::new(), idx_docs: 0, idx_tokens: 0, deferred_remap_after_delete: false, stable_compacted_deleted: false, deferred_pending: false, deferred_then_immediate: false };
    let init = resolve_rows(&input.initial, cfg, &mut m);
    let reader = RecordBatchIterator::new(vec![Ok(batch_of(cfg, &init))], schema_of(cfg));
    let params = write_params(cfg, &session, &handler, WriteMode::Create, input.init_file_rows as usize);
    let ds = match Dataset::write(reader, &uri, Some(params)).await {
        Ok(d) => d,
        Err(e) => {
            obs.rejected += 1;
            obs.label(format!("create-rejected:{}", truncate_str(&e.to_string(), 60)));
            return Ok(());
        }
    };
    m.rows.extend(init);
    if m.rows.iter().any(|r| r.doc.is_none()) {
        obs.label("null-document");
    }
    if m.rows.iter().any(|r| r.doc.as_deref() == Some("")) {
        obs.label("empty-document");
    }
    let mut t = Table { store, session, handler, uri, ds };
    let mut kinds: Vec<&'static str> = vec![];
    let mut any_nt = false;
    let nsteps = input.steps.len();
    for (si, step) in input.steps.iter().enumerate() {
        kinds.push(step.kind());
        let r = match tokio::time::timeout(std::time::Duration::from_secs(STEP_TIMEOUT_S), std::panic::AssertUnwindSafe(apply_step(step, cfg, &mut t, &mut m)).catch_unwind()).await {
            Ok(Ok(r)) => r,
            Ok(Err(_)) => fail!("step-panic", "step {si} ({}) panicked", step.kind()),
            Err(_) => fail!("step-timeout", "step {si} ({}) did not complete within {STEP_TIMEOUT_S} s", step.kind()),
        };
        if let Err(e) = r {
            obs.rejected += 1;
            obs.label(format!("step-rejected:{}:{}", step.kind(), truncate_str(&e, 70)));
        }
        if !m.has_index {
            continue;
        }
        let _ = nsteps;
        let at = format!("after step {si} ({})", kinds.join(","));
        for (qi, q) in input.queries.iter().enumerate() {
            let st = check_query(qi, &at, q, cfg, &t, &m, obs, env).await?;
            any_nt |= st.nontrivial;
            if st.abort {
                obs.label("case-aborted-after-search-timeout");
                return Ok(());
            }
        }
    }
    if any_nt {
        obs.nontrivial(format!("{}|{}|{}|{}", ["simple", "ws"][cfg.base as usize % 2], cfg.lower_case, kinds.join(","), input.queries.iter().map(|q| match &q.q {
            QSpec::Leaf(Leaf::Match { and, words }) => format!("m{}{}", if *and { "&" } else { "|" }, words.len()),
            QSpec::Leaf(Leaf::Phrase { words }) => format!("p{}", words.len()),
            QSpec::Bool { must, should, must_not } => format!("b{}{}{}", must.len(), should.len(), must_not.len()),
        }).collect::<Vec<_>>().join(",")));
    }
    Ok(())
}

impl Property for C23 {
    type Input = Input;
    fn id(&self) -> &'static str {
        "C23"
    }
    fn rule(&self) -> String {
        "A table (uid Int64, f Int32, doc Utf8/LargeUtf8 nullable; storage legacy/2.0/2.1/2.2, optional stable row ids) of 3-40 documents of 0-12 words from a 14 word vocabulary (ASCII mixed case, digits, Latin-1, CJK, Cyrillic, a hyphenated word) joined by blanks / punctuation / tabs / newlines, plus empty and NULL documents, gets an inverted index (base tokenizer simple or whitespace, lower_case on/off, positions on/off, max_token_length 40/None; stemming, stop words and ASCII folding off) and then a history of appends (unindexed tail), deletes (uid lists, f = c), optimize_indices (append/merge/default), compaction, index replacement and re-opening. After every step from the index creation on 1-5 queries run: single term, multi-term MATCH with Operator OR / AND, PHRASE (slop 0), BOOLEAN (must / should / must_not of such leaves); no limit or limit >= corpus size; optional prefilter f <op> c; fuzziness stays Some(0). Oracle: reference tokeniser re-implemented from tantivy's definitions and a reference matcher over the model rows: returned uid set == matching live rows (indexed or not) passing the filter; no unknown / deleted / duplicate row; _score non-increasing in the returned order; metamorphic BM25 sanity for leaf queries among rows on the same side of the index: identical token multisets => equal scores (rel 1e-5), equal length and at least as many occurrences of every query token => not a lower score. A phrase query on an index without positions and a boolean query with only must_not must be rejected. Non-trivial = a query with >= 2 terms that has >= 1 deleted matching document and >= 1 unindexed matching document; distinct by (tokenizer, lower_case, step kinds, query shapes).".into()
    }
    fn assumptions(&self) -> Vec<String> {
        vec![
            "tokenisation as in tantivy 0.24: simple = runs of char::is_alphanumeric, whitespace = runs of non-ASCII-whitespace, lower casing per char; no generated token reaches 40 bytes".into(),
            "MatchQuery keeps fuzziness Some(0); stemming, stop-word removal and ASCII folding are disabled; phrase slop is 0".into(),
            "limits are None or >= number of rows ever written, so WAND's top-k pruning cannot hide a match".into(),
            "BM25 scores are not re-derived; the metamorphic relations compare only documents that are both indexed or both unindexed (the flat scorer uses different corpus statistics)".into(),
            "a prefilter (prefilter(true) + filter on f) restricts the documents; postfilters, MultiMatch and Boost queries are not generated".into(),
        ]
    }
    fn cases(&self, tier: Tier) -> u32 {
        tier.pick(400, 10000)
    }
    fn max_shrink_iters(&self) -> u32 {
        200
    }
    fn strategy(&self, _tier: Tier) -> BoxedStrategy<Input> {
        input_strategy()
    }
    fn check(&self, input: &Input, obs: &mut Obs, env: &Env) -> CheckResult {
        env.block_on(run(input, obs, env))
    }
}
