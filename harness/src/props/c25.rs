//! C25 — File format round trip.
//!
//! A file is described by a plain serde tree: a schema (`Fld`/`Ty`), per-node
//! value profiles (`Gen`: seed, null rate, cardinality, run rate, lengths) that are
//! expanded deterministically into a *model* (`V` trees, explicit nulls), batch
//! sizes, writer options, a file version and a list of read requests.
//! Arrow arrays are built from the model (with garbage behind null lists / null
//! structs, sliced inputs), written with lance's v2 `FileWriter` onto the harness'
//! in-memory `VStore` behind a real `ScanScheduler`, read back with `FileReader`
//! and converted to `V` trees again.  Oracle = the model, indexed by the request
//! and projected.

use crate::engine::*;
use crate::store::VStore;
use crate::{ensure, fail};
use arrow_array::cast::AsArray;
use arrow_array::types::*;
use arrow_array::*;
use arrow_buffer::{i256, BooleanBuffer, NullBuffer, OffsetBuffer, ScalarBuffer};
use arrow_schema::{DataType, Field as AField, Fields, Schema as ASchema, TimeUnit};
use futures::{StreamExt, TryStreamExt};
use lance_core::cache::LanceCache;
use lance_core::datatypes::Schema as LSchema;
use lance_encoding::decoder::{DecoderConfig, DecoderPlugins, FilterExpression};
use lance_encoding::version::LanceFileVersion;
use lance_file::reader::{FileReader, FileReaderOptions, ReaderProjection};
use lance_file::writer::{FileWriter, FileWriterOptions};
use lance_io::object_store::ObjectStore as LanceObjectStore;
use lance_io::scheduler::{ScanScheduler, SchedulerConfig};
use lance_io::utils::CachedFileSize;
use lance_io::ReadBatchParams;
use object_store::path::Path;
use proptest::prelude::*;
use serde::{Deserialize, Serialize};
use std::collections::{BTreeMap, BTreeSet, HashMap};
use std::sync::Arc;

pub struct C25;

// ---------------------------------------------------------------------------
// input description

#[derive(Clone, Copy, Debug, Serialize, Deserialize, PartialEq, Eq)]
pub enum Ver {
    V2_0,
    V2_1,
    V2_2,
}

impl Ver {
    fn lance(self) -> LanceFileVersion {
        match self {
            Ver::V2_0 => LanceFileVersion::V2_0,
            Ver::V2_1 => LanceFileVersion::V2_1,
            Ver::V2_2 => LanceFileVersion::V2_2,
        }
    }
    fn name(self) -> &'static str {
        match self {
            Ver::V2_0 => "2.0",
            Ver::V2_1 => "2.1",
            Ver::V2_2 => "2.2",
        }
    }
}

#[derive(Clone, Copy, Debug, Serialize, Deserialize, PartialEq, Eq)]
pub enum Unit {
    S,
    Ms,
    Us,
    Ns,
}

impl Unit {
    fn arrow(self) -> TimeUnit {
        match self {
            Unit::S => TimeUnit::Second,
            Unit::Ms => TimeUnit::Millisecond,
            Unit::Us => TimeUnit::Microsecond,
            Unit::Ns => TimeUnit::Nanosecond,
        }
    }
}

#[derive(Clone, Copy, Debug, Serialize, Deserialize, PartialEq, Eq)]
pub enum Key {
    I8,
    I16,
    I32,
    U8,
}

#[derive(Clone, Debug, Serialize, Deserialize, PartialEq)]
pub enum Ty {
    Bool,
    I8,
    I16,
    I32,
    I64,
    U8,
    U16,
    U32,
    U64,
    F16,
    F32,
    F64,
    Date32,
    Date64,
    Time32(Unit),
    Time64(Unit),
    Ts(Unit, Option<String>),
    Dur(Unit),
    Dec128(u8, i8),
    Dec256(u8, i8),
    Utf8,
    LargeUtf8,
    Binary,
    LargeBinary,
    Utf8View,
    BinaryView,
    Fsb(u8),
    /// dictionary: key type, value type (Utf8 / LargeUtf8 / Binary / Int32 ...), nulls expressed through a null dictionary entry
    Dict(Key, Box<Ty>, bool),
    List(Box<Fld>),
    LargeList(Box<Fld>),
    /// item (named "item", nullable), dimension
    Fsl(Box<Fld>, u8),
    Struct(Vec<Fld>),
}

/// value profile of one node
#[derive(Clone, Debug, Serialize, Deserialize, PartialEq)]
pub struct Gen {
    pub seed: u32,
    /// percent of nulls (only if the field is nullable)
    pub nulls: u8,
    /// 0 = unbounded, else number of distinct values
    pub card: u8,
    /// percent chance to repeat the previous value
    pub runs: u8,
    /// max list length / string length scale
    pub len: u8,
    /// 0 short, 1 = 256..600 bytes, 2 = >= 32 KiB (strings / binary only)
    pub wide: u8,
    /// put garbage (instead of nulls / nothing) behind null lists and null structs
    pub garbage: bool,
}

#[derive(Clone, Debug, Serialize, Deserialize, PartialEq)]
pub struct Fld {
    pub name: String,
    pub ty: Ty,
    pub nullable: bool,
    pub meta: Vec<(String, String)>,
    pub gen: Gen,
}

#[derive(Clone, Debug, Serialize, Deserialize, PartialEq)]
pub struct WOpts {
    pub max_page_bytes: Option<u32>,
    pub data_cache_bytes: Option<u32>,
    pub keep_original_array: Option<bool>,
    /// schema given at `try_new` (true) or inferred from the first batch (`new_lazy`)
    pub eager_schema: bool,
}

#[derive(Clone, Debug, Serialize, Deserialize, PartialEq)]
pub enum Req {
    Full,
    Range(u16, u16),
    RangeFrom(u16),
    RangeTo(u16),
    /// cut points (fractions); consecutive pairs of the sorted cuts are the ranges
    Ranges(Vec<u16>),
    Indices(Vec<u16>),
}

#[derive(Clone, Copy, Debug, Serialize, Deserialize, PartialEq, Eq)]
pub enum Api {
    Stream,
    Tasks,
    BaseProjection,
    Blocking,
}

#[derive(Clone, Copy, Debug, Serialize, Deserialize, PartialEq, Eq)]
pub enum ProjKind {
    All,
    Names,
    FieldIds,
}

#[derive(Clone, Debug, Serialize, Deserialize, PartialEq)]
pub struct Read {
    pub req: Req,
    pub proj: ProjKind,
    /// paths as fractions: first = top-level field, following = child choice (or stop)
    pub paths: Vec<Vec<u16>>,
    pub batch_size: u8,
    pub readahead: u8,
    pub api: Api,
    pub cache_rep_index: bool,
    pub validate: bool,
}

#[derive(Clone, Debug, Serialize, Deserialize, PartialEq)]
pub struct Input {
    pub version: Ver,
    pub fields: Vec<Fld>,
    /// rows per `write_batch` call
    pub batches: Vec<u16>,
    /// rows in front of the first batch in the backing arrays (sliced away)
    pub pad_front: u8,
    /// true: one backing array per column, every batch is a slice of it; false: arrays built per batch
    pub sliced: bool,
    pub wopts: WOpts,
    /// object store block size 4 KiB (forces a second tail read for larger footers) instead of 64 KiB
    pub small_block: bool,
    pub reads: Vec<Read>,
}

// ---------------------------------------------------------------------------
// model values

#[derive(Clone, Debug, PartialEq, Eq)]
pub enum V {
    Null,
    B(bool),
    /// integers, temporal, decimals
    I(i128),
    /// float bit pattern
    F(u64),
    /// strings, binary, fixed size binary
    Y(Vec<u8>),
    /// list / large list / fixed size list
    L(Vec<V>),
    /// struct
    S(Vec<V>),
}

fn show(v: &V) -> String {
    let s = format!("{v:?}");
    truncate_str(&s, 300)
}

// ---------------------------------------------------------------------------
// deterministic expansion of the profiles

#[derive(Clone)]
struct Rng(u64);

impl Rng {
    fn new(seed: u64) -> Self {
        let mut r = Rng(seed ^ 0x5DEE_CE66_D1CE_4E5B);
        r.next();
        r
    }
    fn next(&mut self) -> u64 {
        self.0 = self.0.wrapping_add(0x9E37_79B9_7F4A_7C15);
        let mut z = self.0;
        z = (z ^ (z >> 30)).wrapping_mul(0xBF58_476D_1CE4_E5B9);
        z = (z ^ (z >> 27)).wrapping_mul(0x94D0_49BB_1331_11EB);
        z ^ (z >> 31)
    }
    fn below(&mut self, n: u64) -> u64 {
        if n == 0 {
            0
        } else {
            ((self.next() as u128 * n as u128) >> 64) as u64
        }
    }
    fn pct(&mut self, p: u8) -> bool {
        p > 0 && self.below(100) < p as u64
    }
}

fn int_bits(r: &mut Rng, bits: u32, signed: bool) -> i128 {
    let raw = r.next();
    let mode = r.below(8);
    let full: i128 = if bits == 64 {
        if signed {
            raw as i64 as i128
        } else {
            raw as i128
        }
    } else {
        let m = raw & ((1u64 << bits) - 1);
        if signed {
            let sh = 64 - bits;
            (((m << sh) as i64) >> sh) as i128
        } else {
            m as i128
        }
    };
    let (lo, hi): (i128, i128) = if signed { (-(1i128 << (bits - 1)), (1i128 << (bits - 1)) - 1) } else { (0, (1i128 << bits) - 1) };
    let v = match mode {
        0..=2 => (raw % 16) as i128,
        3 => (raw % 1000) as i128,
        4 | 5 => full,
        6 => [lo, hi, 0, if signed { -1 } else { 1 }, hi - 1][(raw % 5) as usize],
        _ => {
            if signed {
                -((raw % 300) as i128)
            } else {
                (raw % 70000) as i128
            }
        }
    };
    v.clamp(lo, hi)
}

fn pow10(p: u32) -> i128 {
    10i128.pow(p.min(38))
}

const WORDS: [&str; 16] = ["a", "b", "cd", "é", "ß", "0", " ", "日本", "😀", "xyz", "lance", "-", "A", "zz", "q", "\u{0}"];

fn gen_bytes(r: &mut Rng, g: &Gen, text: bool) -> Vec<u8> {
    let target = match g.wide {
        0 => r.below(g.len as u64 * 3 + 1) as usize,
        1 => 256 + r.below(350) as usize,
        _ => 32 * 1024 + r.below(3000) as usize,
    };
    let mut out = Vec::with_capacity(target + 8);
    if text {
        // for wide values use a repetitive body so that compression has something to do
        let period = 1 + r.below(7) as usize;
        let base: Vec<&str> = (0..period).map(|_| WORDS[r.below(16) as usize]).collect();
        let mut i = 0;
        while out.len() < target {
            let w = if g.wide > 0 && r.below(10) < 8 { base[i % period] } else { WORDS[r.below(16) as usize] };
            out.extend_from_slice(w.as_bytes());
            i += 1;
        }
    } else {
        while out.len() < target {
            if g.wide > 0 && r.below(4) > 0 {
                let b = r.below(256) as u8;
                let n = 1 + r.below(40) as usize;
                out.extend(std::iter::repeat(b).take(n));
            } else {
                out.push(r.below(256) as u8);
            }
        }
        out.truncate(target);
    }
    out
}

fn leaf_value(ty: &Ty, r: &mut Rng, g: &Gen) -> V {
    match ty {
        Ty::Bool => V::B(r.next() & 1 == 1),
        Ty::I8 => V::I(int_bits(r, 8, true)),
        Ty::I16 => V::I(int_bits(r, 16, true)),
        Ty::I32 | Ty::Date32 | Ty::Time32(_) => V::I(int_bits(r, 32, true)),
        Ty::I64 | Ty::Date64 | Ty::Time64(_) | Ty::Ts(..) | Ty::Dur(_) => V::I(int_bits(r, 64, true)),
        Ty::U8 => V::I(int_bits(r, 8, false)),
        Ty::U16 => V::I(int_bits(r, 16, false)),
        Ty::U32 => V::I(int_bits(r, 32, false)),
        Ty::U64 => V::I(int_bits(r, 64, false)),
        Ty::F16 => {
            let raw = r.next();
            V::F(match raw % 6 {
                0 => [0x0000u64, 0x8000, 0x7C00, 0xFC00, 0x7E00, 0x0001, 0x3C00][(raw >> 8) as usize % 7],
                1 | 2 => half::f16::from_f32(((raw >> 8) % 20) as f32 * 0.5).to_bits() as u64,
                _ => (raw >> 16) & 0xFFFF,
            })
        }
        Ty::F32 => {
            let raw = r.next();
            V::F(match raw % 6 {
                0 => [0.0f32.to_bits(), (-0.0f32).to_bits(), f32::INFINITY.to_bits(), f32::NEG_INFINITY.to_bits(), f32::NAN.to_bits(), 1, 0x7FC0_0001][(raw >> 8) as usize % 7] as u64,
                1 | 2 => (((raw >> 8) % 50) as f32 * 0.25).to_bits() as u64,
                3 => (1000.0f32 + ((raw >> 8) % 1000) as f32 * 0.01).to_bits() as u64,
                _ => (raw >> 16) & 0xFFFF_FFFF,
            })
        }
        Ty::F64 => {
            let raw = r.next();
            V::F(match raw % 6 {
                0 => [0.0f64.to_bits(), (-0.0f64).to_bits(), f64::INFINITY.to_bits(), f64::NEG_INFINITY.to_bits(), f64::NAN.to_bits(), 1, 0x7FF8_0000_0000_0001][(raw >> 8) as usize % 7],
                1 | 2 => (((raw >> 8) % 50) as f64 * 0.25).to_bits(),
                3 => (1000.0f64 + ((raw >> 8) % 1000) as f64 * 0.01).to_bits(),
                _ => r.next(),
            })
        }
        Ty::Dec128(p, _) | Ty::Dec256(p, _) => {
            let max = pow10(*p as u32) - 1;
            let raw = r.next();
            let v = match raw % 4 {
                0 => (raw >> 8) as i128 % 100,
                1 => [max, -max, 0, 1, -1][(raw >> 8) as usize % 5],
                _ => {
                    let big = ((r.next() as u128) << 64 | r.next() as u128) % (2 * max as u128 + 1);
                    if big >= max as u128 {
                        (big - max as u128) as i128
                    } else {
                        -((max as u128 - big) as i128)
                    }
                }
            };
            V::I(v.clamp(-max, max))
        }
        Ty::Utf8 | Ty::LargeUtf8 | Ty::Utf8View => V::Y(gen_bytes(r, g, true)),
        Ty::Binary | Ty::LargeBinary | Ty::BinaryView => V::Y(gen_bytes(r, g, false)),
        Ty::Fsb(w) => V::Y((0..*w).map(|_| r.below(if g.card > 0 { 4 } else { 256 }) as u8).collect()),
        Ty::Dict(_, val, _) => leaf_value(val, r, g),
        Ty::List(_) | Ty::LargeList(_) | Ty::Fsl(..) | Ty::Struct(_) => unreachable!("not a leaf"),
    }
}

fn is_leaf(ty: &Ty) -> bool {
    !matches!(ty, Ty::List(_) | Ty::LargeList(_) | Ty::Fsl(..) | Ty::Struct(_))
}

/// may this node carry nulls in the generated data?
fn may_null(f: &Fld, ver: Ver) -> bool {
    if !f.nullable {
        return false;
    }
    // 2.0 documents null support for lists, fixed size lists and primitives only; struct nulls arrive with 2.1
    if ver == Ver::V2_0 && matches!(f.ty, Ty::Struct(_)) {
        return false;
    }
    true
}

/// expand one node into `n` model values
fn gen_col(f: &Fld, n: usize, ver: Ver, salt: u64) -> Vec<V> {
    let g = &f.gen;
    let mut r = Rng::new(((g.seed as u64) << 8) ^ salt.wrapping_mul(0x1000_0000_01B3));
    let nullable = may_null(f, ver);
    match &f.ty {
        Ty::Struct(children) => {
            let cols: Vec<Vec<V>> = children.iter().enumerate().map(|(i, c)| gen_col(c, n, ver, salt.wrapping_add(i as u64 + 1))).collect();
            (0..n)
                .map(|i| {
                    if nullable && r.pct(g.nulls) {
                        V::Null
                    } else {
                        V::S(cols.iter().map(|c| c[i].clone()).collect())
                    }
                })
                .collect()
        }
        Ty::List(child) | Ty::LargeList(child) => {
            let mut lens: Vec<Option<usize>> = Vec::with_capacity(n);
            let mut prev = 0usize;
            for _ in 0..n {
                if nullable && r.pct(g.nulls) {
                    lens.push(None);
                } else {
                    let l = if r.pct(g.runs) { prev } else { r.below(g.len as u64 + 1) as usize };
                    prev = l;
                    lens.push(Some(l));
                }
            }
            let total: usize = lens.iter().map(|l| l.unwrap_or(0)).sum();
            let mut items = gen_col(child, total, ver, salt.wrapping_add(101)).into_iter();
            lens.into_iter()
                .map(|l| match l {
                    None => V::Null,
                    Some(l) => V::L((0..l).map(|_| items.next().unwrap()).collect()),
                })
                .collect()
        }
        Ty::Fsl(item, dim) => {
            let d = *dim as usize;
            let mut items = gen_col(item, n * d, ver, salt.wrapping_add(202)).into_iter();
            (0..n)
                .map(|_| {
                    let vals: Vec<V> = (0..d).map(|_| items.next().unwrap()).collect();
                    if nullable && r.pct(g.nulls) {
                        V::Null
                    } else {
                        V::L(vals)
                    }
                })
                .collect()
        }
        leaf => {
            let mut prev: Option<V> = None;
            // the value domain of a bounded-cardinality node depends on the node only (not on the salt),
            // so garbage values come from the same domain
            let card_seed = Rng::new(g.seed as u64 ^ 0xC0FFEE).next();
            (0..n)
                .map(|_| {
                    if nullable && r.pct(g.nulls) {
                        return V::Null;
                    }
                    if let Some(p) = &prev {
                        if r.pct(g.runs) {
                            return p.clone();
                        }
                    }
                    let v = if g.card > 0 {
                        let k = r.below(g.card as u64);
                        leaf_value(leaf, &mut Rng::new(card_seed ^ k.wrapping_mul(0x9E37_79B9)), g)
                    } else {
                        leaf_value(leaf, &mut r, g)
                    };
                    prev = Some(v.clone());
                    v
                })
                .collect()
        }
    }
}

/// a valid non-null value of the type (placed under null parents when the child is not nullable)
fn zero_val(f: &Fld) -> V {
    match &f.ty {
        Ty::Bool => V::B(false),
        Ty::F16 | Ty::F32 | Ty::F64 => V::F(0),
        Ty::Utf8 | Ty::LargeUtf8 | Ty::Binary | Ty::LargeBinary | Ty::Utf8View | Ty::BinaryView => V::Y(vec![]),
        Ty::Fsb(w) => V::Y(vec![0; *w as usize]),
        Ty::Dict(_, val, _) => zero_val(&Fld { ty: (**val).clone(), ..f.clone() }),
        Ty::List(_) | Ty::LargeList(_) => V::L(vec![]),
        Ty::Fsl(item, d) => V::L((0..*d).map(|_| zero_val(item)).collect()),
        Ty::Struct(ch) => V::S(ch.iter().map(zero_val).collect()),
        _ => V::I(0),
    }
}

// ---------------------------------------------------------------------------
// arrow schema from the description

fn adtype(ty: &Ty) -> DataType {
    match ty {
        Ty::Bool => DataType::Boolean,
        Ty::I8 => DataType::Int8,
        Ty::I16 => DataType::Int16,
        Ty::I32 => DataType::Int32,
        Ty::I64 => DataType::Int64,
        Ty::U8 => DataType::UInt8,
        Ty::U16 => DataType::UInt16,
        Ty::U32 => DataType::UInt32,
        Ty::U64 => DataType::UInt64,
        Ty::F16 => DataType::Float16,
        Ty::F32 => DataType::Float32,
        Ty::F64 => DataType::Float64,
        Ty::Date32 => DataType::Date32,
        Ty::Date64 => DataType::Date64,
        Ty::Time32(u) => DataType::Time32(u.arrow()),
        Ty::Time64(u) => DataType::Time64(u.arrow()),
        Ty::Ts(u, tz) => DataType::Timestamp(u.arrow(), tz.as_ref().map(|s| s.as_str().into())),
        Ty::Dur(u) => DataType::Duration(u.arrow()),
        Ty::Dec128(p, s) => DataType::Decimal128(*p, *s),
        Ty::Dec256(p, s) => DataType::Decimal256(*p, *s),
        Ty::Utf8 => DataType::Utf8,
        Ty::LargeUtf8 => DataType::LargeUtf8,
        Ty::Binary => DataType::Binary,
        Ty::LargeBinary => DataType::LargeBinary,
        Ty::Utf8View => DataType::Utf8View,
        Ty::BinaryView => DataType::BinaryView,
        Ty::Fsb(w) => DataType::FixedSizeBinary(*w as i32),
        Ty::Dict(k, v, _) => DataType::Dictionary(
            Box::new(match k {
                Key::I8 => DataType::Int8,
                Key::I16 => DataType::Int16,
                Key::I32 => DataType::Int32,
                Key::U8 => DataType::UInt8,
            }),
            Box::new(adtype(v)),
        ),
        Ty::List(c) => DataType::List(Arc::new(afield(c))),
        Ty::LargeList(c) => DataType::LargeList(Arc::new(afield(c))),
        Ty::Fsl(c, d) => DataType::FixedSizeList(Arc::new(afield(c)), *d as i32),
        Ty::Struct(ch) => DataType::Struct(ch.iter().map(afield).collect::<Vec<_>>().into()),
    }
}

fn afield(f: &Fld) -> AField {
    let fld = AField::new(&f.name, adtype(&f.ty), f.nullable);
    if f.meta.is_empty() {
        fld
    } else {
        fld.with_metadata(f.meta.iter().cloned().collect::<HashMap<_, _>>())
    }
}

// ---------------------------------------------------------------------------
// model -> arrow

fn nulls_of(vals: &[V], force: bool) -> Option<NullBuffer> {
    let any = vals.iter().any(|v| matches!(v, V::Null));
    if any || force {
        Some(NullBuffer::new(BooleanBuffer::from_iter(vals.iter().map(|v| !matches!(v, V::Null)))))
    } else {
        None
    }
}

fn ints(vals: &[V]) -> Vec<i128> {
    // null slots carry a recognisable non-zero pattern
    vals.iter()
        .map(|v| match v {
            V::I(x) => *x,
            V::Null => 0x55,
            other => panic!("harness: expected integer model value, got {other:?}"),
        })
        .collect()
}

macro_rules! prim_arr {
    ($t:ty, $vals:expr, $nulls:expr, $conv:expr) => {{
        let v: Vec<<$t as ArrowPrimitiveType>::Native> = ints($vals).into_iter().map($conv).collect();
        Arc::new(PrimitiveArray::<$t>::new(ScalarBuffer::from(v), $nulls)) as ArrayRef
    }};
}

fn bytes_arr<O: OffsetSizeTrait>(vals: &[V], nulls: Option<NullBuffer>, text: bool, garbage: bool) -> ArrayRef {
    let mut offsets: Vec<O> = Vec::with_capacity(vals.len() + 1);
    let mut data: Vec<u8> = vec![];
    offsets.push(O::usize_as(0));
    for v in vals {
        match v {
            V::Y(b) => data.extend_from_slice(b),
            V::Null => {
                if garbage {
                    data.extend_from_slice(b"GARBAGE");
                }
            }
            other => panic!("harness: expected bytes model value, got {other:?}"),
        }
        offsets.push(O::usize_as(data.len()));
    }
    let offsets = OffsetBuffer::new(ScalarBuffer::from(offsets));
    if text {
        Arc::new(GenericStringArray::<O>::new(offsets, data.into(), nulls))
    } else {
        Arc::new(GenericBinaryArray::<O>::new(offsets, data.into(), nulls))
    }
}

struct Builder {
    ver: Ver,
}

impl Builder {
    fn build(&self, f: &Fld, vals: &[V], salt: u64) -> ArrayRef {
        let force = f.nullable && f.gen.seed & 1 == 1;
        let nulls = nulls_of(vals, force);
        if !f.nullable {
            assert!(nulls.is_none(), "harness: nulls generated for non-nullable field {}", f.name);
        }
        let g = &f.gen;
        match &f.ty {
            Ty::Bool => {
                let b = BooleanBuffer::from_iter(vals.iter().map(|v| match v {
                    V::B(b) => *b,
                    V::Null => true,
                    other => panic!("harness: expected bool, got {other:?}"),
                }));
                Arc::new(BooleanArray::new(b, nulls))
            }
            Ty::I8 => prim_arr!(Int8Type, vals, nulls, |x| x as i8),
            Ty::I16 => prim_arr!(Int16Type, vals, nulls, |x| x as i16),
            Ty::I32 => prim_arr!(Int32Type, vals, nulls, |x| x as i32),
            Ty::I64 => prim_arr!(Int64Type, vals, nulls, |x| x as i64),
            Ty::U8 => prim_arr!(UInt8Type, vals, nulls, |x| x as u8),
            Ty::U16 => prim_arr!(UInt16Type, vals, nulls, |x| x as u16),
            Ty::U32 => prim_arr!(UInt32Type, vals, nulls, |x| x as u32),
            Ty::U64 => prim_arr!(UInt64Type, vals, nulls, |x| x as u64),
            Ty::Date32 => prim_arr!(Date32Type, vals, nulls, |x| x as i32),
            Ty::Date64 => prim_arr!(Date64Type, vals, nulls, |x| x as i64),
            Ty::Time32(Unit::S) => prim_arr!(Time32SecondType, vals, nulls, |x| x as i32),
            Ty::Time32(_) => prim_arr!(Time32MillisecondType, vals, nulls, |x| x as i32),
            Ty::Time64(Unit::Us) => prim_arr!(Time64MicrosecondType, vals, nulls, |x| x as i64),
            Ty::Time64(_) => prim_arr!(Time64NanosecondType, vals, nulls, |x| x as i64),
            Ty::Ts(u, tz) => {
                let v: Vec<i64> = ints(vals).into_iter().map(|x| x as i64).collect();
                let tz: Option<Arc<str>> = tz.as_ref().map(|s| s.as_str().into());
                match u {
                    Unit::S => Arc::new(PrimitiveArray::<TimestampSecondType>::new(v.into(), nulls).with_timezone_opt(tz)),
                    Unit::Ms => Arc::new(PrimitiveArray::<TimestampMillisecondType>::new(v.into(), nulls).with_timezone_opt(tz)),
                    Unit::Us => Arc::new(PrimitiveArray::<TimestampMicrosecondType>::new(v.into(), nulls).with_timezone_opt(tz)),
                    Unit::Ns => Arc::new(PrimitiveArray::<TimestampNanosecondType>::new(v.into(), nulls).with_timezone_opt(tz)),
                }
            }
            Ty::Dur(Unit::S) => prim_arr!(DurationSecondType, vals, nulls, |x| x as i64),
            Ty::Dur(Unit::Ms) => prim_arr!(DurationMillisecondType, vals, nulls, |x| x as i64),
            Ty::Dur(Unit::Us) => prim_arr!(DurationMicrosecondType, vals, nulls, |x| x as i64),
            Ty::Dur(Unit::Ns) => prim_arr!(DurationNanosecondType, vals, nulls, |x| x as i64),
            Ty::Dec128(p, s) => {
                let v: Vec<i128> = ints(vals);
                Arc::new(PrimitiveArray::<Decimal128Type>::new(v.into(), nulls).with_precision_and_scale(*p, *s).expect("harness: decimal128"))
            }
            Ty::Dec256(p, s) => {
                let v: Vec<i256> = ints(vals).into_iter().map(i256::from_i128).collect();
                Arc::new(PrimitiveArray::<Decimal256Type>::new(v.into(), nulls).with_precision_and_scale(*p, *s).expect("harness: decimal256"))
            }
            Ty::F16 => {
                let v: Vec<half::f16> = vals.iter().map(|v| match v { V::F(b) => half::f16::from_bits(*b as u16), V::Null => half::f16::from_bits(0x5555), o => panic!("harness: expected float, got {o:?}") }).collect();
                Arc::new(PrimitiveArray::<Float16Type>::new(v.into(), nulls))
            }
            Ty::F32 => {
                let v: Vec<f32> = vals.iter().map(|v| match v { V::F(b) => f32::from_bits(*b as u32), V::Null => 5.5, o => panic!("harness: expected float, got {o:?}") }).collect();
                Arc::new(PrimitiveArray::<Float32Type>::new(v.into(), nulls))
            }
            Ty::F64 => {
                let v: Vec<f64> = vals.iter().map(|v| match v { V::F(b) => f64::from_bits(*b), V::Null => 5.5, o => panic!("harness: expected float, got {o:?}") }).collect();
                Arc::new(PrimitiveArray::<Float64Type>::new(v.into(), nulls))
            }
            Ty::Utf8 => bytes_arr::<i32>(vals, nulls, true, g.garbage),
            Ty::LargeUtf8 => bytes_arr::<i64>(vals, nulls, true, g.garbage),
            Ty::Binary => bytes_arr::<i32>(vals, nulls, false, g.garbage),
            Ty::LargeBinary => bytes_arr::<i64>(vals, nulls, false, g.garbage),
            Ty::Utf8View => {
                let a = bytes_arr::<i32>(vals, nulls, true, false);
                arrow_cast::cast(&a, &DataType::Utf8View).expect("harness: cast to view")
            }
            Ty::BinaryView => {
                let a = bytes_arr::<i32>(vals, nulls, false, false);
                arrow_cast::cast(&a, &DataType::BinaryView).expect("harness: cast to view")
            }
            Ty::Fsb(w) => {
                let mut data: Vec<u8> = Vec::with_capacity(vals.len() * *w as usize);
                for v in vals {
                    match v {
                        V::Y(b) => {
                            assert_eq!(b.len(), *w as usize);
                            data.extend_from_slice(b)
                        }
                        V::Null => data.extend(std::iter::repeat(0x55).take(*w as usize)),
                        o => panic!("harness: expected bytes, got {o:?}"),
                    }
                }
                Arc::new(FixedSizeBinaryArray::new(*w as i32, data.into(), nulls))
            }
            Ty::Dict(k, val, null_in_values) => {
                // distinct values in order of first appearance
                let mut dict: Vec<V> = vec![];
                if g.seed & 2 == 2 {
                    // an entry no key refers to
                    dict.push(zero_val(&Fld { ty: (**val).clone(), ..f.clone() }));
                }
                let first_used = dict.len();
                let mut index: Vec<(V, usize)> = vec![];
                let has_null = vals.iter().any(|v| matches!(v, V::Null));
                let mut keys: Vec<V> = Vec::with_capacity(vals.len());
                let mut null_slot: Option<usize> = None;
                for v in vals {
                    match v {
                        V::Null => {
                            if *null_in_values && has_null {
                                let slot = *null_slot.get_or_insert_with(|| {
                                    dict.push(V::Null);
                                    dict.len() - 1
                                });
                                keys.push(V::I(slot as i128));
                            } else {
                                keys.push(V::Null);
                            }
                        }
                        v => {
                            let pos = match index.iter().find(|(x, _)| x == v) {
                                Some((_, p)) => *p,
                                None => {
                                    dict.push(v.clone());
                                    index.push((v.clone(), dict.len() - 1));
                                    dict.len() - 1
                                }
                            };
                            keys.push(V::I(pos as i128));
                        }
                    }
                }
                let _ = first_used;
                let vfld = Fld { name: "v".into(), ty: (**val).clone(), nullable: true, meta: vec![], gen: Gen { seed: 0, ..g.clone() } };
                let values = self.build(&vfld, &dict, salt);
                let kn = nulls_of(&keys, false);
                // key value in null slots: always 0 (lance rejects out-of-range keys in null slots, and arrow's concat adds
                // dictionary offsets to null slots too, which overflows small key types in debug builds)
                let kints: Vec<i128> = keys.iter().map(|k| match k { V::I(x) => *x, _ => 0 }).collect();
                assert!(dict.len() <= 120, "harness: dictionary too large for the key type");
                match k {
                    Key::I8 => Arc::new(DictionaryArray::<Int8Type>::try_new(PrimitiveArray::new(kints.iter().copied().map(|x| x as i8).collect::<Vec<_>>().into(), kn), values).expect("harness: dict")),
                    Key::I16 => Arc::new(DictionaryArray::<Int16Type>::try_new(PrimitiveArray::new(kints.iter().copied().map(|x| x as i16).collect::<Vec<_>>().into(), kn), values).expect("harness: dict")),
                    Key::I32 => Arc::new(DictionaryArray::<Int32Type>::try_new(PrimitiveArray::new(kints.iter().copied().map(|x| x as i32).collect::<Vec<_>>().into(), kn), values).expect("harness: dict")),
                    Key::U8 => Arc::new(DictionaryArray::<UInt8Type>::try_new(PrimitiveArray::new(kints.iter().copied().map(|x| x as u8).collect::<Vec<_>>().into(), kn), values).expect("harness: dict")),
                }
            }
            Ty::List(child) | Ty::LargeList(child) => {
                let mut flat: Vec<V> = vec![];
                let mut offs: Vec<usize> = vec![0];
                let mut gr = Rng::new(salt ^ 0xABCD ^ g.seed as u64);
                for v in vals {
                    match v {
                        V::L(items) => flat.extend(items.iter().cloned()),
                        V::Null => {
                            if g.garbage {
                                // garbage behind a null list: the offsets keep covering child values
                                let k = 1 + gr.below(3) as usize;
                                flat.extend(gen_col(child, k, self.ver, salt.wrapping_add(7777 + offs.len() as u64)));
                            }
                        }
                        o => panic!("harness: expected list, got {o:?}"),
                    }
                    offs.push(flat.len());
                }
                let values = self.build(child, &flat, salt.wrapping_add(11));
                let cf = Arc::new(afield(child));
                if matches!(f.ty, Ty::List(_)) {
                    let o = OffsetBuffer::new(ScalarBuffer::from(offs.iter().map(|x| *x as i32).collect::<Vec<_>>()));
                    Arc::new(ListArray::new(cf, o, values, nulls))
                } else {
                    let o = OffsetBuffer::new(ScalarBuffer::from(offs.iter().map(|x| *x as i64).collect::<Vec<_>>()));
                    Arc::new(LargeListArray::new(cf, o, values, nulls))
                }
            }
            Ty::Fsl(item, dim) => {
                let d = *dim as usize;
                let mut flat: Vec<V> = Vec::with_capacity(vals.len() * d);
                for (i, v) in vals.iter().enumerate() {
                    match v {
                        V::L(items) => {
                            assert_eq!(items.len(), d);
                            flat.extend(items.iter().cloned())
                        }
                        V::Null => {
                            if g.garbage {
                                flat.extend(gen_col(item, d, self.ver, salt.wrapping_add(8888 + i as u64)));
                            } else {
                                flat.extend((0..d).map(|_| if item.nullable { V::Null } else { zero_val(item) }));
                            }
                        }
                        o => panic!("harness: expected fsl, got {o:?}"),
                    }
                }
                let values = self.build(item, &flat, salt.wrapping_add(13));
                Arc::new(FixedSizeListArray::new(Arc::new(afield(item)), *dim as i32, values, nulls))
            }
            Ty::Struct(children) => {
                let mut arrays: Vec<ArrayRef> = vec![];
                for (ci, c) in children.iter().enumerate() {
                    let cvals: Vec<V> = vals
                        .iter()
                        .enumerate()
                        .map(|(i, v)| match v {
                            V::S(items) => items[ci].clone(),
                            V::Null => {
                                if g.garbage {
                                    gen_col(c, 1, self.ver, salt.wrapping_add(9999 + (i * 31 + ci) as u64)).pop().unwrap()
                                } else if c.nullable && may_null(c, self.ver) {
                                    V::Null
                                } else {
                                    zero_val(c)
                                }
                            }
                            o => panic!("harness: expected struct, got {o:?}"),
                        })
                        .collect();
                    arrays.push(self.build(c, &cvals, salt.wrapping_add(17 + ci as u64)));
                }
                let fields: Fields = children.iter().map(afield).collect::<Vec<_>>().into();
                Arc::new(StructArray::new(fields, arrays, nulls))
            }
        }
    }
}

// ---------------------------------------------------------------------------
// arrow -> model (explicit nulls; nothing below a null is observable)

macro_rules! prim_vals {
    ($t:ty, $a:expr) => {{
        let p = $a.as_primitive::<$t>();
        (0..p.len()).map(|i| if p.is_null(i) { V::Null } else { V::I(p.value(i) as i128) }).collect()
    }};
}

fn bytes_vals<'a, I: Iterator<Item = Option<&'a [u8]>>>(it: I) -> Vec<V> {
    it.map(|o| match o {
        None => V::Null,
        Some(b) => V::Y(b.to_vec()),
    })
    .collect()
}

fn to_vals(a: &dyn Array) -> Result<Vec<V>, String> {
    Ok(match a.data_type() {
        DataType::Boolean => {
            let b = a.as_boolean();
            (0..b.len()).map(|i| if b.is_null(i) { V::Null } else { V::B(b.value(i)) }).collect()
        }
        DataType::Int8 => prim_vals!(Int8Type, a),
        DataType::Int16 => prim_vals!(Int16Type, a),
        DataType::Int32 => prim_vals!(Int32Type, a),
        DataType::Int64 => prim_vals!(Int64Type, a),
        DataType::UInt8 => prim_vals!(UInt8Type, a),
        DataType::UInt16 => prim_vals!(UInt16Type, a),
        DataType::UInt32 => prim_vals!(UInt32Type, a),
        DataType::UInt64 => prim_vals!(UInt64Type, a),
        DataType::Date32 => prim_vals!(Date32Type, a),
        DataType::Date64 => prim_vals!(Date64Type, a),
        DataType::Time32(TimeUnit::Second) => prim_vals!(Time32SecondType, a),
        DataType::Time32(_) => prim_vals!(Time32MillisecondType, a),
        DataType::Time64(TimeUnit::Microsecond) => prim_vals!(Time64MicrosecondType, a),
        DataType::Time64(_) => prim_vals!(Time64NanosecondType, a),
        DataType::Timestamp(TimeUnit::Second, _) => prim_vals!(TimestampSecondType, a),
        DataType::Timestamp(TimeUnit::Millisecond, _) => prim_vals!(TimestampMillisecondType, a),
        DataType::Timestamp(TimeUnit::Microsecond, _) => prim_vals!(TimestampMicrosecondType, a),
        DataType::Timestamp(TimeUnit::Nanosecond, _) => prim_vals!(TimestampNanosecondType, a),
        DataType::Duration(TimeUnit::Second) => prim_vals!(DurationSecondType, a),
        DataType::Duration(TimeUnit::Millisecond) => prim_vals!(DurationMillisecondType, a),
        DataType::Duration(TimeUnit::Microsecond) => prim_vals!(DurationMicrosecondType, a),
        DataType::Duration(TimeUnit::Nanosecond) => prim_vals!(DurationNanosecondType, a),
        DataType::Decimal128(..) => prim_vals!(Decimal128Type, a),
        DataType::Decimal256(..) => {
            let p = a.as_primitive::<Decimal256Type>();
            (0..p.len())
                .map(|i| {
                    if p.is_null(i) {
                        V::Null
                    } else {
                        match p.value(i).to_i128() {
                            Some(x) => V::I(x),
                            None => V::Y(p.value(i).to_le_bytes().to_vec()),
                        }
                    }
                })
                .collect()
        }
        DataType::Float16 => {
            let p = a.as_primitive::<Float16Type>();
            (0..p.len()).map(|i| if p.is_null(i) { V::Null } else { V::F(p.value(i).to_bits() as u64) }).collect()
        }
        DataType::Float32 => {
            let p = a.as_primitive::<Float32Type>();
            (0..p.len()).map(|i| if p.is_null(i) { V::Null } else { V::F(p.value(i).to_bits() as u64) }).collect()
        }
        DataType::Float64 => {
            let p = a.as_primitive::<Float64Type>();
            (0..p.len()).map(|i| if p.is_null(i) { V::Null } else { V::F(p.value(i).to_bits()) }).collect()
        }
        DataType::Utf8 => bytes_vals(a.as_string::<i32>().iter().map(|o| o.map(|s| s.as_bytes()))),
        DataType::LargeUtf8 => bytes_vals(a.as_string::<i64>().iter().map(|o| o.map(|s| s.as_bytes()))),
        DataType::Binary => bytes_vals(a.as_binary::<i32>().iter()),
        DataType::LargeBinary => bytes_vals(a.as_binary::<i64>().iter()),
        DataType::Utf8View => bytes_vals(a.as_string_view().iter().map(|o| o.map(|s| s.as_bytes()))),
        DataType::BinaryView => bytes_vals(a.as_binary_view().iter()),
        DataType::FixedSizeBinary(_) => bytes_vals(a.as_fixed_size_binary().iter()),
        DataType::Dictionary(_, _) => {
            let d = a.as_any_dictionary();
            let keys = to_vals(d.keys())?;
            let values = to_vals(d.values().as_ref())?;
            keys.into_iter()
                .map(|k| match k {
                    V::Null => Ok(V::Null),
                    V::I(i) => values.get(i as usize).cloned().ok_or_else(|| format!("dictionary key {i} out of range ({} values)", values.len())),
                    o => Err(format!("odd dictionary key {o:?}")),
                })
                .collect::<Result<Vec<_>, _>>()?
        }
        DataType::List(_) => {
            let l = a.as_list::<i32>();
            let child = to_vals(l.values().as_ref())?;
            let offs = l.value_offsets();
            (0..l.len()).map(|i| if l.is_null(i) { V::Null } else { V::L(child[offs[i] as usize..offs[i + 1] as usize].to_vec()) }).collect()
        }
        DataType::LargeList(_) => {
            let l = a.as_list::<i64>();
            let child = to_vals(l.values().as_ref())?;
            let offs = l.value_offsets();
            (0..l.len()).map(|i| if l.is_null(i) { V::Null } else { V::L(child[offs[i] as usize..offs[i + 1] as usize].to_vec()) }).collect()
        }
        DataType::FixedSizeList(_, d) => {
            let l = a.as_fixed_size_list();
            let d = *d as usize;
            let child = to_vals(l.values().as_ref())?;
            if child.len() != l.len() * d {
                return Err(format!("fixed size list of {} rows x {d} has {} child values", l.len(), child.len()));
            }
            (0..l.len()).map(|i| if l.is_null(i) { V::Null } else { V::L(child[i * d..(i + 1) * d].to_vec()) }).collect()
        }
        DataType::Struct(_) => {
            let s = a.as_struct();
            let cols: Vec<Vec<V>> = s.columns().iter().map(|c| to_vals(c.as_ref())).collect::<Result<_, _>>()?;
            for c in &cols {
                if c.len() != s.len() {
                    return Err(format!("struct of {} rows has a child of {} rows", s.len(), c.len()));
                }
            }
            (0..s.len()).map(|i| if s.is_null(i) { V::Null } else { V::S(cols.iter().map(|c| c[i].clone()).collect()) }).collect()
        }
        other => return Err(format!("unexpected data type {other:?}")),
    })
}

// ---------------------------------------------------------------------------
// projection

#[derive(Clone, Debug, PartialEq)]
enum Sel {
    All,
    /// struct: child index -> selection; list: key 0 = the item
    Kids(BTreeMap<usize, Sel>),
}

fn is_packed(f: &Fld) -> bool {
    f.meta.iter().any(|(k, v)| (k == "lance-encoding:packed" || k == "packed") && v.eq_ignore_ascii_case("true"))
}

fn is_blob(f: &Fld) -> bool {
    f.meta.iter().any(|(k, _)| k == "lance-encoding:blob")
}

fn sel_from_path(f: &Fld, rest: &[u16]) -> Sel {
    if rest.is_empty() {
        return Sel::All;
    }
    match &f.ty {
        Ty::Struct(ch) if !is_packed(f) => {
            let c = idx(rest[0], ch.len() + 1);
            if c == ch.len() {
                Sel::All
            } else {
                Sel::Kids(BTreeMap::from([(c, sel_from_path(&ch[c], &rest[1..]))]))
            }
        }
        Ty::List(c) | Ty::LargeList(c) => {
            if idx(rest[0], 2) == 0 {
                Sel::All
            } else {
                match sel_from_path(c, &rest[1..]) {
                    Sel::All => Sel::All,
                    s => Sel::Kids(BTreeMap::from([(0, s)])),
                }
            }
        }
        _ => Sel::All,
    }
}

fn sel_union(a: Sel, b: Sel) -> Sel {
    match (a, b) {
        (Sel::All, _) | (_, Sel::All) => Sel::All,
        (Sel::Kids(mut x), Sel::Kids(y)) => {
            for (k, v) in y {
                let merged = match x.remove(&k) {
                    Some(old) => sel_union(old, v),
                    None => v,
                };
                x.insert(k, merged);
            }
            Sel::Kids(x)
        }
    }
}

fn sel_field(f: &Fld, s: &Sel) -> Fld {
    match s {
        Sel::All => f.clone(),
        Sel::Kids(m) => {
            let ty = match &f.ty {
                Ty::Struct(ch) => Ty::Struct(m.iter().map(|(i, s)| sel_field(&ch[*i], s)).collect()),
                Ty::List(c) => Ty::List(Box::new(sel_field(c, &m[&0]))),
                Ty::LargeList(c) => Ty::LargeList(Box::new(sel_field(c, &m[&0]))),
                _ => unreachable!(),
            };
            Fld { ty, ..f.clone() }
        }
    }
}

fn sel_val(f: &Fld, s: &Sel, v: &V) -> V {
    match (s, v) {
        (Sel::All, _) | (_, V::Null) => v.clone(),
        (Sel::Kids(m), V::S(items)) => match &f.ty {
            Ty::Struct(ch) => V::S(m.iter().map(|(i, s)| sel_val(&ch[*i], s, &items[*i])).collect()),
            _ => unreachable!(),
        },
        (Sel::Kids(m), V::L(items)) => match &f.ty {
            Ty::List(c) | Ty::LargeList(c) => V::L(items.iter().map(|x| sel_val(c, &m[&0], x)).collect()),
            _ => unreachable!(),
        },
        _ => unreachable!(),
    }
}

fn sel_names(f: &Fld, s: &Sel, prefix: &str, out: &mut Vec<String>) {
    let me = if prefix.is_empty() { f.name.clone() } else { format!("{prefix}.{}", f.name) };
    match s {
        Sel::All => out.push(me),
        Sel::Kids(m) => match &f.ty {
            Ty::Struct(ch) => {
                for (i, s) in m {
                    sel_names(&ch[*i], s, &me, out);
                }
            }
            Ty::List(c) | Ty::LargeList(c) => sel_names(c, &m[&0], &me, out),
            _ => unreachable!(),
        },
    }
}

// ---------------------------------------------------------------------------
// classification helpers

fn depth(ty: &Ty) -> usize {
    match ty {
        Ty::List(c) | Ty::LargeList(c) | Ty::Fsl(c, _) => 1 + depth(&c.ty),
        Ty::Struct(ch) => 1 + ch.iter().map(|c| depth(&c.ty)).max().unwrap_or(0),
        _ => 1,
    }
}

fn has_inner_null(v: &V, level: usize) -> bool {
    match v {
        V::Null => level >= 2,
        V::L(items) | V::S(items) => items.iter().any(|x| has_inner_null(x, level + 1)),
        _ => false,
    }
}

fn skeleton(ty: &Ty) -> String {
    match ty {
        Ty::List(c) => format!("L<{}>", skeleton(&c.ty)),
        Ty::LargeList(c) => format!("LL<{}>", skeleton(&c.ty)),
        Ty::Fsl(c, d) => format!("F{d}<{}>", skeleton(&c.ty)),
        Ty::Struct(ch) => format!("S<{}>", ch.iter().map(|c| skeleton(&c.ty)).collect::<Vec<_>>().join(",")),
        Ty::Dict(k, v, _) => format!("D{k:?}<{}>", skeleton(v)),
        Ty::Ts(u, tz) => format!("Ts{u:?}{}", if tz.is_some() { "z" } else { "" }),
        other => format!("{other:?}"),
    }
}

fn label_types(f: &Fld, obs: &mut Obs, under: &str) {
    let k = match &f.ty {
        Ty::List(_) => "list",
        Ty::LargeList(_) => "large-list",
        Ty::Fsl(..) => "fsl",
        Ty::Struct(_) => {
            if is_packed(f) {
                "packed-struct"
            } else {
                "struct"
            }
        }
        Ty::Dict(..) => "dict",
        Ty::Utf8 | Ty::LargeUtf8 => "string",
        Ty::Binary | Ty::LargeBinary => {
            if is_blob(f) {
                "blob"
            } else {
                "binary"
            }
        }
        Ty::Utf8View | Ty::BinaryView => "view",
        Ty::Fsb(_) => "fsb",
        Ty::Bool => "bool",
        Ty::F16 | Ty::F32 | Ty::F64 => "float",
        Ty::Dec128(..) | Ty::Dec256(..) => "decimal",
        Ty::Date32 | Ty::Date64 | Ty::Time32(_) | Ty::Time64(_) | Ty::Ts(..) | Ty::Dur(_) => "temporal",
        _ => "int",
    };
    obs.label(format!("type:{k}"));
    if !under.is_empty() {
        obs.label(format!("nest:{under}>{k}"));
    }
    for (key, val) in &f.meta {
        let short = key.trim_start_matches("lance-encoding:");
        if matches!(short, "compression" | "structural-encoding" | "bss") {
            obs.label(format!("meta:{short}={val}"));
        } else {
            obs.label(format!("meta:{short}"));
        }
    }
    match &f.ty {
        Ty::List(c) | Ty::LargeList(c) | Ty::Fsl(c, _) => label_types(c, obs, k),
        Ty::Struct(ch) => ch.iter().for_each(|c| label_types(c, obs, k)),
        _ => {}
    }
}

fn first_diff(path: &str, want: &V, got: &V) -> Option<String> {
    if want == got {
        return None;
    }
    match (want, got) {
        (V::L(a), V::L(b)) | (V::S(a), V::S(b)) if a.len() == b.len() => {
            for (i, (x, y)) in a.iter().zip(b).enumerate() {
                if let Some(d) = first_diff(&format!("{path}[{i}]"), x, y) {
                    return Some(d);
                }
            }
            None
        }
        (V::L(a), V::L(b)) => Some(format!("{path}: list length {} expected, {} read; expected {} read {}", a.len(), b.len(), show(want), show(got))),
        _ => Some(format!("{path}: expected {} read {}", show(want), show(got))),
    }
}

/// effective rows per write_batch call: bounded total, at least one row
fn batch_rows(input: &Input, tier: Tier) -> Vec<usize> {
    fn expansion(f: &Fld) -> usize {
        match &f.ty {
            Ty::List(c) | Ty::LargeList(c) => (1 + f.gen.len as usize / 2) * expansion(c),
            Ty::Fsl(c, d) => (*d as usize).max(1) * expansion(c),
            Ty::Struct(ch) => ch.iter().map(expansion).max().unwrap_or(1),
            _ => match f.gen.wide {
                0 => 1,
                1 => 24,
                _ => 1500,
            },
        }
    }
    let exp = input.fields.iter().map(expansion).max().unwrap_or(1);
    let cap = (tier.pick(2000, 20000) * 4 / (3 + exp)).max(6);
    let mut out = vec![];
    let mut total = 0usize;
    for b in &input.batches {
        let b = (*b as usize).min(cap - total);
        out.push(b);
        total += b;
    }
    if total == 0 {
        out[0] = 1;
    }
    out
}

fn resolve_req(req: &Req, n: usize) -> (ReadBatchParams, Vec<usize>, &'static str) {
    match req {
        Req::Full => (ReadBatchParams::RangeFull, (0..n).collect(), "full"),
        Req::Range(a, b) => {
            let (x, y) = (idx(*a, n + 1), idx(*b, n + 1));
            let (lo, hi) = (x.min(y), x.max(y));
            (ReadBatchParams::Range(lo..hi), (lo..hi).collect(), "range")
        }
        Req::RangeFrom(a) => {
            let s = idx(*a, n);
            (ReadBatchParams::RangeFrom(s..), (s..n).collect(), "range-from")
        }
        Req::RangeTo(b) => {
            let e = idx(*b, n + 1);
            (ReadBatchParams::RangeTo(..e), (0..e).collect(), "range-to")
        }
        Req::Ranges(cuts) => {
            let mut cs: Vec<usize> = cuts.iter().map(|c| idx(*c, n + 1)).collect();
            cs.sort_unstable();
            let ranges: Vec<std::ops::Range<u64>> = cs.chunks_exact(2).map(|p| p[0] as u64..p[1] as u64).collect();
            let rows: Vec<usize> = ranges.iter().flat_map(|r| r.start as usize..r.end as usize).collect();
            (ReadBatchParams::Ranges(ranges.into()), rows, "ranges")
        }
        Req::Indices(fr) => {
            let set: BTreeSet<usize> = fr.iter().map(|f| idx(*f, n)).collect();
            let rows: Vec<usize> = set.into_iter().collect();
            (ReadBatchParams::Indices(UInt32Array::from_iter_values(rows.iter().map(|r| *r as u32))), rows, "indices")
        }
    }
}

fn page_labels(desc: &str, obs: &mut Obs) {
    for (needle, label) in [
        ("MiniBlockLayout", "layout:miniblock"),
        ("FullZipLayout", "layout:fullzip"),
        ("AllNullLayout", "layout:allnull"),
        ("BlobLayout", "layout:blob"),
        ("Fsst(", "enc:fsst"),
        ("Rle(", "enc:rle"),
        ("ByteStreamSplit(", "enc:bss"),
        ("InlineBitpacking(", "enc:inline-bitpacking"),
        ("OutOfLineBitpacking(", "enc:ool-bitpacking"),
        ("General(", "enc:general"),
        ("dictionary: Some", "enc:dictionary"),
        ("PackedStruct(", "enc:packed-struct"),
        ("VariablePackedStruct(", "enc:var-packed-struct"),
        ("Constant(", "enc:constant"),
        ("FixedSizeList(", "enc:fsl"),
        ("Bitpacked", "enc2.0:bitpacked"),
        ("Dictionary(", "enc2.0:dictionary"),
        ("Binary(", "enc2.0:binary"),
        ("FixedSizeBinary(", "enc2.0:fsb"),
        ("Nullable(", "enc2.0:nullable"),
    ] {
        if desc.contains(needle) {
            obs.label(label);
        }
    }
}

// ---------------------------------------------------------------------------
// the check

fn short_err(e: &str) -> String {
    let s: String = e.chars().filter(|c| !c.is_ascii_digit()).take(230).collect();
    s.replace('\n', " ")
}

/// an Err that is really a caught panic / internal error of lance is not a clean rejection
fn is_internal(e: &str) -> bool {
    e.contains("internal error") || e.contains("JoinError::Panic") || e.contains("panicked")
}

struct Prepared {
    total: usize,
    /// per top-level column: the model rows
    model: Vec<Vec<V>>,
    aschema: Arc<ASchema>,
    batches: Vec<RecordBatch>,
}

fn prepare(input: &Input, tier: Tier) -> Result<Prepared, Failure> {
    let ver = input.version;
    let rows = batch_rows(input, tier);
    let total: usize = rows.iter().sum();
    let pad = input.pad_front as usize;
    let pad_back = (input.pad_front as usize) % 4;
    let aschema = Arc::new(ASchema::new(input.fields.iter().map(afield).collect::<Vec<_>>()));
    let b = Builder { ver };
    let mut model: Vec<Vec<V>> = vec![];
    let mut cols_per_batch: Vec<Vec<ArrayRef>> = vec![vec![]; rows.len()];
    for (ci, f) in input.fields.iter().enumerate() {
        let salt = (ci as u64 + 1) * 1_000_003;
        let full = gen_col(f, pad + total + pad_back, ver, salt);
        if input.sliced {
            let arr = b.build(f, &full, salt);
            let mut off = pad;
            for (bi, r) in rows.iter().enumerate() {
                cols_per_batch[bi].push(arr.slice(off, *r));
                off += r;
            }
        } else {
            let mut off = pad;
            for (bi, r) in rows.iter().enumerate() {
                cols_per_batch[bi].push(b.build(f, &full[off..off + r], salt.wrapping_add(bi as u64)));
                off += r;
            }
        }
        model.push(full[pad..pad + total].to_vec());
    }
    let mut batches = vec![];
    let mut off = 0;
    for (bi, cols) in cols_per_batch.into_iter().enumerate() {
        // the harness' own arrays must say what the model says
        for (ci, c) in cols.iter().enumerate() {
            let got = to_vals(c.as_ref()).map_err(|e| Failure::new("harness-build", e))?;
            if got != model[ci][off..off + rows[bi]] {
                return Err(Failure::new("harness-build", format!("built array of column {ci} batch {bi} differs from the model")));
            }
        }
        off += rows[bi];
        let rb = RecordBatch::try_new_with_options(aschema.clone(), cols, &RecordBatchOptions::new().with_row_count(Some(rows[bi])))
            .map_err(|e| Failure::new("harness-build", format!("record batch: {e}")))?;
        batches.push(rb);
    }
    if std::env::var("VERIF_C25_MODEL").is_ok() {
        dump_model(&model);
    }
    if std::env::var("VERIF_C25_DUMP").is_ok() {
        for b in &batches {
            eprintln!("{b:?}");
        }
    }
    Ok(Prepared { total, model, aschema, batches })
}

async fn collect_read(
    reader: Arc<FileReader>,
    api: Api,
    params: ReadBatchParams,
    bs: u32,
    readahead: u32,
    proj: Option<ReaderProjection>,
) -> Result<Vec<RecordBatch>, String> {
    match api {
        Api::Stream | Api::BaseProjection => {
            let stream = match proj {
                Some(p) => reader.read_stream_projected(params, bs, readahead, p, FilterExpression::no_filter()),
                None => reader.read_stream(params, bs, readahead, FilterExpression::no_filter()),
            }
            .map_err(|e| format!("read_stream: {e}"))?;
            stream.try_collect::<Vec<_>>().await.map_err(|e| format!("stream item: {e}"))
        }
        Api::Tasks => {
            let mut tasks = reader.read_tasks(params, bs, proj, FilterExpression::no_filter()).map_err(|e| format!("read_tasks: {e}"))?;
            let mut out = vec![];
            while let Some(t) = tasks.next().await {
                let n = t.num_rows;
                let b = t.task.await.map_err(|e| format!("task: {e}"))?;
                if b.num_rows() as u32 != n {
                    return Err(format!("TASK-NUM-ROWS: task announced {n} rows, batch has {}", b.num_rows()));
                }
                out.push(b);
            }
            Ok(out)
        }
        Api::Blocking => tokio::task::spawn_blocking(move || {
            let it = reader.read_stream_projected_blocking(params, bs, proj, FilterExpression::no_filter()).map_err(|e| format!("read_blocking: {e}"))?;
            it.collect::<Result<Vec<_>, _>>().map_err(|e| format!("blocking item: {e}"))
        })
        .await
        .map_err(|e| format!("PANIC in blocking read: {e}"))?,
    }
}

async fn run(input: &Input, prep: &Prepared, obs: &mut Obs, env: &Env) -> CheckResult {
    let ver = input.version;
    let total = prep.total;
    // ---- store, writer
    let store = VStore::new();
    let url = url::Url::parse("memory:///").unwrap();
    let block = if input.small_block { Some(4096) } else { None };
    let os = Arc::new(LanceObjectStore::new(Arc::new(store.clone()), url, block, None, false, true, 8, 0, None));
    let path = Path::from("c25/file.lance");
    let lschema = match LSchema::try_from(prep.aschema.as_ref()) {
        Ok(s) => s,
        Err(e) => {
            obs.rejected += 1;
            obs.label(format!("reject-schema:{}", short_err(&e.to_string())));
            return Ok(());
        }
    };
    let ow = os.create(&path).await.map_err(|e| Failure::new("harness-store", e.to_string()))?;
    let opts = FileWriterOptions {
        data_cache_bytes: input.wopts.data_cache_bytes.map(|v| v as u64),
        max_page_bytes: input.wopts.max_page_bytes.map(|v| v as u64),
        keep_original_array: input.wopts.keep_original_array,
        encoding_strategy: None,
        format_version: Some(ver.lance()),
    };
    let mut w = if input.wopts.eager_schema {
        match FileWriter::try_new(ow, lschema.clone(), opts) {
            Ok(w) => w,
            Err(e) => {
                obs.rejected += 1;
                obs.label(format!("reject-new:{}", short_err(&e.to_string())));
                return Ok(());
            }
        }
    } else {
        FileWriter::new_lazy(ow, opts)
    };
    for b in &prep.batches {
        if let Err(e) = w.write_batch(b).await {
            if is_internal(&e.to_string()) {
                fail!("write-internal-error", "write_batch: {e}");
            }
            obs.rejected += 1;
            obs.label(format!("reject-write:{}", short_err(&e.to_string())));
            return Ok(());
        }
    }
    let field_map: BTreeMap<u32, u32> = w.field_id_to_column_indices().iter().copied().collect();
    w.add_schema_metadata("c25-key", "c25-value");
    match w.finish().await {
        Ok(n) => ensure!(n as usize == total, "finish-row-count", "finish() returned {n}, {total} rows were written"),
        Err(e) => {
            if is_internal(&e.to_string()) {
                fail!("write-internal-error", "finish: {e}");
            }
            obs.rejected += 1;
            obs.label(format!("reject-finish:{}", short_err(&e.to_string())));
            return Ok(());
        }
    }
    drop(w);

    // ---- open
    let sched = ScanScheduler::new(os.clone(), SchedulerConfig::default_for_testing());
    let cache = LanceCache::with_capacity(32 * 1024 * 1024);
    let plugins = Arc::<DecoderPlugins>::default();
    let mut max_pages = 0usize;
    let mut first = true;
    let mut nonfull = false;
    let mut reqkinds: Vec<&'static str> = vec![];

    for (ri, rd) in input.reads.iter().enumerate() {
        obs.inner += 1;
        // projection
        let mut sels: BTreeMap<usize, Sel> = BTreeMap::new();
        let proj_kind = if rd.paths.is_empty() { ProjKind::All } else { rd.proj };
        if proj_kind == ProjKind::All {
            for i in 0..input.fields.len() {
                sels.insert(i, Sel::All);
            }
        } else {
            for p in &rd.paths {
                if p.is_empty() {
                    continue;
                }
                let top = idx(p[0], input.fields.len());
                let s = sel_from_path(&input.fields[top], &p[1..]);
                let merged = match sels.remove(&top) {
                    Some(old) => sel_union(old, s),
                    None => s,
                };
                sels.insert(top, merged);
            }
            if sels.is_empty() {
                sels.insert(0, Sel::All);
            }
        }
        let mut names: Vec<String> = vec![];
        for (i, s) in &sels {
            sel_names(&input.fields[*i], s, "", &mut names);
        }
        let name_refs: Vec<&str> = names.iter().map(|s| s.as_str()).collect();
        let what = format!("read#{ri} {:?} proj={proj_kind:?}{names:?} bs={} api={:?}", rd.req, rd.batch_size, rd.api);
        // known finding: from_column_names counts the children of a packed struct as columns
        if proj_kind == ProjKind::Names && input.fields.iter().any(|f| has_packed_with(f, &|_| true)) && env.known("C25-proj-names-packed-struct") {
            obs.known_hit("C25-proj-names-packed-struct", "ReaderProjection::from_column_names miscounts column indices when the schema has a packed struct");
            obs.label("known:proj-names-packed-struct");
            continue;
        }
        let projection: Option<ReaderProjection> = match proj_kind {
            ProjKind::All => None,
            ProjKind::Names => match ReaderProjection::from_column_names(ver.lance(), &lschema, &name_refs) {
                Ok(p) => Some(p),
                Err(e) => fail!("projection-error", "{what}: from_column_names: {e}"),
            },
            ProjKind::FieldIds => {
                let projected = match lschema.project(&name_refs) {
                    Ok(p) => p,
                    Err(e) => fail!("projection-error", "{what}: Schema::project: {e}"),
                };
                match ReaderProjection::from_field_ids(ver.lance(), &projected, &field_map) {
                    Ok(p) => Some(p),
                    Err(e) => fail!("projection-error", "{what}: from_field_ids: {e}"),
                }
            }
        };
        obs.label(format!("proj:{}", match proj_kind { ProjKind::All => "all", ProjKind::Names => "names", ProjKind::FieldIds => "field-ids" }));
        if sels.values().any(|s| *s != Sel::All) {
            obs.label("proj:nested-subfield");
        }

        let fs = sched.open_file(&path, &CachedFileSize::unknown()).await.map_err(|e| Failure::new("open-error", format!("open_file: {e}")))?;
        let ropts = FileReaderOptions {
            decoder_config: DecoderConfig { cache_repetition_index: rd.cache_rep_index, validate_on_decode: rd.validate },
            ..Default::default()
        };
        let base = if rd.api == Api::BaseProjection { projection.clone() } else { None };
        let reader = match FileReader::try_open(fs, base, plugins.clone(), &cache, ropts).await {
            Ok(r) => Arc::new(r),
            Err(e) => fail!("open-error", "{what}: try_open: {e}"),
        };
        if first {
            first = false;
            ensure!(reader.num_rows() == total as u64, "num-rows", "file reports {} rows, {total} were written", reader.num_rows());
            let stored = ASchema::from(reader.schema().as_ref());
            if stored.fields() != prep.aschema.fields() {
                fail!("schema-mismatch", "stored schema {:?} differs from the written schema {:?}", stored.fields(), prep.aschema.fields());
            }
            ensure!(
                reader.schema().metadata.get("c25-key").map(|s| s.as_str()) == Some("c25-value"),
                "schema-metadata",
                "schema metadata added before finish() is missing: {:?}",
                reader.schema().metadata
            );
            let meta = reader.metadata();
            ensure!(meta.version() == ver.lance(), "file-version", "file version {:?}, wrote {:?}", meta.version(), ver.lance());
            for ci in &meta.column_infos {
                max_pages = max_pages.max(ci.page_infos.len());
                for p in ci.page_infos.iter().take(3) {
                    page_labels(&format!("{:?}", p.encoding), obs);
                }
            }
            // known finding: a full-zip page written from arrays that carry a validity bitmap without any
            // null (and no empty/null list) stores no definition bits but still declares nullable layers
            let bad_fullzip = meta.column_infos.iter().any(|ci| {
                ci.page_infos.iter().any(|p| match &p.encoding {
                    lance_encoding::decoder::PageEncoding::Structural(l) => match &l.layout {
                        Some(lance_encoding::format::pb21::page_layout::Layout::FullZipLayout(fz)) => fz.bits_def == 0 && fz.layers.iter().any(|x| *x >= 3),
                        _ => false,
                    },
                    _ => false,
                })
            });
            // known finding: an all-null page (no leaf values at all) below two or more list levels is decoded
            // by indexing the rep/def levels with row numbers although one row may own several level slots
            let bad_allnull = meta.column_infos.iter().any(|ci| {
                ci.page_infos.iter().any(|p| match &p.encoding {
                    lance_encoding::decoder::PageEncoding::Structural(l) => match &l.layout {
                        Some(lance_encoding::format::pb21::page_layout::Layout::AllNullLayout(a)) => {
                            let lists: Vec<i32> = a.layers.iter().copied().filter(|x| matches!(*x, 2 | 4 | 5 | 6)).collect();
                            lists.len() >= 2
                        }
                        _ => false,
                    },
                    _ => false,
                })
            });
            if std::env::var("VERIF_C25_DUMP").is_ok() {
                for ci in &meta.column_infos {
                    for p in ci.page_infos.iter() {
                        eprintln!("column {} page rows={} {}", ci.index, p.num_rows, truncate_str(&format!("{:?}", p.encoding), 600));
                    }
                }
            }
            if bad_allnull {
                obs.label("allnull-page-below-two-list-levels");
                if env.known("C25-allnull-nested-list") {
                    obs.known_hit("C25-allnull-nested-list", "all-null page below >= 2 list levels: rows lost / wrong rows on read");
                    return Ok(());
                }
            }
            // known finding: nested fixed size list whose inner lists are all null in a page: zero-width full-zip page
            let zero_width_fullzip = meta.column_infos.iter().any(|ci| {
                ci.page_infos.iter().any(|p| match &p.encoding {
                    lance_encoding::decoder::PageEncoding::Structural(l) => match &l.layout {
                        Some(lance_encoding::format::pb21::page_layout::Layout::FullZipLayout(fz)) => {
                            fz.bits_def == 0 && fz.bits_rep == 0 && matches!(fz.details, Some(lance_encoding::format::pb21::full_zip_layout::Details::BitsPerValue(0)))
                        }
                        _ => false,
                    },
                    _ => false,
                })
            });
            if zero_width_fullzip {
                obs.label("fullzip-page-zero-width");
            }
            // known finding: a list level without null / empty lists (ALL_VALID_LIST) above def-bearing layers:
            // a list that starts with a null item (or a null / empty inner list) is dropped by unravel_offsets
            let allvalid_list_over_defs = meta.column_infos.iter().any(|ci| {
                ci.page_infos.iter().any(|p| match &p.encoding {
                    lance_encoding::decoder::PageEncoding::Structural(l) => {
                        use lance_encoding::format::pb21::page_layout::Layout;
                        let layers: &[i32] = match &l.layout {
                            Some(Layout::MiniBlockLayout(m)) => &m.layers,
                            Some(Layout::FullZipLayout(f)) => &f.layers,
                            Some(Layout::AllNullLayout(a)) => &a.layers,
                            _ => &[],
                        };
                        layers.iter().enumerate().any(|(i, x)| *x == 2 && layers[..i].iter().any(|y| *y >= 3))
                    }
                    _ => false,
                })
            });
            if allvalid_list_over_defs {
                obs.label("page-allvalid-list-over-def-layers");
                if env.known("C25-allvalid-list-null-first") {
                    obs.known_hit("C25-allvalid-list-null-first", "page with an ALL_VALID_LIST layer above nullable layers: lists starting with a null item are dropped on read");
                    return Ok(());
                }
            }
            // known finding: full-zip page with a nullable struct layer above a list layer: the reader derives
            // max_visible_def from ALL non-list layers instead of only those below the innermost list
            let fullzip_struct_above_list = meta.column_infos.iter().any(|ci| {
                ci.page_infos.iter().any(|p| match &p.encoding {
                    lance_encoding::decoder::PageEncoding::Structural(l) => match &l.layout {
                        Some(lance_encoding::format::pb21::page_layout::Layout::FullZipLayout(fz)) => {
                            let first_list = fz.layers.iter().position(|x| matches!(*x, 2 | 4 | 5 | 6));
                            first_list.map(|i| fz.layers[i..].iter().any(|x| *x == 3)).unwrap_or(false)
                        }
                        _ => false,
                    },
                    _ => false,
                })
            });
            if fullzip_struct_above_list {
                obs.label("fullzip-page-nullable-struct-above-list");
                if env.known("C25-fullzip-struct-above-list") {
                    obs.known_hit("C25-fullzip-struct-above-list", "full-zip page with a NullableItem layer above a list layer: reader's max_visible_def is too large, control words / values are mis-parsed");
                    return Ok(());
                }
            }
            // known findings about batches that span pages with different rep/def layer kinds
            let mut mixed_struct_validity = false;
            let mut mixed_fullzip_leaf = false;
            for ci in &meta.column_infos {
                // (layers, is_fullzip, num_items != num_visible_items)
                let mut pages: Vec<(Vec<i32>, bool, bool)> = vec![];
                for p in ci.page_infos.iter() {
                    if let lance_encoding::decoder::PageEncoding::Structural(l) = &p.encoding {
                        use lance_encoding::format::pb21::page_layout::Layout;
                        match &l.layout {
                            Some(Layout::MiniBlockLayout(m)) => pages.push((m.layers.clone(), false, false)),
                            Some(Layout::FullZipLayout(f)) => pages.push((f.layers.clone(), true, f.num_items != f.num_visible_items)),
                            Some(Layout::AllNullLayout(a)) => pages.push((a.layers.clone(), false, false)),
                            _ => {}
                        }
                    }
                }
                for a in &pages {
                    for b in &pages {
                        if a.0.len() != b.0.len() {
                            continue;
                        }
                        let first_list = a.0.iter().position(|x| matches!(*x, 2 | 4 | 5 | 6));
                        if let Some(fl) = first_list {
                            // an item layer above a list: all-valid in one page, nullable in another
                            if (fl + 1..a.0.len()).any(|j| a.0[j] == 1 && b.0[j] == 3) {
                                mixed_struct_validity = true;
                            }
                        }
                        // full-zip page with an all-valid item layer below the list and invisible items, next to a page where that layer is nullable
                        if a.1 && a.2 && (0..first_list.unwrap_or(0)).any(|j| a.0[j] == 1 && b.0[j] == 3) {
                            mixed_fullzip_leaf = true;
                        }
                    }
                }
            }
            // nested lists: one page with definition levels, another page without any
            let mut mixed_nested_list_nodef = false;
            for ci in &meta.column_infos {
                let mut with_def = false;
                let mut without_def = false;
                for p in ci.page_infos.iter() {
                    if let lance_encoding::decoder::PageEncoding::Structural(l) = &p.encoding {
                        use lance_encoding::format::pb21::page_layout::Layout;
                        let layers: &[i32] = match &l.layout {
                            Some(Layout::MiniBlockLayout(m)) => &m.layers,
                            Some(Layout::FullZipLayout(f)) => &f.layers,
                            Some(Layout::AllNullLayout(a)) => &a.layers,
                            _ => &[],
                        };
                        if layers.iter().filter(|x| matches!(**x, 2 | 4 | 5 | 6)).count() >= 2 {
                            if layers.iter().any(|x| *x >= 3) {
                                with_def = true;
                            } else {
                                without_def = true;
                            }
                        }
                    }
                }
                if with_def && without_def {
                    mixed_nested_list_nodef = true;
                }
            }
            if mixed_nested_list_nodef {
                obs.label("pages-mix-nested-list-with-and-without-def");
                if env.known("C25-mixed-pages-nested-list-nodef") {
                    obs.known_hit("C25-mixed-pages-nested-list-nodef", "list<list<T>>: a batch spanning a page with definition levels and a page without: 'Max offset exceeds length of values'");
                    return Ok(());
                }
            }
            if mixed_struct_validity {
                obs.label("pages-mix-allvalid-and-nullable-struct-above-list");
                if env.known("C25-mixed-pages-struct-validity") {
                    obs.known_hit("C25-mixed-pages-struct-validity", "struct above a list: one page all-valid, another nullable; all-valid page contributes leaf item count to the struct validity");
                    return Ok(());
                }
            }
            if mixed_fullzip_leaf {
                obs.label("pages-mix-fullzip-allvalid-leaf-with-invisible-items");
                if env.known("C25-mixed-pages-fullzip-leaf-validity") {
                    obs.known_hit("C25-mixed-pages-fullzip-leaf-validity", "full-zip page with all-valid leaf layer and invisible items next to a page with nullable leaf layer: validity length mismatch");
                    return Ok(());
                }
            }
            if bad_fullzip {
                obs.label("fullzip-page-nullable-without-def-bits");
                if env.known("C25-fullzip-allvalid-bitmap") {
                    obs.known_hit("C25-fullzip-allvalid-bitmap", "full-zip page with nullable layers but bits_def = 0 (validity bitmap without nulls): reader cannot decode it");
                    return Ok(());
                }
            }
            obs.label(format!("pages:{}", match max_pages { 0 => "0", 1 => "1", 2..=3 => "2-3", 4..=9 => "4-9", _ => "10+" }));
        }

        // request
        let (params, rows, kind) = resolve_req(&rd.req, total);
        obs.label(format!("req:{kind}"));
        obs.label(format!("api:{:?}", rd.api));
        if rows.is_empty() {
            obs.label("req:selects-nothing");
        }
        if kind != "full" {
            nonfull = true;
        }
        reqkinds.push(kind);
        // known finding: 2.0 files, blocking API, list column with several pages
        if rd.api == Api::Blocking
            && ver == Ver::V2_0
            && max_pages >= 2
            && sels.keys().any(|i| has_list(&input.fields[*i]))
            && env.known("C25-blocking-v20-list-multipage")
        {
            obs.known_hit("C25-blocking-v20-list-multipage", "2.0 file, list column with >= 2 pages, read_stream_projected_blocking: 'drain was called ... but the decoder was never awaited'");
            obs.label("known:blocking-v20-list-multipage");
            continue;
        }
        // known finding: the blocking read path does not drop empty ranges (the async path does)
        if rd.api == Api::Blocking && !rows.is_empty() && env.known("C25-blocking-empty-range") {
            if let ReadBatchParams::Ranges(rs) = &params {
                if rs.iter().any(|r| r.start == r.end) {
                    obs.known_hit("C25-blocking-empty-range", "read_stream_projected_blocking with an empty range among non-empty ones panics / fails");
                    obs.label("known:blocking-empty-range");
                    continue;
                }
            }
        }
        // batch_size as generated (1..70), but never more than ~2500 batches per read (only matters for the big thorough files)
        let bs = (rd.batch_size.max(1) as u32).max((rows.len() as u32).div_ceil(2500));
        let api = if rd.api == Api::BaseProjection { Api::BaseProjection } else { rd.api };
        let pass_proj = if api == Api::BaseProjection { None } else { projection.clone() };
        let fut = collect_read(reader.clone(), api, params, bs, rd.readahead.max(1) as u32, pass_proj);
        let got = match tokio::time::timeout(std::time::Duration::from_secs(300), fut).await {
            Err(_) => fail!("read-hang", "{what}: no result within 300 s"),
            Ok(Err(e)) if e.starts_with("TASK-NUM-ROWS") => fail!("task-num-rows", "{what}: {e}"),
            Ok(Err(e)) => fail!("read-error", "{what}: {e}"),
            Ok(Ok(b)) => b,
        };

        // ---- oracle
        let exp_fields: Vec<AField> = sels.iter().map(|(i, s)| afield(&sel_field(&input.fields[*i], s))).collect();
        let mut got_cols: Vec<Vec<V>> = vec![vec![]; exp_fields.len()];
        let mut got_rows = 0usize;
        for (bi, b) in got.iter().enumerate() {
            ensure!(b.num_rows() > 0 && b.num_rows() <= bs as usize, "batch-size", "{what}: batch {bi} has {} rows (batch_size {bs})", b.num_rows());
            if bi + 1 < got.len() && b.num_rows() < bs as usize {
                obs.label("short-inner-batch");
            }
            let sch = b.schema();
            if sch.fields().len() != exp_fields.len() || sch.fields().iter().zip(&exp_fields).any(|(a, e)| a.as_ref() != e) {
                fail!("batch-schema", "{what}: batch {bi} has fields {:?}, expected {:?}", sch.fields(), exp_fields);
            }
            for (ci, c) in b.columns().iter().enumerate() {
                ensure!(c.data_type() == exp_fields[ci].data_type(), "batch-schema", "{what}: batch {bi} column {ci} has type {:?}, expected {:?}", c.data_type(), exp_fields[ci].data_type());
                ensure!(c.len() == b.num_rows(), "batch-schema", "{what}: batch {bi} column {ci} has {} rows, batch {}", c.len(), b.num_rows());
                let vals = match to_vals(c.as_ref()) {
                    Ok(v) => v,
                    Err(e) => fail!("malformed-array", "{what}: batch {bi} column {ci}: {e}"),
                };
                got_cols[ci].extend(vals);
            }
            got_rows += b.num_rows();
        }
        ensure!(got_rows == rows.len(), "row-count", "{what}: read {got_rows} rows, requested {}", rows.len());
        for (k, (i, s)) in sels.iter().enumerate() {
            let f = &input.fields[*i];
            for (pos, r) in rows.iter().enumerate() {
                let want = sel_val(f, s, &prep.model[*i][*r]);
                if want != got_cols[k][pos] {
                    let d = first_diff(&format!("{}[row {r}]", f.name), &want, &got_cols[k][pos]).unwrap_or_default();
                    fail!("value-mismatch", "{what}: {} ({}) output position {pos}: {d}", f.name, skeleton(&f.ty));
                }
            }
        }
    }

    // ---- classification
    let deep_null = input.fields.iter().enumerate().any(|(i, f)| depth(&f.ty) >= 2 && prep.model[i].iter().any(|v| has_inner_null(v, 1)));
    if deep_null {
        obs.label("deep-null");
    }
    if max_pages >= 2 {
        obs.label("multi-page");
    }
    if nonfull {
        obs.label("non-full-read");
    }
    if deep_null && max_pages >= 2 && nonfull {
        reqkinds.sort_unstable();
        reqkinds.dedup();
        let shape: Vec<String> = input.fields.iter().filter(|f| depth(&f.ty) >= 2).map(|f| skeleton(&f.ty)).collect();
        obs.label("nontrivial");
        obs.nontrivial(format!("{}|{}|{:?}|p{}", ver.name(), shape.join(";"), reqkinds, max_pages.min(8)));
    }
    let _ = env;
    Ok(())
}

// ---------------------------------------------------------------------------
// strategies

#[derive(Clone, Debug)]
struct MetaChoice {
    compression: Option<u8>,
    level: Option<u8>,
    rle: Option<u8>,
    bss: Option<u8>,
    dict_div: Option<u32>,
    dict_ratio: Option<u8>,
    blob: bool,
    packed: bool,
}

fn meta_choice() -> impl Strategy<Value = MetaChoice> {
    (
        prop::option::weighted(0.45, prop_oneof![3 => 0u8..3, 1 => Just(3u8)]),
        // zstd levels of 9 and more cost tens to hundreds of ms per mini-block or page (the 2.0 writer makes many tiny pages): keep cases cheap
        prop::option::weighted(0.3, prop_oneof![Just(0u8), Just(1u8), Just(3u8), Just(5u8)]),
        prop::option::weighted(0.3, 0u8..=10),
        prop::option::weighted(0.3, 0u8..3),
        prop::option::weighted(0.15, prop_oneof![2u32..10, 10u32..100000]),
        prop::option::weighted(0.2, 1u8..=10),
        prop::bool::weighted(0.05),
        prop::bool::weighted(0.12),
    )
        .prop_map(|(compression, level, rle, bss, dict_div, dict_ratio, blob, packed)| MetaChoice { compression, level, rle, bss, dict_div, dict_ratio, blob, packed })
}

fn is_var_width(ty: &Ty) -> bool {
    matches!(ty, Ty::Utf8 | Ty::LargeUtf8 | Ty::Binary | Ty::LargeBinary)
}

fn make_meta(ty: &Ty, m: &MetaChoice) -> Vec<(String, String)> {
    let mut out = vec![];
    let leaf = is_leaf(ty);
    if leaf {
        if let Some(c) = m.compression {
            let name = ["none", "lz4", "zstd", "fsst"][c as usize];
            // fsst is documented for string data only
            if name != "fsst" || is_var_width(ty) {
                out.push(("lance-encoding:compression".to_string(), name.to_string()));
                if let (Some(l), "zstd") = (m.level, name) {
                    out.push(("lance-encoding:compression-level".to_string(), l.to_string()));
                }
            }
        }
        if let Some(r) = m.rle {
            out.push(("lance-encoding:rle-threshold".to_string(), format!("{:.1}", r as f64 / 10.0)));
        }
        if let Some(b) = m.bss {
            out.push(("lance-encoding:bss".to_string(), ["off", "on", "auto"][b as usize].to_string()));
        }
        if let Some(d) = m.dict_div {
            out.push(("lance-encoding:dict-divisor".to_string(), d.to_string()));
        }
        if let Some(d) = m.dict_ratio {
            out.push(("lance-encoding:dict-size-ratio".to_string(), format!("{:.1}", d as f64 / 10.0)));
        }
        if m.blob && matches!(ty, Ty::Binary | Ty::LargeBinary) {
            out.push(("lance-encoding:blob".to_string(), "true".to_string()));
        }
    } else if let Ty::Struct(ch) = ty {
        if m.packed && ch.iter().all(|c| is_leaf(&c.ty) && !matches!(c.ty, Ty::Dict(..))) {
            out.push(("lance-encoding:packed".to_string(), "true".to_string()));
        }
    }
    out
}

fn unit_s() -> impl Strategy<Value = Unit> {
    prop_oneof![Just(Unit::S), Just(Unit::Ms), Just(Unit::Us), Just(Unit::Ns)]
}

fn fixed_leaf_ty() -> BoxedStrategy<Ty> {
    prop_oneof![
        2 => Just(Ty::Bool),
        1 => Just(Ty::I8),
        1 => Just(Ty::I16),
        2 => Just(Ty::I32),
        2 => Just(Ty::I64),
        1 => Just(Ty::U8),
        1 => Just(Ty::U16),
        1 => Just(Ty::U32),
        1 => Just(Ty::U64),
        1 => Just(Ty::F16),
        2 => Just(Ty::F32),
        2 => Just(Ty::F64),
        1 => Just(Ty::Date32),
        1 => Just(Ty::Date64),
        1 => prop_oneof![Just(Unit::S), Just(Unit::Ms)].prop_map(Ty::Time32),
        1 => prop_oneof![Just(Unit::Us), Just(Unit::Ns)].prop_map(Ty::Time64),
        2 => (unit_s(), prop_oneof![12 => Just(None), 4 => Just(Some("UTC".to_string())), 4 => Just(Some("America/New_York".to_string())), 1 => Just(Some("+02:00".to_string()))]).prop_map(|(u, tz)| Ty::Ts(u, tz)),
        1 => unit_s().prop_map(Ty::Dur),
        2 => (1u8..=38).prop_flat_map(|p| (Just(p), 0i8..=(p as i8))).prop_map(|(p, s)| Ty::Dec128(p, s)),
        1 => (1u8..=76).prop_flat_map(|p| (Just(p), 0i8..=(p.min(38) as i8))).prop_map(|(p, s)| Ty::Dec256(p, s)),
        2 => (1u8..=17).prop_map(Ty::Fsb),
    ]
    .boxed()
}

fn leaf_ty() -> BoxedStrategy<Ty> {
    prop_oneof![
        56 => fixed_leaf_ty(),
        16 => Just(Ty::Utf8),
        4 => Just(Ty::LargeUtf8),
        8 => Just(Ty::Binary),
        4 => Just(Ty::LargeBinary),
        1 => prop_oneof![Just(Ty::Utf8View), Just(Ty::BinaryView)],
        12 => (
            prop_oneof![Just(Key::I8), Just(Key::I16), Just(Key::I32), Just(Key::U8)],
            prop_oneof![5 => Just(Ty::Utf8), 1 => Just(Ty::LargeUtf8), 1 => Just(Ty::Binary), 1 => Just(Ty::I32), 1 => Just(Ty::F64)],
            any::<bool>()
        )
            .prop_map(|(k, v, n)| Ty::Dict(k, Box::new(v), n)),
    ]
    .boxed()
}

fn gen_s(tier: Tier) -> impl Strategy<Value = Gen> {
    let wide = match tier {
        Tier::Quick => prop_oneof![14 => Just(0u8), 1 => Just(1u8)].boxed(),
        Tier::Thorough => prop_oneof![60 => Just(0u8), 5 => Just(1u8), 1 => Just(2u8)].boxed(),
    };
    (
        any::<u32>(),
        prop_oneof![3 => Just(0u8), 16 => 3u8..45, 1 => 80u8..100, 1 => Just(100u8)],
        prop_oneof![3 => Just(0u8), 2 => 1u8..5, 2 => 5u8..40],
        prop_oneof![3 => Just(0u8), 2 => 40u8..97],
        prop_oneof![1 => Just(0u8), 12 => 1u8..8],
        wide,
        any::<bool>(),
    )
        .prop_map(|(seed, nulls, card, runs, len, wide, garbage)| Gen { seed, nulls, card, runs, len, wide, garbage })
}

fn mk_fld(ty: Ty, nullable: bool, mut gen: Gen, m: MetaChoice) -> Fld {
    if let Ty::Dict(..) = ty {
        if gen.card == 0 {
            gen.card = 12;
        }
        gen.wide = 0;
    }
    let meta = make_meta(&ty, &m);
    Fld { name: String::new(), ty, nullable, meta, gen }
}

fn fld_s(depth_left: u32, tier: Tier) -> BoxedStrategy<Fld> {
    let leaf = (leaf_ty(), prop::bool::weighted(0.85), gen_s(tier), meta_choice()).prop_map(|(ty, n, g, m)| mk_fld(ty, n, g, m)).boxed();
    if depth_left <= 1 {
        return leaf;
    }
    let child = fld_s(depth_left - 1, tier);
    let list = (child.clone(), any::<bool>(), prop::bool::weighted(0.85), gen_s(tier), meta_choice())
        .prop_map(|(c, large, n, g, m)| mk_fld(if large { Ty::LargeList(Box::new(c)) } else { Ty::List(Box::new(c)) }, n, g, m))
        .boxed();
    // fixed size lists: fixed width items (or a nested fixed size list of those)
    let fsl_item = (fixed_leaf_ty(), gen_s(tier)).prop_map(|(ty, g)| mk_fld(ty, true, g, MetaChoice { compression: None, level: None, rle: None, bss: None, dict_div: None, dict_ratio: None, blob: false, packed: false }));
    let fsl1 = (fsl_item, 1u8..6, prop::bool::weighted(0.85), gen_s(tier), meta_choice()).prop_map(|(item, d, n, g, m)| mk_fld(Ty::Fsl(Box::new(item), d), n, g, m)).boxed();
    let fsl = if depth_left >= 3 {
        prop_oneof![
            5 => fsl1.clone(),
            1 => (fsl1.clone(), 1u8..4, prop::bool::weighted(0.85), gen_s(tier), meta_choice()).prop_map(|(mut item, d, n, g, m)| {
                item.nullable = true;
                mk_fld(Ty::Fsl(Box::new(item), d), n, g, m)
            }),
        ]
        .boxed()
    } else {
        fsl1
    };
    let strukt = (prop::collection::vec(child, 1..4), prop::bool::weighted(0.85), gen_s(tier), meta_choice()).prop_map(|(ch, n, g, m)| mk_fld(Ty::Struct(ch), n, g, m)).boxed();
    prop_oneof![3 => leaf, 4 => list, 1 => fsl, 4 => strukt].boxed()
}

fn rename(f: &mut Fld, name: String) {
    f.name = name;
    match &mut f.ty {
        Ty::List(c) | Ty::LargeList(c) => rename(c, "item".into()),
        Ty::Fsl(c, _) => {
            rename(c, "item".into());
            c.nullable = true;
            c.meta.clear();
        }
        Ty::Struct(ch) => {
            for (i, c) in ch.iter_mut().enumerate() {
                rename(c, format!("f{i}"));
            }
        }
        _ => {}
    }
}

fn has_tz_colon(f: &Fld) -> bool {
    match &f.ty {
        Ty::List(c) | Ty::LargeList(c) | Ty::Fsl(c, _) => has_tz_colon(c),
        Ty::Struct(ch) => ch.iter().any(has_tz_colon),
        Ty::Ts(_, Some(tz)) => tz.contains(':'),
        Ty::Dict(_, v, _) => matches!(&**v, Ty::Ts(_, Some(tz)) if tz.contains(':')),
        _ => false,
    }
}

fn forced(f: &Fld) -> Option<&str> {
    f.meta.iter().find(|(k, _)| k == "lance-encoding:structural-encoding").map(|(_, v)| v.as_str())
}

/// does the field contain a leaf (outside packed structs) whose type satisfies `p`?
fn has_leaf(f: &Fld, p: &dyn Fn(&Ty) -> bool) -> bool {
    match &f.ty {
        Ty::List(c) | Ty::LargeList(c) | Ty::Fsl(c, _) => has_leaf(c, p),
        Ty::Struct(ch) => ch.iter().any(|c| has_leaf(c, p)),
        t => p(t),
    }
}

/// does the field contain a packed struct with a child whose type satisfies `p`?
fn has_packed_with(f: &Fld, p: &dyn Fn(&Ty) -> bool) -> bool {
    match &f.ty {
        Ty::List(c) | Ty::LargeList(c) | Ty::Fsl(c, _) => has_packed_with(c, p),
        Ty::Struct(ch) => (is_packed(f) && ch.iter().any(|c| p(&c.ty))) || ch.iter().any(|c| has_packed_with(c, p)),
        _ => false,
    }
}

/// is there a packed struct one of whose child arrays satisfies `p`?
fn packed_child(f: &Fld, a: &ArrayRef, p: &dyn Fn(&ArrayRef) -> bool) -> bool {
    match &f.ty {
        Ty::List(c) => {
            let l = a.as_list::<i32>();
            let (s, e) = (l.value_offsets()[0] as usize, l.value_offsets()[l.len()] as usize);
            packed_child(c, &l.values().slice(s, e - s), p)
        }
        Ty::LargeList(c) => {
            let l = a.as_list::<i64>();
            let (s, e) = (l.value_offsets()[0] as usize, l.value_offsets()[l.len()] as usize);
            packed_child(c, &l.values().slice(s, e - s), p)
        }
        Ty::Struct(ch) => {
            let st = a.as_struct();
            if is_packed(f) {
                st.columns().iter().any(|c| p(c))
            } else {
                ch.iter().zip(st.columns()).any(|(c, a)| packed_child(c, a, p))
            }
        }
        _ => false,
    }
}

/// a fixed size list whose item array (leaf or inner fixed size list) is entirely null (and not empty)
fn fsl_inner_allnull(f: &Fld, a: &ArrayRef) -> bool {
    match &f.ty {
        Ty::List(c) => {
            let l = a.as_list::<i32>();
            let (s, e) = (l.value_offsets()[0] as usize, l.value_offsets()[l.len()] as usize);
            fsl_inner_allnull(c, &l.values().slice(s, e - s))
        }
        Ty::LargeList(c) => {
            let l = a.as_list::<i64>();
            let (s, e) = (l.value_offsets()[0] as usize, l.value_offsets()[l.len()] as usize);
            fsl_inner_allnull(c, &l.values().slice(s, e - s))
        }
        Ty::Struct(ch) => ch.iter().zip(a.as_struct().columns()).any(|(c, a)| fsl_inner_allnull(c, a)),
        Ty::Fsl(c, _) => {
            let inner = a.as_fixed_size_list().values();
            (inner.len() > 0 && inner.null_count() == inner.len()) || fsl_inner_allnull(c, inner)
        }
        _ => false,
    }
}

fn has_list(f: &Fld) -> bool {
    match &f.ty {
        Ty::List(_) | Ty::LargeList(_) => true,
        Ty::Fsl(c, _) => has_list(c),
        Ty::Struct(ch) => ch.iter().any(has_list),
        _ => false,
    }
}

/// a blob leaf that has an empty or null value
fn blob_with_empty(f: &Fld, vals: &[&V]) -> bool {
    match &f.ty {
        Ty::List(c) | Ty::LargeList(c) | Ty::Fsl(c, _) => {
            let items: Vec<&V> = vals.iter().flat_map(|v| match v { V::L(x) => x.iter().collect::<Vec<_>>(), _ => vec![] }).collect();
            blob_with_empty(c, &items)
        }
        Ty::Struct(ch) => ch.iter().enumerate().any(|(ci, c)| {
            let cv: Vec<&V> = vals.iter().filter_map(|v| match v { V::S(x) => Some(&x[ci]), _ => None }).collect();
            // values below a null struct are physically present (nulls or garbage): be conservative
            blob_with_empty(c, &cv) || (is_blob_leaf(c) && vals.iter().any(|v| matches!(v, V::Null)))
        }),
        _ => is_blob_leaf(f) && vals.iter().any(|v| matches!(v, V::Null) || matches!(v, V::Y(b) if b.is_empty())),
    }
}

fn is_blob_leaf(f: &Fld) -> bool {
    is_blob(f) && matches!(f.ty, Ty::Binary | Ty::LargeBinary)
}

fn has_leaf_fld(f: &Fld, p: &dyn Fn(&Fld) -> bool) -> bool {
    match &f.ty {
        Ty::List(c) | Ty::LargeList(c) | Ty::Fsl(c, _) => has_leaf_fld(c, p),
        Ty::Struct(ch) => ch.iter().any(|c| has_leaf_fld(c, p)),
        _ => p(f),
    }
}

fn has_null_or_empty(v: &V) -> bool {
    match v {
        V::Null => true,
        V::L(x) => x.is_empty() || x.iter().any(has_null_or_empty),
        V::S(x) => x.iter().any(has_null_or_empty),
        V::Y(b) => b.is_empty(),
        _ => false,
    }
}

/// a packed struct with a variable-width child that has a null struct row (its own, or pushed down from a null parent struct)
fn packed_var_null(f: &Fld, vals: &[&V]) -> bool {
    packed_var_null_in(f, vals, false)
}

fn packed_var_null_in(f: &Fld, vals: &[&V], parent_null: bool) -> bool {
    match &f.ty {
        Ty::List(c) | Ty::LargeList(c) | Ty::Fsl(c, _) => {
            let items: Vec<&V> = vals.iter().flat_map(|v| match v { V::L(x) => x.iter().collect::<Vec<_>>(), _ => vec![] }).collect();
            packed_var_null_in(c, &items, false)
        }
        Ty::Struct(ch) => {
            let has_null = parent_null || vals.iter().any(|v| matches!(v, V::Null));
            if is_packed(f) {
                ch.iter().any(|c| is_var_width(&c.ty)) && has_null
            } else {
                ch.iter().enumerate().any(|(ci, c)| {
                    let cv: Vec<&V> = vals.iter().filter_map(|v| match v { V::S(x) => Some(&x[ci]), _ => None }).collect();
                    packed_var_null_in(c, &cv, has_null)
                })
            }
        }
        _ => false,
    }
}

fn leaf_bytes(ty: &Ty) -> usize {
    match ty {
        Ty::Bool | Ty::I8 | Ty::U8 => 1,
        Ty::I16 | Ty::U16 | Ty::F16 => 2,
        Ty::I32 | Ty::U32 | Ty::F32 | Ty::Date32 | Ty::Time32(_) => 4,
        Ty::Dec128(..) => 16,
        Ty::Dec256(..) => 32,
        Ty::Fsb(w) => *w as usize,
        Ty::Fsl(c, d) => *d as usize * leaf_bytes(&c.ty),
        _ => 8,
    }
}

/// byte width of the largest fixed_size_list<fixed_size_list<..>> value in the field (0 if there is none)
fn nested_fsl_bytes(f: &Fld) -> usize {
    match &f.ty {
        Ty::List(c) | Ty::LargeList(c) => nested_fsl_bytes(c),
        Ty::Struct(ch) => ch.iter().map(nested_fsl_bytes).max().unwrap_or(0),
        Ty::Fsl(c, _) if matches!(c.ty, Ty::Fsl(..)) => leaf_bytes(&f.ty).max(1),
        _ => 0,
    }
}

fn packed_under_list(f: &Fld, under: bool) -> bool {
    match &f.ty {
        Ty::List(c) | Ty::LargeList(c) => packed_under_list(c, true),
        Ty::Fsl(c, _) => packed_under_list(c, under),
        Ty::Struct(ch) => (under && is_packed(f)) || ch.iter().any(|c| packed_under_list(c, under)),
        _ => false,
    }
}

/// model view of `fsl_inner_allnull`: a fixed size list node whose valid entries have only null items
/// (children of null entries / garbage behind null lists are not considered: over-approximation)
fn fsl_items_allnull_model(f: &Fld, vals: &[&V]) -> bool {
    match &f.ty {
        Ty::List(c) | Ty::LargeList(c) => {
            let items: Vec<&V> = vals.iter().flat_map(|v| match v { V::L(x) => x.iter().collect::<Vec<_>>(), _ => vec![] }).collect();
            fsl_items_allnull_model(c, &items)
        }
        Ty::Struct(ch) => ch.iter().enumerate().any(|(ci, c)| {
            let cv: Vec<&V> = vals.iter().filter_map(|v| match v { V::S(x) => Some(&x[ci]), _ => None }).collect();
            fsl_items_allnull_model(c, &cv)
        }),
        Ty::Fsl(c, _) => {
            if vals.is_empty() {
                return false;
            }
            let items: Vec<&V> = vals.iter().flat_map(|v| match v { V::L(x) => x.iter().collect::<Vec<_>>(), _ => vec![] }).collect();
            items.iter().all(|v| matches!(v, V::Null)) || fsl_items_allnull_model(c, &items)
        }
        _ => false,
    }
}

/// model view: a packed struct node one of whose children is null in every valid struct entry
/// (struct entries that are null themselves contribute nulls or garbage: over-approximation)
fn packed_child_allnull_model(f: &Fld, vals: &[&V]) -> bool {
    match &f.ty {
        Ty::List(c) | Ty::LargeList(c) | Ty::Fsl(c, _) => {
            let items: Vec<&V> = vals.iter().flat_map(|v| match v { V::L(x) => x.iter().collect::<Vec<_>>(), _ => vec![] }).collect();
            packed_child_allnull_model(c, &items)
        }
        Ty::Struct(ch) => {
            if is_packed(f) {
                !vals.is_empty() && (0..ch.len()).any(|ci| ch[ci].nullable && vals.iter().all(|v| match v { V::S(x) => matches!(x[ci], V::Null), _ => true }))
            } else {
                ch.iter().enumerate().any(|(ci, c)| {
                    let cv: Vec<&V> = vals.iter().filter_map(|v| match v { V::S(x) => Some(&x[ci]), _ => None }).collect();
                    packed_child_allnull_model(c, &cv)
                })
            }
        }
        _ => false,
    }
}

fn has_wide2(f: &Fld) -> bool {
    match &f.ty {
        Ty::List(c) | Ty::LargeList(c) | Ty::Fsl(c, _) => has_wide2(c),
        Ty::Struct(ch) => ch.iter().any(has_wide2),
        t => f.gen.wide >= 2 && is_var_width(t),
    }
}

fn req_s() -> impl Strategy<Value = Req> {
    prop_oneof![
        2 => Just(Req::Full),
        4 => (any::<u16>(), any::<u16>()).prop_map(|(a, b)| Req::Range(a, b)),
        1 => any::<u16>().prop_map(Req::RangeFrom),
        1 => any::<u16>().prop_map(Req::RangeTo),
        3 => prop::collection::vec(any::<u16>(), 2..9).prop_map(Req::Ranges),
        3 => prop::collection::vec(any::<u16>(), 1..30).prop_map(Req::Indices),
        1 => prop::collection::vec(any::<u16>(), 30..300).prop_map(Req::Indices),
    ]
}

fn read_s() -> impl Strategy<Value = Read> {
    (
        req_s(),
        prop_oneof![3 => Just(ProjKind::All), 2 => Just(ProjKind::Names), 2 => Just(ProjKind::FieldIds)],
        prop::collection::vec(prop::collection::vec(any::<u16>(), 1..4), 1..3),
        1u8..=70,
        1u8..4,
        prop_oneof![4 => Just(Api::Stream), 2 => Just(Api::Tasks), 1 => Just(Api::BaseProjection), 2 => Just(Api::Blocking)],
        any::<bool>(),
        any::<bool>(),
    )
        .prop_map(|(req, proj, paths, batch_size, readahead, api, cache_rep_index, validate)| Read { req, proj, paths, batch_size, readahead, api, cache_rep_index, validate })
}

fn input_s(tier: Tier) -> BoxedStrategy<Input> {
    let top = prop_oneof![1 => fld_s(1, tier), 4 => fld_s(2, tier), 5 => fld_s(3, tier), 5 => fld_s(4, tier)];
    let fields = prop::collection::vec((top, prop::option::weighted(0.12, any::<bool>())), 1..4);
    let bsize = match tier {
        Tier::Quick => prop_oneof![1 => 0u16..4, 4 => 4u16..70, 3 => 50u16..400, 2 => 300u16..1300].boxed(),
        Tier::Thorough => prop_oneof![1 => 0u16..4, 3 => 1u16..70, 3 => 50u16..400, 2 => 300u16..1300, 1 => 1000u16..12000].boxed(),
    };
    let wopts = (
        prop_oneof![2 => Just(None), 3 => (64u32..4096).prop_map(Some), 1 => (4096u32..65536).prop_map(Some)],
        prop_oneof![1 => Just(None), 10 => (0u32..600).prop_map(Some), 1 => (2048u32..100000).prop_map(Some)],
        prop::option::of(any::<bool>()),
        prop::bool::weighted(0.8),
    )
        .prop_map(|(max_page_bytes, data_cache_bytes, keep_original_array, eager_schema)| WOpts { max_page_bytes, data_cache_bytes, keep_original_array, eager_schema });
    (
        prop_oneof![3 => Just(Ver::V2_0), 4 => Just(Ver::V2_1), 3 => Just(Ver::V2_2)],
        fields,
        prop_oneof![1 => prop::collection::vec(bsize.clone(), 1..2), 9 => prop::collection::vec(bsize, 2..7)],
        prop_oneof![2 => Just(0u8), 2 => 1u8..9],
        any::<bool>(),
        wopts,
        prop::bool::weighted(0.3),
        prop::collection::vec(read_s(), 1..4),
    )
        .prop_map(|(version, fields, batches, pad_front, sliced, wopts, small_block, reads)| {
            let fields: Vec<Fld> = fields
                .into_iter()
                .enumerate()
                .map(|(i, (mut f, se))| {
                    rename(&mut f, format!("c{i}"));
                    if let Some(mini) = se {
                        // forcing mini-block onto values that cannot fit a mini-block is a user error
                        if !(mini && has_wide2(&f)) {
                            f.meta.push(("lance-encoding:structural-encoding".to_string(), if mini { "miniblock" } else { "fullzip" }.to_string()));
                        }
                    }
                    f
                })
                .collect();
            Input { version, fields, batches, pad_front, sliced, wopts, small_block, reads }
        })
        .boxed()
}

impl Property for C25 {
    type Input = Input;
    fn id(&self) -> &'static str {
        "C25"
    }
    fn rule(&self) -> String {
        "A case = schema tree (1-3 top-level fields, nesting depth <= 4 over all primitive / temporal / decimal128+256 / string / binary / (views: rejected by the schema) / fixed-size-binary / dictionary / list / large-list / fixed-size-list / struct types, documented lance-encoding:* field metadata (compression none|lz4|zstd|fsst, compression-level, rle-threshold, bss, dict-divisor, dict-size-ratio, packed, structural-encoding, blob)) + a value profile per schema node (seed, null rate, cardinality, run rate, list/string lengths, wide values, garbage behind null lists / null structs) expanded deterministically into a model of explicit value trees + 1-6 write_batch calls of uneven size (slices of one backing array with a front pad, or arrays built per batch) + writer options (max_page_bytes, data_cache_bytes mostly tiny, keep_original_array, eager or lazy schema) + file version 2.0/2.1/2.2 + object store block size + 1-3 reads (full / range / range-from / range-to / sorted disjoint ranges incl. empty ones / sorted unique indices; projection all / by column names / by field ids incl. nested sub-fields in file order; batch_size 1..70; read_stream_projected / read_tasks / base projection at open / blocking reader; decoder config flags). The file lives on the in-memory VStore wrapped in a lance ObjectStore behind a real ScanScheduler. Oracle: the model rows selected by the request and projected equal the concatenated read batches converted back to value trees (nothing below a null is compared, dictionaries are decoded, floats bit-exact); finish() row count, num_rows, stored schema (names, types, nullability, field metadata), schema metadata added before finish, file version, batch sizes (1..=batch_size), batch schema and column types are checked; an Err that reports an internal error / caught panic of the writer is a failure, other writer errors are rejections. Non-trivial = nesting depth >= 2 with a null below the top level, >= 2 pages in some column and at least one non-full read; distinct by (version, nested type skeletons, request kinds, max pages).".into()
    }
    fn assumptions(&self) -> Vec<String> {
        vec![
            "non-nullable fields never contain nulls (the writer rejects them); nulls in struct fields only for versions >= 2.1 (documented)".into(),
            "index lists are sorted without duplicates, range lists sorted and non-overlapping, projections keep file order".into(),
            "fixed size list items are named 'item' and nullable (the logical type string stores nothing else)".into(),
            "a clean Err from Schema conversion / FileWriter::try_new / write_batch / finish is a rejected case (Utf8View/BinaryView, variable packed structs before 2.2, ...)".into(),
            "fsst only on string/binary fields, structural-encoding=miniblock not forced onto >= 32 KiB values, zstd levels <= 5 (cost), dictionary keys in null slots are 0".into(),
            "file version 0.1 is not exercised: the format documentation states it is no longer writable".into(),
        ]
    }
    fn cases(&self, tier: Tier) -> u32 {
        tier.pick(2000, 24000)
    }
    fn strategy(&self, tier: Tier) -> BoxedStrategy<Input> {
        input_s(tier)
    }
    fn max_shrink_iters(&self) -> u32 {
        6000
    }
    fn check(&self, input: &Input, obs: &mut Obs, env: &Env) -> CheckResult {
        if let Ok(dir) = std::env::var("VERIF_C25_TRACE") {
            // debugging aid for hangs: remember the case each worker is working on
            let _ = std::fs::write(format!("{dir}/trace-w{}.json", env.worker), serde_json::to_string(&serde_json::json!({"input": input})).unwrap_or_default());
        }
        obs.label(format!("ver:{}", input.version.name()));
        for f in &input.fields {
            label_types(f, obs, "");
        }
        if input.sliced {
            obs.label("input:sliced");
        }
        // known finding: a timestamp time zone containing ':' makes Field::data_type() panic
        if input.fields.iter().any(has_tz_colon) && env.known("C25-tz-colon") {
            obs.known_hit("C25-tz-colon", "timestamp time zone with ':' (e.g. +02:00): logical type string cannot be parsed back");
            obs.label("known:tz-colon");
            return Ok(());
        }
        // known finding: forcing the full-zip layout onto a boolean column panics (assert in the encoder)
        if input.version != Ver::V2_0 && env.known("C25-fullzip-bool") && input.fields.iter().any(|f| forced(f) == Some("fullzip") && has_leaf(f, &|t| matches!(t, Ty::Bool))) {
            obs.known_hit("C25-fullzip-bool", "structural-encoding=fullzip on a boolean leaf: 'Non-byte aligned full-zip compression not yet supported' assertion");
            obs.label("known:fullzip-bool");
            return Ok(());
        }
        // known finding: a packed struct with a boolean child is written but cannot be read (assert in packed.rs)
        if env.known("C25-packed-struct-bool") && input.fields.iter().any(|f| has_packed_with(f, &|t| matches!(t, Ty::Bool))) {
            obs.known_hit("C25-packed-struct-bool", "packed struct with a Boolean child: reader asserts bits_per_value % 8 == 0");
            obs.label("known:packed-struct-bool");
            return Ok(());
        }
        // known finding (2.0): fsst compression requested on a 64-bit offset string/binary column
        if input.version == Ver::V2_0
            && env.known("C25-v20-fsst-large")
            && input.fields.iter().any(|f| has_leaf_fld(f, &|l| matches!(l.ty, Ty::LargeUtf8 | Ty::LargeBinary) && l.meta.iter().any(|(k, v)| k == "lance-encoding:compression" && v == "fsst")))
        {
            obs.known_hit("C25-v20-fsst-large", "2.0: lance-encoding:compression=fsst on LargeUtf8/LargeBinary: assertion 64 != 32 in previous/encodings/physical/fsst.rs");
            obs.label("known:v20-fsst-large");
            return Ok(());
        }
        // known finding (2.0): fsst compression requested and a page without any value (all null / no items)
        if input.version == Ver::V2_0
            && env.known("C25-v20-fsst-allnull")
            && input.fields.iter().any(|f| has_leaf_fld(f, &|l| is_var_width(&l.ty) && l.meta.iter().any(|(k, v)| k == "lance-encoding:compression" && v == "fsst")))
        {
            obs.known_hit("C25-v20-fsst-allnull", "2.0: lance-encoding:compression=fsst and a page whose values are all null / absent: 'Expected variable width data block' panic");
            obs.label("known:v20-fsst-allnull");
            return Ok(());
        }
        // known finding: nested fixed size list in a full-zip page
        if input.version != Ver::V2_0 && env.known("C25-fullzip-nested-fsl") && input.fields.iter().any(|f| (forced(f) == Some("fullzip") || nested_fsl_bytes(f) >= 256) && nested_fsl_bytes(f) > 0) {
            obs.known_hit("C25-fullzip-nested-fsl", "fixed_size_list<fixed_size_list<T>> encoded with the full-zip layout: assertion in serialize_full_zip_fixed (primitive.rs:3960)");
            obs.label("known:fullzip-nested-fsl");
            return Ok(());
        }
        // known finding (2.0): packed struct below a list, page without items
        if input.version == Ver::V2_0 && env.known("C25-v20-packed-struct-empty") && input.fields.iter().any(|f| packed_under_list(f, false)) {
            obs.known_hit("C25-v20-packed-struct-empty", "2.0: packed struct below a list whose page has no items: previous/encodings/physical/packed_struct.rs:180 unwrap on None");
            obs.label("known:v20-packed-struct-empty");
            return Ok(());
        }
        let prep = prepare(input, env.tier)?;
        // known finding: a packed struct child that is entirely null within a page panics in the writer
        if env.known("C25-packed-struct-allnull-child")
            && (prep.batches.iter().any(|b| input.fields.iter().zip(b.columns()).any(|(f, a)| packed_child(f, a, &|c| c.len() > 0 && (c.null_count() == c.len() || (input.version == Ver::V2_0 && c.null_count() > 0)))))
                || {
                    let mut off = 0;
                    prep.batches.iter().any(|b| {
                        let n = b.num_rows();
                        let hit = input.fields.iter().enumerate().any(|(i, f)| {
                            let vals: Vec<&V> = prep.model[i][off..off + n].iter().collect();
                            packed_child_allnull_model(f, &vals)
                        });
                        off += n;
                        hit
                    })
                })
        {
            obs.known_hit("C25-packed-struct-allnull-child", "packed struct child entirely null in a batch: AllNull data block has no MaxLength statistics (panic)");
            obs.label("known:packed-struct-allnull-child");
            return Ok(());
        }
        // known finding (2.2): a packed struct child with any null panics in the writer (2.1 rejects it cleanly)
        if input.version == Ver::V2_2
            && env.known("C25-packed-struct-null-child-v22")
            && prep.batches.iter().any(|b| input.fields.iter().zip(b.columns()).any(|(f, a)| packed_child(f, a, &|c| c.nulls().is_some())))
        {
            obs.known_hit("C25-packed-struct-null-child-v22", "2.2 packed struct child with nulls: unreachable!(Per-value compression not yet supported for block type: Nullable)");
            obs.label("known:packed-struct-null-child-v22");
            return Ok(());
        }
        // known finding: fixed size list whose items (values or inner lists) are all null within a batch
        if input.version != Ver::V2_0
            && env.known("C25-fsl-inner-allnull")
            && (prep.batches.iter().any(|b| input.fields.iter().zip(b.columns()).any(|(f, a)| fsl_inner_allnull(f, a)))
                || {
                    let mut off = 0;
                    prep.batches.iter().any(|b| {
                        let n = b.num_rows();
                        let hit = input.fields.iter().enumerate().any(|(i, f)| {
                            let vals: Vec<&V> = prep.model[i][off..off + n].iter().collect();
                            fsl_items_allnull_model(f, &vals)
                        });
                        off += n;
                        hit
                    })
                })
        {
            obs.known_hit("C25-fsl-inner-allnull", "fixed size list whose items are all null: zero-width full-zip page (divide by zero on read) or unreachable!() in the mini-block value encoder");
            obs.label("known:fsl-inner-allnull");
            return Ok(());
        }
        // known finding: blob columns with an empty or null value (zero-length, unsorted I/O ranges)
        if env.known("C25-blob-empty-value")
            && input.fields.iter().enumerate().any(|(i, f)| {
                let vals: Vec<&V> = prep.model[i].iter().collect();
                blob_with_empty(f, &vals) || (has_leaf_fld(f, &is_blob_leaf) && prep.model[i].iter().any(has_null_or_empty))
            })
        {
            obs.known_hit("C25-blob-empty-value", "blob column with an empty/null value: following values read back wrong (2.0) or internal error (2.1+)");
            obs.label("known:blob-empty-value");
            return Ok(());
        }
        // known finding (2.2): variable-width packed struct with null struct rows cannot be read back
        if input.version == Ver::V2_2
            && env.known("C25-var-packed-struct-null-v22")
            && input.fields.iter().enumerate().any(|(i, f)| {
                let vals: Vec<&V> = prep.model[i].iter().collect();
                packed_var_null(f, &vals)
            })
        {
            obs.known_hit("C25-var-packed-struct-null-v22", "2.2 packed struct with a variable-width child and null struct rows: 'Packed struct variable child length prefix out of bounds' on read");
            obs.label("known:var-packed-struct-null-v22");
            return Ok(());
        }
        obs.label(format!("rows:{}", match prep.total { 0..=9 => "1-9", 10..=99 => "10-99", 100..=999 => "100-999", _ => "1000+" }));
        let t0 = std::time::Instant::now();
        let r = env.block_on(run(input, &prep, obs, env));
        if let Ok(dir) = std::env::var("VERIF_C25_TRACE") {
            // diagnostics only: keep slow cases
            if t0.elapsed().as_secs_f64() > 3.0 {
                let _ = std::fs::write(format!("{dir}/slow-{}-w{}-{}.json", t0.elapsed().as_secs(), env.worker, env.next_id()), serde_json::to_string(&serde_json::json!({"input": input})).unwrap_or_default());
            }
        }
        r
    }
}

/// debugging aid: print the model of a replay file (used by `VERIF_C25_MODEL=1`)
pub fn dump_model(prep_model: &[Vec<V>]) {
    for (ci, col) in prep_model.iter().enumerate() {
        for (ri, v) in col.iter().enumerate() {
            if !matches!(v, V::Null) {
                eprintln!("col {ci} row {ri}: {}", fmt_v(v));
            }
        }
    }
}

fn fmt_v(v: &V) -> String {
    match v {
        V::Null => "null".into(),
        V::B(b) => format!("{b}"),
        V::I(i) => format!("{i}"),
        V::F(f) => format!("f{f:x}"),
        V::Y(y) => format!("y{}", y.len()),
        V::L(x) => format!("[{}]", x.iter().map(fmt_v).collect::<Vec<_>>().join(", ")),
        V::S(x) => format!("{{{}}}", x.iter().map(fmt_v).collect::<Vec<_>>().join(", ")),
    }
}
