//! C26 — Every compression codec is lossless.
//!
//! One `DataBlock` per case, built exactly like the in-tree primitive encoder does
//! (`DataBlock::from_arrays` on arrow arrays, which also computes the statistics the
//! strategy looks at), pushed through one of the three compression contexts of
//! `DefaultCompressionStrategy` (mini-block, per-value / full-zip, block) or through the
//! dictionary transformation, and decoded again with `DefaultDecompressionStrategy` the
//! way `encodings/logical/primitive.rs` does it (mini-blocks one chunk at a time from the
//! returned buffers + chunk metadata).  The oracle is the *generated* value list (not the
//! DataBlock), compared bit-exactly.

use crate::engine::*;
use crate::{ensure, fail};
use arrow_array::{
    make_array, Array, ArrayRef, BinaryArray, BooleanArray, Decimal128Array, FixedSizeBinaryArray, FixedSizeListArray, LargeBinaryArray,
    StructArray, UInt16Array, UInt32Array, UInt64Array, UInt8Array,
};
use arrow_buffer::{BooleanBuffer, Buffer, NullBuffer, OffsetBuffer, ScalarBuffer};
use arrow_schema::{DataType, Field as ArrowField, Fields};
use lance_core::datatypes::Field;
use lance_encoding::buffer::LanceBuffer;
use lance_encoding::compression::{CompressionStrategy, DecompressionStrategy, DefaultCompressionStrategy, DefaultDecompressionStrategy};
use lance_encoding::data::{BlockInfo, DataBlock, DictionaryDataBlock, FixedWidthDataBlock, VariableWidthBlock};
use lance_encoding::encodings::logical::primitive::dict::dictionary_encode;
use lance_encoding::encodings::logical::primitive::fullzip::PerValueDataBlock;
use lance_encoding::encodings::logical::primitive::miniblock::{MiniBlockCompressed, MAX_MINIBLOCK_BYTES, MAX_MINIBLOCK_VALUES};
use lance_encoding::format::pb21::{compressive_encoding::Compression, CompressiveEncoding};
use lance_encoding::statistics::ComputeStat;
use lance_encoding::version::LanceFileVersion;
use prost::Message;
use proptest::prelude::*;
use serde::{Deserialize, Serialize};
use std::collections::HashMap;
use std::sync::Arc;

pub struct C26;

// ---------------------------------------------------------------------------
// input description (compact: values are expanded by a splitmix generator seeded
// from the strategy, so the replay files stay small and the run is a pure function
// of the generated input)

#[derive(Clone, Debug, Serialize, Deserialize, PartialEq)]
pub enum Ext {
    Zero,
    One,
    Max,
    SignBit,
    SignMinus1,
    MaxMinus1,
    Raw(u64, u64),
}

#[derive(Clone, Debug, Serialize, Deserialize, PartialEq)]
pub enum FSeg {
    /// `len` equal values
    Const { len: u16, v: Ext },
    /// base + (random & mask(bits))
    Rand { len: u16, bits: u8, base: Ext, seed: u64 },
    /// runs of `run` equal values (values random below 2^bits)
    Runs { len: u16, run: u16, bits: u8, seed: u64 },
    /// arithmetic sequence
    Seq { len: u16, start: Ext, step: u32 },
}

#[derive(Clone, Debug, Serialize, Deserialize, PartialEq)]
pub enum Content {
    Byte(u8),
    Random,
    Text,
    Counter,
}

#[derive(Clone, Debug, Serialize, Deserialize, PartialEq)]
pub enum VSeg {
    /// `count` values, each `len` bytes
    Same { count: u16, len: u32, content: Content, seed: u64 },
    /// `count` values, lengths uniform in 0..=max
    RandLen { count: u16, max: u32, content: Content, seed: u64 },
    /// `count` values drawn from `k` distinct strings of `len` bytes
    Dict { count: u16, k: u8, len: u16, seed: u64 },
}

#[derive(Clone, Debug, Serialize, Deserialize, PartialEq)]
pub enum NullPat {
    None,
    Some { seed: u64, pct: u8 },
    All,
}

#[derive(Clone, Debug, Serialize, Deserialize, PartialEq)]
pub enum Shape {
    /// fixed width values: bits = 1 (boolean), 8/16/32/64/128 or another multiple of 8 (FixedSizeBinary)
    Fixed { bits: u16, segs: Vec<FSeg> },
    /// variable width with i32 (large = false) or i64 offsets
    Var { large: bool, segs: Vec<VSeg> },
    /// FixedSizeList<...<leaf>> with 1-2 list levels; `item_nulls` = validity of the leaf items,
    /// `inner_nulls` = validity of the inner lists (only with 2 levels)
    Fsl { bits: u16, dims: Vec<u8>, item_nulls: NullPat, inner_nulls: NullPat, segs: Vec<FSeg> },
    /// packed struct: fixed-width children and (for the per-value context) variable children
    Struct { fixed: Vec<(u16, Vec<FSeg>)>, vars: Vec<(bool, Vec<VSeg>)> },
}

#[derive(Clone, Debug, Serialize, Deserialize, PartialEq, Default)]
pub struct Meta {
    /// index into none / lz4 / zstd / fsst
    pub compression: Option<u8>,
    pub level: Option<i8>,
    /// index into 0.0 / 0.3 / 0.5 / 1.0
    pub rle: Option<u8>,
    /// index into off / on / auto
    pub bss: Option<u8>,
    /// also set the keys the compression strategy does not read (dict-divisor, structural-encoding)
    pub inert: bool,
}

#[derive(Clone, Debug, Serialize, Deserialize, PartialEq)]
pub struct Input {
    pub shape: Shape,
    pub meta: Meta,
    /// picks the context among those the in-tree encoder can reach for the shape
    pub ctx: u16,
    /// file version 2.2 (general compression in the block context, variable packed struct)
    pub v22: bool,
    /// sub-range (start, len fractions) decoded on its own in the per-value context
    pub sub: (u16, u16),
    /// cut points for the chunked block context (levels style)
    pub cuts: Vec<u16>,
}

#[derive(Clone, Copy, Debug, PartialEq, Eq)]
enum Ctx {
    Mini,
    PerValue,
    Block,
    BlockChunked,
    Dict,
}

// ---------------------------------------------------------------------------
// deterministic expansion

#[derive(Clone)]
struct Sm(u64);
impl Sm {
    fn next(&mut self) -> u64 {
        self.0 = self.0.wrapping_add(0x9E37_79B9_7F4A_7C15);
        let mut z = self.0;
        z = (z ^ (z >> 30)).wrapping_mul(0xBF58_476D_1CE4_E5B9);
        z = (z ^ (z >> 27)).wrapping_mul(0x94D0_49BB_1331_11EB);
        z ^ (z >> 31)
    }
    fn next128(&mut self) -> u128 {
        ((self.next() as u128) << 64) | self.next() as u128
    }
    fn below(&mut self, n: u64) -> u64 {
        if n == 0 {
            0
        } else {
            self.next() % n
        }
    }
}

fn mask(bits: u32) -> u128 {
    if bits >= 128 {
        u128::MAX
    } else {
        (1u128 << bits) - 1
    }
}

fn ext(e: &Ext, bits: u32) -> u128 {
    let b = bits.clamp(1, 128);
    let m = mask(b);
    match e {
        Ext::Zero => 0,
        Ext::One => 1 & m,
        Ext::Max => m,
        Ext::SignBit => 1u128 << (b - 1),
        Ext::SignMinus1 => (1u128 << (b - 1)).wrapping_sub(1) & m,
        Ext::MaxMinus1 => m.wrapping_sub(1) & m,
        Ext::Raw(hi, lo) => (((*hi as u128) << 64) | *lo as u128) & m,
    }
}

const MAX_VALUES: usize = 12_000;

fn gen_fixed(bits: u32, segs: &[FSeg]) -> Vec<u128> {
    let m = mask(bits.clamp(1, 128));
    let mut out: Vec<u128> = vec![];
    for s in segs {
        match s {
            FSeg::Const { len, v } => {
                let v = ext(v, bits);
                out.extend(std::iter::repeat(v).take(*len as usize));
            }
            FSeg::Rand { len, bits: b, base, seed } => {
                let base = ext(base, bits);
                let mut r = Sm(*seed);
                let bm = mask((*b as u32).min(128));
                for _ in 0..*len {
                    out.push(base.wrapping_add(r.next128() & bm) & m);
                }
            }
            FSeg::Runs { len, run, bits: b, seed } => {
                let mut r = Sm(*seed);
                let bm = mask((*b as u32).min(128));
                let run = (*run).max(1) as usize;
                let mut left = *len as usize;
                while left > 0 {
                    // jitter the run length a little so that run boundaries drift over chunk boundaries
                    let this = (run + r.below(3) as usize).saturating_sub(1).max(1).min(left);
                    let v = r.next128() & bm & m;
                    out.extend(std::iter::repeat(v).take(this));
                    left -= this;
                }
            }
            FSeg::Seq { len, start, step } => {
                let mut v = ext(start, bits);
                for _ in 0..*len {
                    out.push(v & m);
                    v = v.wrapping_add(*step as u128);
                }
            }
        }
        if out.len() >= MAX_VALUES {
            out.truncate(MAX_VALUES);
            break;
        }
    }
    out
}

const WORDS: [&str; 16] = [
    "the ", "lance", "data", " of ", "and ", "vector", "index", "ing ", "tion", "http://", ".com", "error", "2026-", "value", " is ", "null",
];

fn fill(content: &Content, len: usize, idx: usize, r: &mut Sm) -> Vec<u8> {
    match content {
        Content::Byte(b) => vec![*b; len],
        Content::Random => {
            let mut v = Vec::with_capacity(len + 8);
            while v.len() < len {
                v.extend_from_slice(&r.next().to_le_bytes());
            }
            v.truncate(len);
            v
        }
        Content::Text => {
            let mut v = Vec::with_capacity(len + 8);
            while v.len() < len {
                v.extend_from_slice(WORDS[r.below(16) as usize].as_bytes());
            }
            v.truncate(len);
            v
        }
        Content::Counter => {
            let digits = idx.to_string().into_bytes();
            let mut v = vec![b'0'; len.saturating_sub(digits.len())];
            v.extend_from_slice(&digits);
            v.truncate(len);
            v
        }
    }
}

const MAX_VAR_BYTES: usize = 400 * 1024;

fn gen_var(segs: &[VSeg]) -> Vec<Vec<u8>> {
    let mut out: Vec<Vec<u8>> = vec![];
    let mut total = 0usize;
    'outer: for s in segs {
        match s {
            VSeg::Same { count, len, content, seed } => {
                let mut r = Sm(*seed);
                for _ in 0..*count {
                    let v = fill(content, *len as usize, out.len(), &mut r);
                    total += v.len();
                    out.push(v);
                    if total > MAX_VAR_BYTES || out.len() >= MAX_VALUES {
                        break 'outer;
                    }
                }
            }
            VSeg::RandLen { count, max, content, seed } => {
                let mut r = Sm(*seed);
                for _ in 0..*count {
                    let l = r.below(*max as u64 + 1) as usize;
                    let v = fill(content, l, out.len(), &mut r);
                    total += v.len();
                    out.push(v);
                    if total > MAX_VAR_BYTES || out.len() >= MAX_VALUES {
                        break 'outer;
                    }
                }
            }
            VSeg::Dict { count, k, len, seed } => {
                let mut r = Sm(*seed);
                let k = (*k).max(1) as usize;
                let dict: Vec<Vec<u8>> = (0..k)
                    .map(|i| {
                        let mut v = fill(&Content::Text, *len as usize, i, &mut r);
                        // make the entries distinct
                        if let Some(b) = v.first_mut() {
                            *b = b'A' + (i % 26) as u8;
                        }
                        if v.len() > 1 {
                            v[1] = b'a' + ((i / 26) % 26) as u8;
                        }
                        v
                    })
                    .collect();
                for _ in 0..*count {
                    let v = dict[r.below(k as u64) as usize].clone();
                    total += v.len();
                    out.push(v);
                    if total > MAX_VAR_BYTES || out.len() >= MAX_VALUES {
                        break 'outer;
                    }
                }
            }
        }
    }
    out
}

fn gen_validity(p: &NullPat, n: usize) -> Option<Vec<bool>> {
    match p {
        NullPat::None => None,
        NullPat::All => Some(vec![false; n]),
        NullPat::Some { seed, pct } => {
            let mut r = Sm(*seed);
            Some((0..n).map(|_| r.below(100) >= *pct as u64).collect())
        }
    }
}

// ---------------------------------------------------------------------------
// canonical (logical) form of a block, used by the oracle

#[derive(Clone, Debug, PartialEq)]
enum Canon {
    /// bits == 1: one byte (0/1) per value; otherwise n * bits/8 bytes
    Fixed { bits: u64, n: u64, data: Vec<u8> },
    /// offsets normalised to start at 0, data trimmed
    Var { offsets: Vec<u64>, data: Vec<u8> },
    Fsl { dim: u64, child: Box<Canon> },
    Nullable { validity: Vec<bool>, child: Box<Canon> },
    AllNull { n: u64 },
    Struct { children: Vec<Canon> },
}

impl Canon {
    fn n(&self) -> u64 {
        match self {
            Canon::Fixed { n, .. } => *n,
            Canon::Var { offsets, .. } => offsets.len() as u64 - 1,
            Canon::Fsl { dim, child } => child.n() / dim,
            Canon::Nullable { validity, .. } => validity.len() as u64,
            Canon::AllNull { n } => *n,
            Canon::Struct { children } => children.first().map(|c| c.n()).unwrap_or(0),
        }
    }
    fn slice(&self, start: u64, len: u64) -> Canon {
        match self {
            Canon::Fixed { bits, data, .. } => {
                let bpv = if *bits == 1 { 1 } else { (*bits / 8) as usize };
                Canon::Fixed { bits: *bits, n: len, data: data[start as usize * bpv..(start + len) as usize * bpv].to_vec() }
            }
            Canon::Var { offsets, data } => {
                let o = &offsets[start as usize..=(start + len) as usize];
                let base = o[0];
                Canon::Var { offsets: o.iter().map(|x| x - base).collect(), data: data[base as usize..*o.last().unwrap() as usize].to_vec() }
            }
            Canon::Fsl { dim, child } => Canon::Fsl { dim: *dim, child: Box::new(child.slice(start * dim, len * dim)) },
            Canon::Nullable { validity, child } => {
                Canon::Nullable { validity: validity[start as usize..(start + len) as usize].to_vec(), child: Box::new(child.slice(start, len)) }
            }
            Canon::AllNull { .. } => Canon::AllNull { n: len },
            Canon::Struct { children } => Canon::Struct { children: children.iter().map(|c| c.slice(start, len)).collect() },
        }
    }
    fn brief(&self) -> String {
        match self {
            Canon::Fixed { bits, n, data } => format!("Fixed{{bits:{bits},n:{n},data:{}}}", hex(data)),
            Canon::Var { offsets, data } => format!("Var{{offsets:{},data:{}}}", trunc_u64(offsets), hex(data)),
            Canon::Fsl { dim, child } => format!("Fsl{{dim:{dim},{}}}", child.brief()),
            Canon::Nullable { validity, child } => {
                format!("Nullable{{validity:{}…(len {}),{}}}", validity.iter().take(40).map(|b| if *b { '1' } else { '0' }).collect::<String>(), validity.len(), child.brief())
            }
            Canon::AllNull { n } => format!("AllNull{{n:{n}}}"),
            Canon::Struct { children } => format!("Struct[{}]", children.iter().map(|c| c.brief()).collect::<Vec<_>>().join(", ")),
        }
    }
}

fn hex(d: &[u8]) -> String {
    let s: String = d.iter().take(48).map(|b| format!("{b:02x}")).collect();
    if d.len() > 48 {
        format!("{s}…(len {})", d.len())
    } else {
        s
    }
}

fn trunc_u64(v: &[u64]) -> String {
    if v.len() <= 24 {
        format!("{v:?}")
    } else {
        format!("{:?}…(len {})", &v[..24], v.len())
    }
}

/// where two canonical forms differ (None = equal).  `FSL(dim, AllNull)` and `AllNull` are the same
/// logical content (the value encoder describes such a list as `constant(None)`).
fn canon_diff(exp: &Canon, got: &Canon) -> Option<String> {
    match (exp, got) {
        (Canon::Fixed { bits: b1, n: n1, data: d1 }, Canon::Fixed { bits: b2, n: n2, data: d2 }) => {
            if b1 != b2 {
                return Some(format!("bits per value {b1} vs {b2}"));
            }
            if n1 != n2 {
                return Some(format!("num values {n1} vs {n2}"));
            }
            if d1 != d2 {
                let bpv = if *b1 == 1 { 1 } else { (*b1 / 8) as usize };
                let pos = d1.iter().zip(d2.iter()).position(|(a, b)| a != b).unwrap_or(d1.len().min(d2.len()));
                let vi = pos / bpv.max(1);
                let lo = vi * bpv;
                return Some(format!(
                    "value #{vi} of {n1}: expected {} got {}",
                    hex(&d1[lo..(lo + bpv).min(d1.len())]),
                    hex(&d2[lo.min(d2.len())..(lo + bpv).min(d2.len())])
                ));
            }
            None
        }
        (Canon::Var { offsets: o1, data: d1 }, Canon::Var { offsets: o2, data: d2 }) => {
            if o1.len() != o2.len() {
                return Some(format!("num values {} vs {}", o1.len() - 1, o2.len() - 1));
            }
            for i in 0..o1.len() - 1 {
                let a = &d1[o1[i] as usize..o1[i + 1] as usize];
                let b = &d2[o2[i] as usize..o2[i + 1] as usize];
                if a != b {
                    return Some(format!("value #{i} of {}: expected len {} {} got len {} {}", o1.len() - 1, a.len(), hex(a), b.len(), hex(b)));
                }
            }
            None
        }
        (Canon::Fsl { dim: d1, child: c1 }, Canon::Fsl { dim: d2, child: c2 }) => {
            if d1 != d2 {
                return Some(format!("fsl dimension {d1} vs {d2}"));
            }
            canon_diff(c1, c2).map(|s| format!("fsl child: {s}"))
        }
        (Canon::Fsl { dim, child }, Canon::AllNull { n }) => match child.as_ref() {
            Canon::AllNull { n: cn } if *cn == n * dim => None,
            _ => Some(format!("expected {} got AllNull({n})", exp.brief())),
        },
        (Canon::Nullable { validity: v1, child: c1 }, Canon::Nullable { validity: v2, child: c2 }) => {
            if v1 != v2 {
                let pos = v1.iter().zip(v2.iter()).position(|(a, b)| a != b);
                return Some(format!("validity differs (len {} vs {}, first difference at {pos:?})", v1.len(), v2.len()));
            }
            canon_diff(c1, c2).map(|s| format!("under validity: {s}"))
        }
        (Canon::AllNull { n: n1 }, Canon::AllNull { n: n2 }) => {
            if n1 == n2 {
                None
            } else {
                Some(format!("AllNull {n1} vs {n2}"))
            }
        }
        (Canon::Struct { children: c1 }, Canon::Struct { children: c2 }) => {
            if c1.len() != c2.len() {
                return Some(format!("struct children {} vs {}", c1.len(), c2.len()));
            }
            for (i, (a, b)) in c1.iter().zip(c2.iter()).enumerate() {
                if let Some(s) = canon_diff(a, b) {
                    return Some(format!("struct child {i}: {s}"));
                }
            }
            None
        }
        _ => Some(format!("block kinds differ: expected {} got {}", exp.brief(), got.brief())),
    }
}

fn bits_of(buf: &[u8], n: usize) -> Result<Vec<bool>, String> {
    if buf.len() * 8 < n {
        return Err(format!("bitmap of {} bytes for {n} values", buf.len()));
    }
    Ok((0..n).map(|i| buf[i / 8] >> (i % 8) & 1 == 1).collect())
}

/// canonical form of a block lance handed back
fn canon(block: &DataBlock) -> Result<Canon, String> {
    match block {
        DataBlock::FixedWidth(f) => {
            let n = f.num_values as usize;
            if f.bits_per_value == 1 {
                let bits = bits_of(&f.data, n)?;
                return Ok(Canon::Fixed { bits: 1, n: n as u64, data: bits.into_iter().map(|b| b as u8).collect() });
            }
            if f.bits_per_value % 8 != 0 {
                return Err(format!("fixed width block with {} bits per value", f.bits_per_value));
            }
            let need = n * (f.bits_per_value / 8) as usize;
            if f.data.len() < need {
                return Err(format!("fixed width block: {} bytes for {n} values of {} bits", f.data.len(), f.bits_per_value));
            }
            Ok(Canon::Fixed { bits: f.bits_per_value, n: n as u64, data: f.data[..need].to_vec() })
        }
        DataBlock::VariableWidth(v) => {
            let n = v.num_values as usize;
            let offs: Vec<u64> = match v.bits_per_offset {
                32 => {
                    if v.offsets.len() < (n + 1) * 4 {
                        return Err(format!("variable block: {} offset bytes for {n} values", v.offsets.len()));
                    }
                    v.offsets[..(n + 1) * 4].chunks_exact(4).map(|c| u32::from_le_bytes(c.try_into().unwrap()) as u64).collect()
                }
                64 => {
                    if v.offsets.len() < (n + 1) * 8 {
                        return Err(format!("variable block: {} offset bytes for {n} values", v.offsets.len()));
                    }
                    v.offsets[..(n + 1) * 8].chunks_exact(8).map(|c| u64::from_le_bytes(c.try_into().unwrap())).collect()
                }
                b => return Err(format!("variable block with {b} bits per offset")),
            };
            if offs.windows(2).any(|w| w[1] < w[0]) {
                return Err(format!("variable block: offsets not monotone: {}", trunc_u64(&offs)));
            }
            if *offs.last().unwrap() as usize > v.data.len() {
                return Err(format!("variable block: last offset {} beyond data of {} bytes", offs.last().unwrap(), v.data.len()));
            }
            let base = offs[0];
            Ok(Canon::Var { offsets: offs.iter().map(|o| o - base).collect(), data: v.data[base as usize..*offs.last().unwrap() as usize].to_vec() })
        }
        DataBlock::FixedSizeList(f) => Ok(Canon::Fsl { dim: f.dimension, child: Box::new(canon(&f.child)?) }),
        DataBlock::Nullable(nb) => {
            let child = canon(&nb.data)?;
            let n = child.n() as usize;
            Ok(Canon::Nullable { validity: bits_of(&nb.nulls, n)?, child: Box::new(child) })
        }
        DataBlock::AllNull(a) => Ok(Canon::AllNull { n: a.num_values }),
        DataBlock::Struct(s) => {
            if s.validity.is_some() {
                return Err("struct block with validity".into());
            }
            Ok(Canon::Struct { children: s.children.iter().map(canon).collect::<Result<Vec<_>, _>>()? })
        }
        other => Err(format!("unexpected block kind {}", other.name())),
    }
}

// ---------------------------------------------------------------------------
// building the arrow arrays, the block and the expected canonical form

fn value_bytes(v: u128, nbytes: usize, out: &mut Vec<u8>) {
    let b = v.to_le_bytes();
    for i in 0..nbytes {
        out.push(b[i % 16] ^ ((i / 16) as u8).wrapping_mul(0x35));
    }
}

fn leaf_type(bits: u32) -> DataType {
    match bits {
        1 => DataType::Boolean,
        8 => DataType::UInt8,
        16 => DataType::UInt16,
        32 => DataType::UInt32,
        64 => DataType::UInt64,
        128 => DataType::Decimal128(38, 0),
        b => DataType::FixedSizeBinary((b / 8) as i32),
    }
}

fn leaf_array(bits: u32, vals: &[u128]) -> ArrayRef {
    match bits {
        1 => Arc::new(BooleanArray::from(vals.iter().map(|v| v & 1 == 1).collect::<Vec<bool>>())),
        8 => Arc::new(UInt8Array::from(vals.iter().map(|v| *v as u8).collect::<Vec<_>>())),
        16 => Arc::new(UInt16Array::from(vals.iter().map(|v| *v as u16).collect::<Vec<_>>())),
        32 => Arc::new(UInt32Array::from(vals.iter().map(|v| *v as u32).collect::<Vec<_>>())),
        64 => Arc::new(UInt64Array::from(vals.iter().map(|v| *v as u64).collect::<Vec<_>>())),
        128 => Arc::new(Decimal128Array::from(vals.iter().map(|v| *v as i128).collect::<Vec<_>>()).with_precision_and_scale(38, 0).unwrap()),
        b => {
            let nb = (b / 8) as usize;
            let mut data = Vec::with_capacity(nb * vals.len());
            for v in vals {
                value_bytes(*v, nb, &mut data);
            }
            Arc::new(FixedSizeBinaryArray::new(nb as i32, Buffer::from_vec(data), None))
        }
    }
}

fn leaf_canon(bits: u32, vals: &[u128]) -> Canon {
    let mut data = vec![];
    match bits {
        1 => data.extend(vals.iter().map(|v| (v & 1) as u8)),
        b => {
            let nb = (b / 8) as usize;
            for v in vals {
                if nb <= 16 {
                    data.extend_from_slice(&v.to_le_bytes()[..nb]);
                } else {
                    value_bytes(*v, nb, &mut data);
                }
            }
        }
    }
    Canon::Fixed { bits: bits as u64, n: vals.len() as u64, data }
}

fn with_nulls(arr: ArrayRef, validity: &Option<Vec<bool>>) -> ArrayRef {
    match validity {
        None => arr,
        Some(v) => {
            let nb = NullBuffer::new(BooleanBuffer::from(v.clone()));
            make_array(arr.to_data().into_builder().nulls(Some(nb)).build().unwrap())
        }
    }
}

/// mirror of what `DataBlock::from_arrays` documents for validity: none -> plain, all null -> AllNull,
/// otherwise Nullable
fn nullable_canon(c: Canon, validity: &Option<Vec<bool>>) -> Canon {
    match validity {
        None => c,
        Some(v) if !v.is_empty() && v.iter().all(|b| !*b) => Canon::AllNull { n: v.len() as u64 },
        // arrow drops a validity buffer without nulls when the array data is built
        Some(v) if v.iter().all(|b| *b) => c,
        Some(v) => Canon::Nullable { validity: v.clone(), child: Box::new(c) },
    }
}

fn var_array(large: bool, vals: &[Vec<u8>]) -> ArrayRef {
    let mut data = vec![];
    if large {
        let mut offs: Vec<i64> = vec![0];
        for v in vals {
            data.extend_from_slice(v);
            offs.push(data.len() as i64);
        }
        Arc::new(LargeBinaryArray::new(OffsetBuffer::new(ScalarBuffer::from(offs)), Buffer::from_vec(data), None))
    } else {
        let mut offs: Vec<i32> = vec![0];
        for v in vals {
            data.extend_from_slice(v);
            offs.push(data.len() as i32);
        }
        Arc::new(BinaryArray::new(OffsetBuffer::new(ScalarBuffer::from(offs)), Buffer::from_vec(data), None))
    }
}

fn var_canon(vals: &[Vec<u8>]) -> Canon {
    let mut data = vec![];
    let mut offsets = vec![0u64];
    for v in vals {
        data.extend_from_slice(v);
        offsets.push(data.len() as u64);
    }
    Canon::Var { offsets, data }
}

struct Built {
    array: ArrayRef,
    dtype: DataType,
    expected: Canon,
    n: u64,
    /// largest value in bytes (`Stat::MaxLength` of the in-tree narrow test)
    max_len: u64,
    class: String,
    packed: bool,
}

fn build(shape: &Shape) -> Option<Built> {
    match shape {
        Shape::Fixed { bits, segs } => {
            let bits = *bits as u32;
            let vals = gen_fixed(bits, segs);
            if vals.is_empty() {
                return None;
            }
            Some(Built {
                array: leaf_array(bits, &vals),
                dtype: leaf_type(bits),
                expected: leaf_canon(bits, &vals),
                n: vals.len() as u64,
                max_len: (bits / 8) as u64,
                class: format!("fixed{bits}"),
                packed: false,
            })
        }
        Shape::Var { large, segs } => {
            let vals = gen_var(segs);
            if vals.is_empty() {
                return None;
            }
            Some(Built {
                array: var_array(*large, &vals),
                dtype: if *large { DataType::LargeBinary } else { DataType::Binary },
                expected: var_canon(&vals),
                n: vals.len() as u64,
                max_len: vals.iter().map(|v| v.len()).max().unwrap_or(0) as u64,
                class: format!("var{}", if *large { 64 } else { 32 }),
                packed: false,
            })
        }
        Shape::Fsl { bits, dims, item_nulls, inner_nulls, segs } => {
            let bits = *bits as u32;
            let dims: Vec<usize> = dims.iter().take(2).map(|d| (*d).max(1) as usize).collect();
            if dims.is_empty() {
                return None;
            }
            let per_row: usize = dims.iter().product();
            let mut vals = gen_fixed(bits, segs);
            let rows = vals.len() / per_row;
            if rows == 0 {
                return None;
            }
            vals.truncate(rows * per_row);
            // leaf
            let item_validity = gen_validity(item_nulls, vals.len());
            let mut arr = with_nulls(leaf_array(bits, &vals), &item_validity);
            let mut exp = nullable_canon(leaf_canon(bits, &vals), &item_validity);
            let mut dt = leaf_type(bits);
            // innermost list first
            for (lvl, dim) in dims.iter().enumerate().rev() {
                let count = arr.len() / dim;
                let f = Arc::new(ArrowField::new("item", dt.clone(), true));
                dt = DataType::FixedSizeList(f.clone(), *dim as i32);
                let mut a: ArrayRef = Arc::new(FixedSizeListArray::new(f, *dim as i32, arr, None));
                exp = Canon::Fsl { dim: *dim as u64, child: Box::new(exp) };
                if lvl == 1 {
                    // validity of the inner lists
                    let v = gen_validity(inner_nulls, count);
                    a = with_nulls(a, &v);
                    exp = nullable_canon(exp, &v);
                }
                arr = a;
            }
            let max_len = (bits as u64 / 8).max(if bits == 1 { 0 } else { 1 }) * per_row as u64;
            Some(Built {
                array: arr,
                dtype: dt,
                expected: exp,
                n: rows as u64,
                max_len,
                class: format!("fsl{}x{}", dims.len(), bits),
                packed: false,
            })
        }
        Shape::Struct { fixed, vars } => {
            let fvals: Vec<(u32, Vec<u128>)> = fixed.iter().map(|(b, s)| (*b as u32, gen_fixed(*b as u32, s))).collect();
            let vvals: Vec<(bool, Vec<Vec<u8>>)> = vars.iter().map(|(l, s)| (*l, gen_var(s))).collect();
            let rows = fvals.iter().map(|(_, v)| v.len()).chain(vvals.iter().map(|(_, v)| v.len())).min()?;
            if rows == 0 {
                return None;
            }
            let mut fields = vec![];
            let mut arrays: Vec<ArrayRef> = vec![];
            let mut children = vec![];
            let mut max_len = 0u64;
            for (i, (b, v)) in fvals.iter().enumerate() {
                fields.push(ArrowField::new(format!("f{i}"), leaf_type(*b), false));
                arrays.push(leaf_array(*b, &v[..rows]));
                children.push(leaf_canon(*b, &v[..rows]));
                max_len += (*b / 8) as u64;
            }
            for (i, (l, v)) in vvals.iter().enumerate() {
                fields.push(ArrowField::new(format!("v{i}"), if *l { DataType::LargeBinary } else { DataType::Binary }, false));
                arrays.push(var_array(*l, &v[..rows]));
                children.push(var_canon(&v[..rows]));
                max_len += v[..rows].iter().map(|x| x.len()).max().unwrap_or(0) as u64;
            }
            let fields = Fields::from(fields);
            let arr = StructArray::new(fields.clone(), arrays, None);
            Some(Built {
                array: Arc::new(arr),
                dtype: DataType::Struct(fields),
                expected: Canon::Struct { children },
                n: rows as u64,
                max_len,
                class: format!("struct{}f{}v", fvals.len(), vvals.len()),
                packed: true,
            })
        }
    }
}

const COMPRESSIONS: [&str; 4] = ["none", "lz4", "zstd", "fsst"];
const RLE_THRESHOLDS: [&str; 4] = ["0.0", "0.3", "0.5", "1.0"];
const BSS_MODES: [&str; 3] = ["off", "on", "auto"];

fn metadata(meta: &Meta, packed: bool, ctx: Ctx) -> HashMap<String, String> {
    let mut m = HashMap::new();
    if let Some(c) = meta.compression {
        m.insert("lance-encoding:compression".to_string(), COMPRESSIONS[c as usize % 4].to_string());
    }
    if let Some(l) = meta.level {
        m.insert("lance-encoding:compression-level".to_string(), l.to_string());
    }
    if let Some(r) = meta.rle {
        m.insert("lance-encoding:rle-threshold".to_string(), RLE_THRESHOLDS[r as usize % 4].to_string());
    }
    if let Some(b) = meta.bss {
        m.insert("lance-encoding:bss".to_string(), BSS_MODES[b as usize % 3].to_string());
    }
    if packed {
        m.insert("lance-encoding:packed".to_string(), "true".to_string());
    }
    if meta.inert {
        m.insert("lance-encoding:dict-divisor".to_string(), "2".to_string());
        m.insert(
            "lance-encoding:structural-encoding".to_string(),
            match ctx {
                Ctx::PerValue => "fullzip".to_string(),
                _ => "miniblock".to_string(),
            },
        );
    }
    m
}

// ---------------------------------------------------------------------------
// description of the selected codec

fn sub(e: &Option<Box<CompressiveEncoding>>) -> String {
    e.as_deref().map(describe).unwrap_or_else(|| "?".into())
}

fn describe(e: &CompressiveEncoding) -> String {
    match e.compression.as_ref() {
        None => "unset".into(),
        Some(c) => match c {
            Compression::Flat(f) => format!("flat{}", f.bits_per_value),
            Compression::Variable(v) => format!("variable({})", sub(&v.offsets)),
            Compression::Constant(_) => "constant".into(),
            Compression::OutOfLineBitpacking(o) => format!("oolbitpack{}({})", o.uncompressed_bits_per_value, sub(&o.values)),
            Compression::InlineBitpacking(i) => format!("inlbitpack{}", i.uncompressed_bits_per_value),
            Compression::Fsst(f) => format!("fsst({})", sub(&f.values)),
            Compression::Dictionary(_) => "dictionary".into(),
            Compression::Rle(r) => format!("rle({},{})", sub(&r.values), sub(&r.run_lengths)),
            Compression::ByteStreamSplit(b) => format!("bss({})", sub(&b.values)),
            Compression::General(g) => {
                let scheme = g.compression.as_ref().map(|c| c.scheme).unwrap_or(0);
                format!("general[{}]({})", match scheme { 1 => "lz4", 2 => "zstd", _ => "?" }, sub(&g.values))
            }
            Compression::FixedSizeList(f) => format!("fsl{}{}({})", f.items_per_value, if f.has_validity { "v" } else { "" }, sub(&f.values)),
            Compression::PackedStruct(p) => format!("packed{:?}({})", p.bits_per_value, sub(&p.values)),
            Compression::VariablePackedStruct(v) => {
                format!("vpacked[{}]", v.fields.iter().map(|f| f.value.as_ref().map(describe).unwrap_or_else(|| "?".into())).collect::<Vec<_>>().join(","))
            }
        },
    }
}

/// codec class = description without numbers
fn codec_class(desc: &str) -> String {
    let mut s: String = desc.chars().filter(|c| !c.is_ascii_digit()).collect();
    while s.contains(", ,") || s.contains("[, ") {
        s = s.replace(", ,", ",").replace("[, ", "[");
    }
    s
}

fn is_trivial_codec(desc: &str) -> bool {
    // flat / variable(flat) / fsl without validity of flat
    let c = codec_class(desc);
    c == "flat" || c == "variable(flat)" || c == "fsl(flat)" || c == "fsl(fsl(flat))"
}

fn bucket(n: u64) -> &'static str {
    match n {
        0 => "0",
        1 => "1",
        2 => "2",
        3..=4 => "3-4",
        5..=8 => "5-8",
        9..=16 => "9-16",
        _ => "17+",
    }
}

// ---------------------------------------------------------------------------
// helpers for the decode side

/// Lay the buffers of one chunk out the way `serialize_miniblocks` does (a header word, then each
/// buffer padded to 8 bytes) and hand back slices of that allocation, so that the decompressors see
/// 8-byte aligned (not better) slices of a larger buffer exactly like the mini-block reader's.
fn as_page_slices(bufs: &[&[u8]]) -> Vec<LanceBuffer> {
    let total: usize = 8 + bufs.iter().map(|b| b.len().div_ceil(8) * 8).sum::<usize>();
    let words = total.div_ceil(16) + 1;
    let backing: Vec<i128> = vec![0x4848_4848_4848_4848_4848_4848_4848_4848u128 as i128; words];
    let mut bytes: Vec<u8> = Vec::with_capacity(words * 16);
    for w in &backing {
        bytes.extend_from_slice(&w.to_le_bytes());
    }
    let mut pos = 8;
    let mut ranges = vec![];
    for b in bufs {
        bytes[pos..pos + b.len()].copy_from_slice(b);
        ranges.push((pos, b.len()));
        pos += b.len().div_ceil(8) * 8;
    }
    // a Vec<i128> backing gives a 16-byte aligned base, so slices starting at 8 are 8-aligned only
    let mut typed: Vec<i128> = Vec::with_capacity(words);
    for c in bytes.chunks_exact(16) {
        typed.push(i128::from_le_bytes(c.try_into().unwrap()));
    }
    let whole = LanceBuffer::reinterpret_vec(typed);
    ranges.into_iter().map(|(o, l)| whole.slice_with_length(o, l)).collect()
}

fn proto_round_trip(enc: &CompressiveEncoding) -> Result<CompressiveEncoding, Failure> {
    let bytes = enc.encode_to_vec();
    match CompressiveEncoding::decode(bytes.as_slice()) {
        Ok(e) => {
            if &e != enc {
                return Err(Failure::new("encoding-proto-roundtrip", "the encoding description changed through protobuf"));
            }
            Ok(e)
        }
        Err(e) => Err(Failure::new("encoding-proto-roundtrip", format!("cannot decode the description: {e}"))),
    }
}

macro_rules! lance {
    ($e:expr, $kind:expr, $what:expr) => {
        match $e {
            Ok(v) => v,
            Err(e) => fail!($kind, "{}: {}", $what, e),
        }
    };
}

struct Case<'a> {
    built: &'a Built,
    field: Field,
    strategy: DefaultCompressionStrategy,
    obs: &'a mut Obs,
    env: &'a Env,
    desc: String,
    chunks: u64,
    v22: bool,
}

/// what a user sees: write the same column into a 2.1 file on an in-memory store and read it back
fn file_write_symptom(case: &Case, force_structural: Option<&str>) -> String {
    use futures::TryStreamExt;
    use lance_core::cache::LanceCache;
    use lance_core::datatypes::Schema as LSchema;
    use lance_encoding::decoder::{DecoderPlugins, FilterExpression};
    use lance_file::reader::{FileReader, FileReaderOptions};
    use lance_file::writer::{FileWriter, FileWriterOptions};
    use lance_io::object_store::ObjectStore as LanceObjectStore;
    use lance_io::scheduler::{ScanScheduler, SchedulerConfig};
    use lance_io::utils::CachedFileSize;
    let mut md = case.field.metadata.clone();
    if let Some(f) = force_structural {
        md.insert("lance-encoding:structural-encoding".to_string(), f.to_string());
    }
    let afield = ArrowField::new("c", case.built.dtype.clone(), true).with_metadata(md);
    let aschema = Arc::new(arrow_schema::Schema::new(vec![afield]));
    let array = case.built.array.clone();
    let os = Arc::new(LanceObjectStore::memory());
    let path = object_store::path::Path::from("c26/f.lance");
    let version = if case.v22 { LanceFileVersion::V2_2 } else { LanceFileVersion::V2_1 };
    let w = std::panic::catch_unwind(std::panic::AssertUnwindSafe(|| {
        case.env.block_on(async {
            let lschema = LSchema::try_from(aschema.as_ref()).map_err(|e| format!("schema: {e}"))?;
            let ow = os.create(&path).await.map_err(|e| format!("create: {e}"))?;
            let opts = FileWriterOptions { format_version: Some(version), ..Default::default() };
            let mut w = FileWriter::try_new(ow, lschema, opts).map_err(|e| format!("FileWriter::try_new: {e}"))?;
            let rb = arrow_array::RecordBatch::try_new(aschema.clone(), vec![array]).map_err(|e| format!("batch: {e}"))?;
            w.write_batch(&rb).await.map_err(|e| format!("write_batch: {e}"))?;
            w.finish().await.map_err(|e| format!("finish: {e}"))?;
            Ok::<(), String>(())
        })
    }));
    match w {
        Ok(Ok(())) => {}
        Ok(Err(e)) => return format!("writing the same column to a {version} file fails: {}", truncate_str(&e, 400)),
        Err(_) => return format!("writing the same column to a {version} file panics"),
    }
    let r = std::panic::catch_unwind(std::panic::AssertUnwindSafe(|| {
        case.env.block_on(async {
            let sched = ScanScheduler::new(os.clone(), SchedulerConfig::default_for_testing());
            let cache = LanceCache::with_capacity(8 * 1024 * 1024);
            let fs = sched.open_file(&path, &CachedFileSize::unknown()).await.map_err(|e| format!("open_file: {e}"))?;
            let reader = FileReader::try_open(fs, None, Arc::<DecoderPlugins>::default(), &cache, FileReaderOptions::default()).await.map_err(|e| format!("try_open: {e}"))?;
            let stream = reader.read_stream(lance_io::ReadBatchParams::RangeFull, 1024, 4, FilterExpression::no_filter()).map_err(|e| format!("read_stream: {e}"))?;
            let batches: Vec<arrow_array::RecordBatch> = stream.try_collect().await.map_err(|e| format!("read: {e}"))?;
            Ok::<usize, String>(batches.iter().map(|b| b.num_rows()).sum())
        })
    }));
    match r {
        Ok(Ok(n)) => format!("writing the same column to a {version} file and reading it back succeeds ({n} rows)"),
        Ok(Err(e)) => format!("the same column is written to a {version} file but reading it back fails: {}", truncate_str(&e, 400)),
        Err(_) => format!("the same column is written to a {version} file but reading it back panics"),
    }
}

/// the rules every mini-block chunk list has to obey (miniblock.rs doc comments, format docs);
/// returns the number of values per chunk
fn check_chunk_rules(c: &MiniBlockCompressed, n: u64, who: &str, case: &mut Case) -> Result<Vec<u64>, Failure> {
    ensure!(c.num_values == n, "miniblock-num-values", "{who}: compressed.num_values = {} for a block of {n} values", c.num_values);
    ensure!(!c.chunks.is_empty(), "miniblock-no-chunks", "{who}: no chunks for {n} values");
    let mut seen = 0u64;
    let mut per_chunk = vec![];
    let last = c.chunks.len() - 1;
    let mut consumed = vec![0usize; c.data.len()];
    for (i, ch) in c.chunks.iter().enumerate() {
        ensure!(
            ch.buffer_sizes.len() == c.data.len(),
            "chunk-buffer-count",
            "{who}: chunk {i} lists {} buffer sizes but there are {} buffers",
            ch.buffer_sizes.len(),
            c.data.len()
        );
        ensure!(ch.log_num_values <= 12, "chunk-log-num-values", "{who}: chunk {i} has log_num_values {}", ch.log_num_values);
        let vals = if i < last {
            // the reader takes 1 << log for every chunk but the last and asserts log > 0
            ensure!(ch.log_num_values > 0, "chunk-nonlast-log0", "{who}: chunk {i} of {} is not the last but has log_num_values 0", c.chunks.len());
            1u64 << ch.log_num_values
        } else {
            ensure!(seen < n, "chunk-empty", "{who}: last chunk {i} would hold no values ({seen} of {n} already placed)");
            let rest = n - seen;
            ensure!(
                ch.log_num_values == 0 || (1u64 << ch.log_num_values) == rest,
                "chunk-last-count",
                "{who}: last chunk says 2^{} values but {rest} remain",
                ch.log_num_values
            );
            rest
        };
        ensure!(vals <= MAX_MINIBLOCK_VALUES, "chunk-too-many-values", "{who}: chunk {i} holds {vals} values");
        seen += vals;
        ensure!(seen <= n, "chunk-values-sum", "{who}: chunks up to {i} hold {seen} values, the block has {n}");
        let bytes: u64 = ch.buffer_sizes.iter().map(|b| *b as u64).sum();
        for (bi, sz) in ch.buffer_sizes.iter().enumerate() {
            consumed[bi] += *sz as usize;
            ensure!(
                consumed[bi] <= c.data[bi].len(),
                "chunk-buffer-overrun",
                "{who}: chunk {i} buffer {bi}: sizes so far sum to {} but the buffer has {} bytes",
                consumed[bi],
                c.data[bi].len()
            );
        }
        if bytes > MAX_MINIBLOCK_BYTES {
            let detail = format!("{who}: chunk {i} of {} ({vals} values, codec {}) has buffers {:?} = {bytes} bytes > MAX_MINIBLOCK_BYTES = {MAX_MINIBLOCK_BYTES}", c.chunks.len(), case.desc, ch.buffer_sizes);
            // the page writer's hard limit: header + every buffer padded to 8 bytes must fit 32 KiB
            // together with (worst case) 2 bytes of rep and 2 bytes of def per value
            let padded: u64 = 8 + ch.buffer_sizes.iter().map(|b| (*b as u64).div_ceil(8) * 8).sum::<u64>() + 2 * ((vals * 2).div_ceil(8) * 8);
            let bare: u64 = 8 + ch.buffer_sizes.iter().map(|b| (*b as u64).div_ceil(8) * 8).sum::<u64>();
            if padded > 32 * 1024 {
                let id = if case.desc.contains("variable") { "C26-binary-chunk-over-page-limit" } else { "C26-chunk-over-page-limit-other" };
                if case.env.known(id) {
                    case.obs.known_hit(id, detail);
                    // such a chunk cannot be stored (and u16 size fields downstream wrap): nothing more to check
                    return Ok(vec![]);
                }
                let symptom = if bare > 32 * 1024 && who.starts_with("mini-block") { file_write_symptom(case, None) } else { String::new() };
                fail!(
                    "chunk-bytes-over-page-limit",
                    "{detail}; the serialized chunk needs {bare} bytes without and {padded} bytes with worst-case rep/def levels, the page format allows 32 KiB (serialize_miniblocks asserts). {symptom}"
                );
            }
            let id = over_limit_finding(&case.desc);
            if case.env.known(id) {
                case.obs.known_hit(id, detail);
            } else {
                fail!("chunk-bytes-over-max", "{detail}");
            }
        }
        per_chunk.push(vals);
    }
    ensure!(seen == n, "chunk-values-sum", "{who}: chunks hold {seen} values, the block has {n}");
    for (bi, used) in consumed.iter().enumerate() {
        if *used != c.data[bi].len() {
            // the page writer cuts the buffers by these sizes: bytes they do not cover are lost (a chunk of
            // more than 65535 bytes wraps its u16 size)
            let detail = format!(
                "{who}: the chunk sizes of buffer {bi} sum to {used} bytes but the buffer holds {} (codec {}, {} chunks, sizes of the first chunks {:?})",
                c.data[bi].len(),
                case.desc,
                c.chunks.len(),
                c.chunks.iter().take(4).map(|ch| ch.buffer_sizes.clone()).collect::<Vec<_>>()
            );
            let id = "C26-binary-chunk-over-page-limit";
            if case.desc.contains("variable") && case.env.known(id) {
                case.obs.known_hit(id, detail);
                return Ok(vec![]);
            }
            fail!("chunk-buffer-size-mismatch", "{detail}");
        }
    }
    Ok(per_chunk)
}

/// which known finding an over-the-limit chunk belongs to (by the codec that produced it)
fn over_limit_finding(desc: &str) -> &'static str {
    if desc.contains("inlbitpack") {
        "C26-bitpack64-chunk-over-limit"
    } else if desc.contains("variable") {
        "C26-binary-chunk-over-limit"
    } else {
        "C26-chunk-over-limit-other"
    }
}

fn mini_block_round_trip(block: DataBlock, expected: &Canon, who: &str, case: &mut Case) -> Result<(String, u64), Failure> {
    let n = block.num_values();
    let compressor = match case.strategy.create_miniblock_compressor(&case.field, &block) {
        Ok(c) => c,
        Err(e) => fail!("miniblock-create-error", "{who}: create_miniblock_compressor failed: {e}"),
    };
    let (compressed, enc) = lance!(compressor.compress(block), "miniblock-compress-error", who);
    let desc = describe(&enc);
    case.desc = desc.clone();
    if std::env::var("VERIF_DEBUG").is_ok() {
        eprintln!("[debug] {who} {desc}: buffers {:?} chunks {:?}", compressed.data.iter().map(|b| b.len()).collect::<Vec<_>>(), compressed.chunks.iter().map(|c| (c.log_num_values, c.buffer_sizes.clone())).collect::<Vec<_>>());
    }
    let per_chunk = check_chunk_rules(&compressed, n, who, case)?;
    if per_chunk.is_empty() {
        return Ok((desc, compressed.chunks.len() as u64));
    }
    forbid(&desc, &["oolbitpack", "constant"], "mini-block")?;
    let enc = proto_round_trip(&enc)?;
    let dstrat = DefaultDecompressionStrategy::default();
    let decompressor = lance!(dstrat.create_miniblock_decompressor(&enc, &dstrat), "miniblock-create-decompressor-error", format!("{who} [{desc}]"));
    let mut offsets = vec![0usize; compressed.data.len()];
    let mut start = 0u64;
    for (i, (ch, vals)) in compressed.chunks.iter().zip(per_chunk.iter()).enumerate() {
        let slices: Vec<&[u8]> = ch
            .buffer_sizes
            .iter()
            .enumerate()
            .map(|(bi, sz)| {
                let s = &compressed.data[bi][offsets[bi]..offsets[bi] + *sz as usize];
                offsets[bi] += *sz as usize;
                s
            })
            .collect();
        let bufs = as_page_slices(&slices);
        let out = lance!(decompressor.decompress(bufs, *vals), "miniblock-decompress-error", format!("{who} [{desc}] chunk {i} ({vals} values)"));
        ensure!(out.num_values() == *vals, "miniblock-chunk-num-values", "{who} [{desc}] chunk {i}: decoded {} values, chunk holds {vals}", out.num_values());
        let got = match canon(&out) {
            Ok(g) => g,
            Err(e) => fail!("miniblock-decoded-malformed", "{who} [{desc}] chunk {i}: {e}"),
        };
        let want = expected.slice(start, *vals);
        if let Some(d) = canon_diff(&want, &got) {
            fail!("miniblock-roundtrip", "{who} [{desc}] chunk {i} of {} (values {start}..{}): {d}", compressed.chunks.len(), start + vals);
        }
        start += vals;
        case.obs.inner += 1;
    }
    Ok((desc, compressed.chunks.len() as u64))
}

fn forbid(desc: &str, names: &[&str], ctx: &str) -> CheckResult {
    for n in names {
        ensure!(!desc.contains(n), "codec-not-permitted", "codec {desc} selected in the {ctx} context (format docs: {n} is not usable there)");
    }
    Ok(())
}

fn block_round_trip(block: DataBlock, expected: &Canon, who: &str, case: &mut Case) -> Result<String, Failure> {
    let n = block.num_values();
    let (compressor, enc) = match case.strategy.create_block_compressor(&case.field, &block) {
        Ok(c) => c,
        Err(e) => {
            // compression=fsst is not a general purpose scheme: the 2.2 block context refuses it cleanly
            if e.to_string().contains("fsst is not usable as a general buffer compressor") {
                case.obs.rejected += 1;
                case.obs.label("block-fsst-rejected");
                return Ok("rejected".into());
            }
            fail!("block-create-error", "{who}: create_block_compressor failed: {e}")
        }
    };
    let desc = describe(&enc);
    forbid(&desc, &["rle", "bss", "fsst", "packed"], "block")?;
    let buf = lance!(compressor.compress(block), "block-compress-error", format!("{who} [{desc}]"));
    let enc = proto_round_trip(&enc)?;
    let dstrat = DefaultDecompressionStrategy::default();
    let decompressor = lance!(dstrat.create_block_decompressor(&enc), "block-create-decompressor-error", format!("{who} [{desc}]"));
    let fresh = as_page_slices(&[&buf[..]]).pop().unwrap();
    let out = lance!(decompressor.decompress(fresh, n), "block-decompress-error", format!("{who} [{desc}]"));
    ensure!(out.num_values() == n, "block-num-values", "{who} [{desc}]: decoded {} values of {n}", out.num_values());
    let got = match canon(&out) {
        Ok(g) => g,
        Err(e) => fail!("block-decoded-malformed", "{who} [{desc}]: {e}"),
    };
    if let Some(d) = canon_diff(expected, &got) {
        fail!("block-roundtrip", "{who} [{desc}] ({n} values, {} compressed bytes): {d}", buf.len());
    }
    case.obs.inner += 1;
    Ok(desc)
}

/// per 1024-value chunk: number of significant bits (what Stat::BitWidth holds)
fn chunk_bit_widths(c: &Canon) -> Option<(u64, Vec<u32>)> {
    let Canon::Fixed { bits, data, .. } = c else { return None };
    if !matches!(*bits, 8 | 16 | 32 | 64) {
        return None;
    }
    let nb = (*bits / 8) as usize;
    let widths = data
        .chunks(nb * 1024)
        .map(|chunk| {
            let mut or = 0u64;
            for v in chunk.chunks_exact(nb) {
                let mut b = [0u8; 8];
                b[..nb].copy_from_slice(v);
                or |= u64::from_le_bytes(b);
            }
            64 - or.leading_zeros()
        })
        .collect();
    Some((*bits, widths))
}

/// known finding C26-oolbitpack-full-width-tail: the block strategy picks out-of-line bit packing with
/// compressed width == uncompressed width (a value with the top bit set) and the block (or the piece
/// it is later applied to) has a runt tail: `debug_assert!(tail_bit_savings > 0)` fires in debug builds
fn oolbitpack_full_width(whole: &Canon) -> bool {
    let Some((bits, widths)) = chunk_bit_widths(whole) else { return false };
    whole.n() > 1024 && !widths.contains(&0) && widths.iter().max().copied().unwrap_or(0) as u64 == bits
}

fn canon_to_block(c: &Canon) -> Option<DataBlock> {
    match c {
        Canon::Fixed { bits, n, data } if *bits % 8 == 0 => Some(DataBlock::FixedWidth(FixedWidthDataBlock {
            data: LanceBuffer::from(data.clone()),
            bits_per_value: *bits,
            num_values: *n,
            block_info: BlockInfo::new(),
        })),
        _ => None,
    }
}

impl Property for C26 {
    type Input = Input;
    fn id(&self) -> &'static str {
        "C26"
    }
    fn rule(&self) -> String {
        "One DataBlock per case, built with DataBlock::from_arrays (the in-tree route, which computes the statistics) from arrow arrays whose values are expanded deterministically from 1-4 generated segments: fixed width 1/8/16/32/64/128 bits and odd FixedSizeBinary widths (24..2040 bits) with constant runs of extreme values (0, 1, all-ones, sign bit, ...), random values of a chosen bit width on a chosen base, runs of 1..2050 equal values with jitter, arithmetic sequences; segment lengths around 255/256, 512, 1024, 2048, 4096 and random up to 5000; variable width (i32 / i64 offsets) with fixed or random lengths 0..255 (narrow), up to 70000 bytes (wide, per-value / block contexts only), constant / random / word-like / counter content and low-cardinality dictionaries; FixedSizeList of 1-2 levels with item and inner-list validity (none / some / all null); packed structs of 1-4 fixed children (mini-block) or fixed+variable children (per-value, 2.2). Field metadata lance-encoding:compression in unset/none/lz4/zstd/fsst, compression-level, rle-threshold 0.0/0.3/0.5/1.0, bss off/on/auto (plus the inert dict-divisor / structural-encoding / packed keys) force each codec in turn. The block goes through one context of DefaultCompressionStrategy that the in-tree primitive encoder can reach for that shape: mini-block (chunks decoded one at a time from 8-byte aligned slices cut by the chunk metadata, after a protobuf round trip of the description), per-value (whole block and a generated sub-range, offsets sliced like the full-zip reader does), block (whole, and rep/def-levels style: compressor chosen on the whole 16-bit block, pieces <= 4096 values compressed separately), or dictionary_encode -> indices via mini-block + dictionary via block -> DictionaryDataBlock::decode. Oracle: the generated values, compared bit-exactly in a canonical form (offsets normalised, FSL(AllNull) == AllNull); mini-block chunk rules: buffer sizes sum <= MAX_MINIBLOCK_BYTES, log_num_values <= 12 and > 0 for non-last chunks, power-of-two counts, last chunk = remainder, sum = num_values, buffer sizes within the buffers. Non-trivial = the selected codec (from the returned CompressiveEncoding) is not flat/variable(flat)/plain fsl AND the block spans >= 2 chunks (mini-block), >= 2 values (per-value) or > 1024 values (block); distinct by (context, shape class, codec class, compression key, chunk-count bucket, tail class). For variable-width blocks with lz4/zstd the inner encoder is additionally run without the general wrapper (the wrapper re-cuts the first buffer by the inner chunk sizes and hides inner size errors). When a chunk exceeds the 32 KiB page limit or a nested fixed-size list cannot be decoded the same column is also written to / read from a real 2.1 file to report the user-visible symptom. Narrowed: empty blocks are not generated (do_flush never encodes them; compressors assume >= 1 value); structural-encoding=miniblock is never forced onto wide values (>= 256 bytes); bit-packed booleans only in the mini-block context; nullable children of packed structs are not generated; compression=fsst in the 2.2 block context is a clean rejection.".into()
    }
    fn assumptions(&self) -> Vec<String> {
        vec![
            "blocks handed to a compressor have >= 1 value and carry the statistics computed by DataBlock::from_arrays / compute_stat (every in-tree caller)".into(),
            "mini-block is used for narrow data only (Stat::MaxLength < 256 bytes), as PrimitiveStructuralEncoder::is_narrow decides without a forcing metadata key".into(),
            "packed struct children are non-nullable; fixed-only structs use the mini-block context, structs with a variable child the per-value context of file version 2.2".into(),
            "block context only sees fixed-width (8/16/32/64/128 bit) and variable-width blocks (levels, dictionaries)".into(),
        ]
    }
    fn cases(&self, tier: Tier) -> u32 {
        tier.pick(3_000, 50_000)
    }
    fn strategy(&self, _tier: Tier) -> BoxedStrategy<Input> {
        input_strategy().boxed()
    }
    fn max_shrink_iters(&self) -> u32 {
        300
    }

    fn check(&self, input: &Input, obs: &mut Obs, env: &Env) -> CheckResult {
        bytepack_boundaries_round_trip(obs)?;
        let Some(built) = build(&input.shape) else {
            obs.label("empty-skipped");
            return Ok(());
        };
        let n = built.n;
        let narrow = built.max_len < 256;
        // contexts reachable from the in-tree encoder for this shape
        let ctxs: Vec<Ctx> = match &input.shape {
            Shape::Fixed { bits, .. } => match bits {
                16 => vec![Ctx::Mini, Ctx::Mini, Ctx::Mini, Ctx::Mini, Ctx::Block, Ctx::Block, Ctx::BlockChunked, Ctx::BlockChunked, Ctx::BlockChunked, Ctx::PerValue],
                8 | 32 | 64 => vec![Ctx::Mini, Ctx::Mini, Ctx::Mini, Ctx::Mini, Ctx::Mini, Ctx::Mini, Ctx::Block, Ctx::Block, Ctx::Block, Ctx::PerValue],
                128 => vec![Ctx::Mini, Ctx::Mini, Ctx::Dict, Ctx::Dict, Ctx::Block, Ctx::PerValue],
                1 => vec![Ctx::Mini],
                _ if narrow => vec![Ctx::Mini, Ctx::Mini, Ctx::Mini, Ctx::PerValue],
                _ => vec![Ctx::PerValue],
            },
            Shape::Var { .. } => {
                if narrow {
                    vec![Ctx::Mini, Ctx::Mini, Ctx::Mini, Ctx::Mini, Ctx::PerValue, Ctx::PerValue, Ctx::Block, Ctx::Dict, Ctx::Dict]
                } else {
                    vec![Ctx::PerValue, Ctx::PerValue, Ctx::Block, Ctx::Dict]
                }
            }
            Shape::Fsl { .. } => {
                // an FSL whose items are all null has no MaxLength statistic => never narrow in-tree
                let all_null_somewhere = format!("{:?}", built.expected).contains("AllNull");
                let boolean = matches!(&input.shape, Shape::Fsl { bits: 1, .. });
                if narrow && !all_null_somewhere {
                    if boolean {
                        // bit-packed booleans are never full-zipped (the unzip asserts whole bytes)
                        vec![Ctx::Mini]
                    } else {
                        vec![Ctx::Mini, Ctx::Mini, Ctx::PerValue]
                    }
                } else {
                    vec![Ctx::PerValue]
                }
            }
            Shape::Struct { vars, .. } => {
                if vars.is_empty() {
                    vec![Ctx::Mini]
                } else {
                    vec![Ctx::PerValue]
                }
            }
        };
        let ctx = ctxs[idx(input.ctx, ctxs.len())];
        let mut v22 = input.v22;
        if matches!(&input.shape, Shape::Struct { vars, .. } if !vars.is_empty()) {
            // variable packed struct needs 2.2 (2.1 rejects cleanly; checked separately below)
            if !v22 {
                obs.label("vpacked-on-2.1");
            }
        } else if matches!(ctx, Ctx::Block) && input.meta.compression.map(|c| c % 4 == 1 || c % 4 == 2).unwrap_or(false) {
            v22 = true;
        }
        let version = if v22 { LanceFileVersion::V2_2 } else { LanceFileVersion::V2_1 };

        let md = metadata(&input.meta, built.packed, ctx);
        let afield = ArrowField::new("c", built.dtype.clone(), true).with_metadata(md);
        let field = match Field::try_from(&afield) {
            Ok(f) => f,
            Err(e) => fail!("field-conversion", "cannot convert {afield:?}: {e}"),
        };
        let strategy = DefaultCompressionStrategy::new().with_version(version);
        let block = DataBlock::from_arrays(&[built.array.clone()], n);
        obs.label(format!("ctx-{ctx:?}"));
        obs.label(format!("shape-{}", built.class));
        if let Some(c) = input.meta.compression {
            obs.label(format!("meta-compression-{}", COMPRESSIONS[c as usize % 4]));
        }
        if n == 1 {
            obs.label("single-value");
        }
        // sanity of the harness itself: the block lance built has the generated content
        match canon(&block) {
            Ok(c) => {
                if let Some(d) = canon_diff(&built.expected, &c) {
                    fail!("from-arrays-mismatch", "DataBlock::from_arrays differs from the generated values: {d}");
                }
            }
            Err(e) => fail!("from-arrays-mismatch", "cannot read the block from_arrays built: {e}"),
        }
        let mut case = Case { built: &built, field, strategy, obs, env, desc: String::new(), chunks: 0, v22 };
        let tail = match n % 1024 {
            0 => "x1024",
            1..=15 => "tail-small",
            1009..=1023 => "tail-nearfull",
            _ => "tail-mid",
        };
        let comp_key = input.meta.compression.map(|c| COMPRESSIONS[c as usize % 4]).unwrap_or("unset");

        match ctx {
            Ctx::Mini => {
                if matches!(&input.shape, Shape::Var { .. }) && matches!(input.meta.compression.map(|c| c % 4), Some(1) | Some(2)) {
                    // general compression re-cuts the first buffer by the inner chunk sizes and so hides an inner
                    // encoder that mis-sized its chunks: look at the inner encoder on its own first
                    let mut md2 = metadata(&input.meta, built.packed, ctx);
                    md2.remove("lance-encoding:compression");
                    let f2 = Field::try_from(&ArrowField::new("c", built.dtype.clone(), true).with_metadata(md2)).unwrap();
                    let saved = std::mem::replace(&mut case.field, f2);
                    let before = case.obs.known_hits.len();
                    let r = mini_block_round_trip(block.clone(), &built.expected, "mini-block (general compression off)", &mut case);
                    case.field = saved;
                    r?;
                    if case.obs.known_hits[before..].iter().any(|(id, _)| id == "C26-binary-chunk-over-page-limit") {
                        return Ok(());
                    }
                }
                let (desc, chunks) = mini_block_round_trip(block, &built.expected, "mini-block", &mut case)?;
                case.chunks = chunks;
                case.obs.label(format!("codec-mini-{}", codec_class(&desc)));
                if chunks >= 2 {
                    case.obs.label("mini-multi-chunk");
                }
                if !is_trivial_codec(&desc) && chunks >= 2 {
                    { case.obs.label("nontrivial"); } case.obs.nontrivial(format!("mini|{}|{}|{comp_key}|chunks{}|{tail}", built.class, codec_class(&desc), bucket(chunks)));
                }
            }
            Ctx::PerValue => {
                let compressor = match case.strategy.create_per_value(&case.field, &block) {
                    Ok(c) => c,
                    Err(e) => {
                        if matches!(&input.shape, Shape::Struct { .. }) && !v22 {
                            // documented: variable packed struct requires 2.2
                            case.obs.rejected += 1;
                            return Ok(());
                        }
                        fail!("pervalue-create-error", "create_per_value failed: {e}");
                    }
                };
                let (pv, enc) = lance!(compressor.compress(block), "pervalue-compress-error", "per-value");
                let desc = describe(&enc);
                forbid(&desc, &["rle", "bss", "bitpack"], "full-zip")?;
                let enc = proto_round_trip(&enc)?;
                let dstrat = DefaultDecompressionStrategy::default();
                let (a, l) = {
                    let a = idx(input.sub.0, n as usize) as u64;
                    let l = 1 + idx(input.sub.1, (n - a) as usize) as u64;
                    (a, l.min(n - a))
                };
                if desc.starts_with("fsl") && desc.contains("constant") {
                    // nested fixed-size list whose innermost items are all null: the encoder describes it as
                    // fsl(.., constant) but ValueDecompressor::from_fsl only knows fsl / flat below an fsl
                    case.obs.label("nested-fsl-all-null");
                    let panics = std::panic::catch_unwind(std::panic::AssertUnwindSafe(|| dstrat.create_fixed_per_value_decompressor(&enc).map(|_| ()))).is_err();
                    if panics {
                        let id = "C26-nested-fsl-all-null-undecodable";
                        if case.env.known(id) {
                            case.obs.known_hit(id, format!("[{desc}]"));
                            return Ok(());
                        }
                        let symptom = file_write_symptom(&case, None);
                        fail!("pervalue-fsl-constant-undecodable", "the per-value compressor describes the block as [{desc}] but create_fixed_per_value_decompressor panics on that description (ValueDecompressor::from_fsl: unreachable!()). {symptom}");
                    }
                }
                match pv {
                    PerValueDataBlock::Fixed(fb) => {
                        let d = lance!(dstrat.create_fixed_per_value_decompressor(&enc), "pervalue-create-decompressor-error", format!("[{desc}]"));
                        if d.bits_per_value() != fb.bits_per_value {
                            // ValueEncoder::simple_per_value_fsl multiplies by the OUTER dimension once per level
                            let nested_unequal = matches!(&input.shape, Shape::Fsl { dims, .. } if dims.len() >= 2 && dims[0].max(1) != dims[1].max(1)) && !desc.contains('v');
                            let id = "C26-nested-fsl-per-value-dimension";
                            if nested_unequal && case.env.known(id) {
                                case.obs.known_hit(id, format!("[{desc}]"));
                                return Ok(());
                            }
                            let symptom = if nested_unequal { file_write_symptom(&case, if narrow { Some("fullzip") } else { None }) } else { String::new() };
                            fail!(
                                "pervalue-bits-per-value",
                                "[{desc}] the per-value compressor says {} bits per value for {} bytes of {n} values, the decompressor announces {}. {symptom}",
                                fb.bits_per_value,
                                fb.data.len(),
                                d.bits_per_value()
                            );
                        }
                        ensure!(fb.num_values == n, "pervalue-num-values", "[{desc}] compressed block has {} values of {n}", fb.num_values);
                        ensure!(fb.bits_per_value % 8 == 0, "pervalue-unaligned", "[{desc}] {} bits per compressed value (full-zip needs whole bytes)", fb.bits_per_value);
                        let bpv = (fb.bits_per_value / 8) as usize;
                        ensure!(fb.data.len() == bpv * n as usize, "pervalue-size", "[{desc}] {} bytes for {n} values of {bpv} bytes", fb.data.len());
                        for (s, len, what) in [(0u64, n, "whole"), (a, l, "sub-range")] {
                            let piece = FixedWidthDataBlock {
                                data: LanceBuffer::from(fb.data[s as usize * bpv..(s + len) as usize * bpv].to_vec()),
                                bits_per_value: fb.bits_per_value,
                                num_values: len,
                                block_info: BlockInfo::new(),
                            };
                            let out = lance!(d.decompress(piece, len), "pervalue-decompress-error", format!("[{desc}] {what} {s}+{len}"));
                            let got = match canon(&out) {
                                Ok(g) => g,
                                Err(e) => fail!("pervalue-decoded-malformed", "[{desc}] {what}: {e}"),
                            };
                            if let Some(diff) = canon_diff(&built.expected.slice(s, len), &got) {
                                fail!("pervalue-roundtrip", "[{desc}] {what} values {s}..{}: {diff}", s + len);
                            }
                            case.obs.inner += 1;
                        }
                    }
                    PerValueDataBlock::Variable(vb) => {
                        let d = lance!(dstrat.create_variable_per_value_decompressor(&enc), "pervalue-create-decompressor-error", format!("[{desc}]"));
                        ensure!(vb.num_values == n, "pervalue-num-values", "[{desc}] compressed block has {} values of {n}", vb.num_values);
                        let ob = (vb.bits_per_offset / 8) as usize;
                        ensure!(vb.offsets.len() >= (n as usize + 1) * ob, "pervalue-size", "[{desc}] {} offset bytes for {n} values", vb.offsets.len());
                        for (s, len, what) in [(0u64, n, "whole"), (a, l, "sub-range")] {
                            // like VariableFullZipDecoder::drain: the whole data buffer, a slice of the offsets
                            let piece = VariableWidthBlock {
                                data: LanceBuffer::from(vb.data.to_vec()),
                                offsets: LanceBuffer::from(vb.offsets[s as usize * ob..(s + len + 1) as usize * ob].to_vec()),
                                bits_per_offset: vb.bits_per_offset,
                                num_values: len,
                                block_info: BlockInfo::new(),
                            };
                            let out = lance!(d.decompress(piece), "pervalue-decompress-error", format!("[{desc}] {what} {s}+{len}"));
                            let got = match canon(&out) {
                                Ok(g) => g,
                                Err(e) => fail!("pervalue-decoded-malformed", "[{desc}] {what}: {e}"),
                            };
                            if let Some(diff) = canon_diff(&built.expected.slice(s, len), &got) {
                                fail!("pervalue-roundtrip", "[{desc}] {what} values {s}..{}: {diff}", s + len);
                            }
                            case.obs.inner += 1;
                        }
                    }
                }
                case.obs.label(format!("codec-pervalue-{}", codec_class(&desc)));
                if !is_trivial_codec(&desc) && n >= 2 {
                    { case.obs.label("nontrivial"); } case.obs.nontrivial(format!("pervalue|{}|{}|{comp_key}|n{}", built.class, codec_class(&desc), bucket(n)));
                }
            }
            Ctx::Block => {
                if oolbitpack_full_width(&built.expected) && n % 1024 != 0 {
                    case.obs.label("oolbitpack-full-width-tail");
                    if case.env.known("C26-oolbitpack-full-width-tail") {
                        case.obs.known_hit("C26-oolbitpack-full-width-tail", format!("{} values of {} bits, top bit set", n, built.class));
                        return Ok(());
                    }
                }
                let desc = block_round_trip(block, &built.expected, "block", &mut case)?;
                case.obs.label(format!("codec-block-{}", codec_class(&desc)));
                if !is_trivial_codec(&desc) && n > 1024 {
                    { case.obs.label("nontrivial"); } case.obs.nontrivial(format!("block|{}|{}|{comp_key}|k{}|{tail}", built.class, codec_class(&desc), bucket(n.div_ceil(1024))));
                }
            }
            Ctx::BlockChunked => {
                // compress_levels: the compressor is chosen from the statistics of the whole buffer and
                // then applied to each chunk's slice of it
                let (compressor, enc) = match case.strategy.create_block_compressor(&case.field, &block) {
                    Ok(c) => c,
                    Err(e) => {
                        if e.to_string().contains("fsst is not usable as a general buffer compressor") {
                            case.obs.rejected += 1;
                            case.obs.label("block-fsst-rejected");
                            return Ok(());
                        }
                        fail!("block-create-error", "create_block_compressor failed: {e}")
                    }
                };
                let desc = describe(&enc);
                let enc = proto_round_trip(&enc)?;
                let dstrat = DefaultDecompressionStrategy::default();
                let decompressor = lance!(dstrat.create_block_decompressor(&enc), "block-create-decompressor-error", format!("[{desc}]"));
                let Canon::Fixed { data, .. } = &built.expected else { unreachable!() };
                let mut cuts: Vec<u64> = input.cuts.iter().map(|c| idx(*c, n as usize + 1) as u64).collect();
                cuts.push(0);
                cuts.push(n);
                cuts.sort_unstable();
                cuts.dedup();
                let mut pieces = 0u64;
                for w in cuts.windows(2) {
                    let mut s = w[0];
                    while s < w[1] {
                        let len = (w[1] - s).min(4096);
                        if len % 1024 != 0 && oolbitpack_full_width(&built.expected) {
                            case.obs.label("oolbitpack-full-width-tail");
                            if case.env.known("C26-oolbitpack-full-width-tail") {
                                case.obs.known_hit("C26-oolbitpack-full-width-tail", format!("levels-style piece of {len} values, 16 bits, top bit set"));
                                s += len;
                                continue;
                            }
                        }
                        let mut piece = FixedWidthDataBlock {
                            data: LanceBuffer::from(data[s as usize * 2..(s + len) as usize * 2].to_vec()),
                            bits_per_value: 16,
                            num_values: len,
                            block_info: BlockInfo::new(),
                        };
                        piece.compute_stat();
                        let buf = lance!(compressor.compress(DataBlock::FixedWidth(piece)), "block-compress-error", format!("levels-style [{desc}] piece {s}+{len}"));
                        let fresh = as_page_slices(&[&buf[..]]).pop().unwrap();
                        let out = lance!(decompressor.decompress(fresh, len), "block-decompress-error", format!("levels-style [{desc}] piece {s}+{len}"));
                        let got = match canon(&out) {
                            Ok(g) => g,
                            Err(e) => fail!("block-decoded-malformed", "levels-style [{desc}] piece {s}+{len}: {e}"),
                        };
                        if let Some(diff) = canon_diff(&built.expected.slice(s, len), &got) {
                            fail!("block-chunked-roundtrip", "levels-style [{desc}] piece {s}+{len} of {n}: {diff}");
                        }
                        case.obs.inner += 1;
                        pieces += 1;
                        s += len;
                    }
                }
                case.obs.label(format!("codec-blockchunked-{}", codec_class(&desc)));
                if !is_trivial_codec(&desc) && pieces >= 2 {
                    { case.obs.label("nontrivial"); } case.obs.nontrivial(format!("blockchunked|{}|pieces{}|{tail}", codec_class(&desc), bucket(pieces)));
                }
            }
            Ctx::Dict => {
                let (indices, dictionary) = dictionary_encode(block);
                let dict_n = dictionary.num_values();
                let ind_n = indices.num_values();
                ensure!(ind_n == n, "dict-num-indices", "dictionary_encode produced {ind_n} indices for {n} values");
                ensure!(dict_n >= 1 && dict_n <= n, "dict-num-entries", "dictionary_encode produced {dict_n} entries for {n} values");
                let ind_canon = match canon(&indices) {
                    Ok(c) => c,
                    Err(e) => fail!("dict-malformed", "indices: {e}"),
                };
                let dict_canon = match canon(&dictionary) {
                    Ok(c) => c,
                    Err(e) => fail!("dict-malformed", "dictionary: {e}"),
                };
                // indices: mini-block context; dictionary: block context
                let (idesc, chunks) = mini_block_round_trip(indices, &ind_canon, "dictionary indices", &mut case)?;
                let ddesc = block_round_trip(dictionary.clone(), &dict_canon, "dictionary entries", &mut case)?;
                // and the transformation itself: decode(indices, dictionary) == original
                let Some(DataBlock::FixedWidth(ind_block)) = canon_to_block(&ind_canon) else {
                    fail!("dict-malformed", "indices are not byte aligned fixed width: {}", ind_canon.brief());
                };
                let decoded = lance!(DictionaryDataBlock::from_parts(ind_block, dictionary).decode(), "dict-decode-error", "DictionaryDataBlock::decode");
                let got = match canon(&decoded) {
                    Ok(g) => g,
                    Err(e) => fail!("dict-malformed", "decoded: {e}"),
                };
                if let Some(diff) = canon_diff(&built.expected, &got) {
                    fail!("dict-roundtrip", "dictionary ({dict_n} entries, {n} values): {diff}");
                }
                case.obs.label(format!("codec-dict-indices-{}", codec_class(&idesc)));
                case.obs.label(format!("codec-dict-entries-{}", codec_class(&ddesc)));
                if chunks >= 2 && dict_n >= 2 {
                    { case.obs.label("nontrivial"); } case.obs.nontrivial(format!("dict|{}|{}|{}|chunks{}|entries{}", built.class, codec_class(&idesc), codec_class(&ddesc), bucket(chunks), bucket(dict_n)));
                }
            }
        }
        let _ = case.built;
        Ok(())
    }
}

// ---------------------------------------------------------------------------
// strategies

fn len_strategy() -> impl Strategy<Value = u16> {
    prop_oneof![
        1 => 1u16..10,
        1 => 60u16..70,
        1 => 120u16..136,
        2 => 250u16..262,
        1 => 508u16..516,
        4 => 1020u16..1030,
        3 => 2040u16..2056,
        3 => 4090u16..4102,
        3 => 1u16..5000,
        1 => Just(0u16),
    ]
}

fn ext_strategy() -> impl Strategy<Value = Ext> {
    prop_oneof![
        3 => Just(Ext::Zero),
        1 => Just(Ext::One),
        2 => Just(Ext::Max),
        2 => Just(Ext::SignBit),
        1 => Just(Ext::SignMinus1),
        1 => Just(Ext::MaxMinus1),
        3 => (any::<u64>(), any::<u64>()).prop_map(|(h, l)| Ext::Raw(h, l)),
        2 => (0u64..70000).prop_map(|l| Ext::Raw(0, l)),
    ]
}

fn bits_strategy() -> impl Strategy<Value = u8> {
    prop_oneof![
        1 => Just(0u8),
        3 => 1u8..9,
        2 => 9u8..17,
        2 => 17u8..33,
        2 => 33u8..65,
        1 => 65u8..129,
        1 => prop_oneof![Just(7u8), Just(8), Just(15), Just(16), Just(31), Just(32), Just(63), Just(64), Just(127), Just(128)],
    ]
}

fn fseg_strategy() -> impl Strategy<Value = FSeg> {
    prop_oneof![
        2 => (len_strategy(), ext_strategy()).prop_map(|(len, v)| FSeg::Const { len, v }),
        4 => (len_strategy(), bits_strategy(), ext_strategy(), any::<u64>()).prop_map(|(len, bits, base, seed)| FSeg::Rand { len, bits, base, seed }),
        4 => (
            len_strategy(),
            prop_oneof![2 => 1u16..6, 2 => 250u16..260, 1 => 500u16..520, 1 => 2040u16..2056, 2 => 1u16..3000],
            bits_strategy(),
            any::<u64>()
        )
            .prop_map(|(len, run, bits, seed)| FSeg::Runs { len, run, bits, seed }),
        1 => (len_strategy(), ext_strategy(), prop_oneof![Just(0u32), Just(1), any::<u32>()]).prop_map(|(len, start, step)| FSeg::Seq { len, start, step }),
    ]
}

fn fsegs() -> impl Strategy<Value = Vec<FSeg>> {
    prop::collection::vec(fseg_strategy(), 1..4)
}

fn content_strategy() -> impl Strategy<Value = Content> {
    prop_oneof![
        1 => any::<u8>().prop_map(Content::Byte),
        2 => Just(Content::Random),
        4 => Just(Content::Text),
        1 => Just(Content::Counter),
    ]
}

fn narrow_len() -> impl Strategy<Value = u32> {
    prop_oneof![
        2 => 0u32..9,
        2 => 9u32..40,
        1 => 40u32..130,
        2 => 200u32..256,
        1 => Just(255u32),
        1 => Just(0u32),
    ]
}

fn wide_len() -> impl Strategy<Value = u32> {
    prop_oneof![
        2 => 256u32..400,
        2 => 1000u32..5000,
        1 => 8180u32..8200,
        1 => 32760u32..32780,
        1 => 65530u32..70000,
    ]
}

fn count_strategy() -> impl Strategy<Value = u16> {
    prop_oneof![
        1 => 1u16..10,
        1 => 60u16..70,
        2 => 120u16..136,
        2 => 250u16..262,
        2 => 508u16..516,
        3 => 1020u16..1030,
        2 => 2040u16..2056,
        1 => 4090u16..4102,
        4 => 1u16..3000,
    ]
}

fn vseg_strategy(wide: bool) -> BoxedStrategy<VSeg> {
    if wide {
        prop_oneof![
            3 => (1u16..12, wide_len(), content_strategy(), any::<u64>()).prop_map(|(count, len, content, seed)| VSeg::Same { count, len, content, seed }),
            2 => (1u16..12, wide_len(), content_strategy(), any::<u64>()).prop_map(|(count, max, content, seed)| VSeg::RandLen { count, max, content, seed }),
            1 => (1u16..200, narrow_len(), content_strategy(), any::<u64>()).prop_map(|(count, len, content, seed)| VSeg::Same { count, len, content, seed }),
        ]
        .boxed()
    } else {
        prop_oneof![
            4 => (count_strategy(), narrow_len(), content_strategy(), any::<u64>()).prop_map(|(count, len, content, seed)| VSeg::Same { count, len, content, seed }),
            3 => (count_strategy(), narrow_len(), content_strategy(), any::<u64>()).prop_map(|(count, max, content, seed)| VSeg::RandLen { count, max, content, seed }),
            2 => (count_strategy(), 1u8..40, 1u16..60, any::<u64>()).prop_map(|(count, k, len, seed)| VSeg::Dict { count, k, len, seed }),
        ]
        .boxed()
    }
}

fn nullpat_strategy() -> impl Strategy<Value = NullPat> {
    prop_oneof![
        3 => Just(NullPat::None),
        4 => (any::<u64>(), prop_oneof![Just(0u8), Just(5), Just(50), Just(95)]).prop_map(|(seed, pct)| NullPat::Some { seed, pct }),
        1 => Just(NullPat::All),
    ]
}

fn shape_strategy() -> impl Strategy<Value = Shape> {
    let fixed_bits = prop_oneof![
        3 => Just(8u16),
        3 => Just(16u16),
        4 => Just(32u16),
        4 => Just(64u16),
        3 => Just(128u16),
        1 => Just(1u16),
        1 => prop_oneof![Just(24u16), Just(40), Just(96), Just(256), Just(2040), Just(2048), Just(8192)],
    ];
    let fsl_bits = prop_oneof![Just(8u16), Just(16), Just(32), Just(64), Just(128), Just(1), Just(24)];
    let child_bits = prop_oneof![Just(8u16), Just(16), Just(32), Just(64), Just(128)];
    prop_oneof![
        10 => (fixed_bits, fsegs()).prop_map(|(bits, segs)| Shape::Fixed { bits, segs }),
        6 => (any::<bool>(), prop::collection::vec(vseg_strategy(false), 1..4)).prop_map(|(large, segs)| Shape::Var { large, segs }),
        2 => (any::<bool>(), prop::collection::vec(vseg_strategy(true), 1..3)).prop_map(|(large, segs)| Shape::Var { large, segs }),
        3 => (fsl_bits, prop::collection::vec(prop_oneof![3 => 1u8..5, 1 => 5u8..40], 1..3), nullpat_strategy(), nullpat_strategy(), fsegs())
            .prop_map(|(bits, dims, item_nulls, inner_nulls, segs)| Shape::Fsl { bits, dims, item_nulls, inner_nulls, segs }),
        2 => prop::collection::vec((child_bits.clone(), fsegs()), 1..5).prop_map(|fixed| Shape::Struct { fixed, vars: vec![] }),
        1 => (prop::collection::vec((child_bits, fsegs()), 0..3), prop::collection::vec((any::<bool>(), prop::collection::vec(vseg_strategy(false), 1..3)), 1..3))
            .prop_map(|(fixed, vars)| Shape::Struct { fixed, vars }),
    ]
}

fn meta_strategy() -> impl Strategy<Value = Meta> {
    (
        prop_oneof![3 => Just(None), 1 => Just(Some(0u8)), 3 => Just(Some(1u8)), 3 => Just(Some(2u8)), 1 => Just(Some(3u8))],
        prop_oneof![4 => Just(None), 1 => prop_oneof![Just(0i8), Just(1), Just(3), Just(9), Just(12), Just(-1)].prop_map(Some)],
        prop_oneof![2 => Just(None), 1 => Just(Some(0u8)), 1 => Just(Some(1u8)), 1 => Just(Some(2u8)), 3 => Just(Some(3u8))],
        prop_oneof![3 => Just(None), 1 => Just(Some(0u8)), 2 => Just(Some(1u8)), 1 => Just(Some(2u8))],
        prop::bool::weighted(0.2),
    )
        .prop_map(|(compression, level, rle, bss, inert)| Meta { compression, level, rle, bss, inert })
}

fn input_strategy() -> impl Strategy<Value = Input> {
    (shape_strategy(), meta_strategy(), any::<u16>(), prop::bool::weighted(0.4), (any::<u16>(), any::<u16>()), prop::collection::vec(any::<u16>(), 0..4))
        .prop_map(|(shape, meta, ctx, v22, sub, cuts)| Input { shape, meta, ctx, v22, sub, cuts })
}


/// The byte packer used for the full-zip repetition index picks 1/2/4/8 bytes from the announced maximum.  The maxima at
/// which the width changes are a finite set, enumerated completely here with every case (microseconds): what is unpacked
/// must be what was packed.
fn bytepack_boundaries_round_trip(obs: &mut Obs) -> CheckResult {
    use lance_encoding::utils::bytepack::{ByteUnpacker, BytepackedIntegerEncoder};
    let mut maxima: Vec<u64> = vec![0, 1, 2, u64::MAX - 1, u64::MAX];
    for k in [8u32, 16, 32] {
        let b = 1u64 << k;
        maxima.extend([b - 2, b - 1, b, b + 1]);
    }
    for max in maxima {
        let values: Vec<u64> = vec![0, max / 2, max.saturating_sub(1), max, 1.min(max), max];
        let mut enc = BytepackedIntegerEncoder::with_capacity(values.len(), max);
        for v in &values {
            // SAFETY: every value is <= the announced maximum
            unsafe { enc.append(*v) };
        }
        let data = enc.into_data();
        if max == 0 {
            ensure!(data.is_empty(), "bytepack-zero", "maximum 0 produced {} bytes", data.len());
            continue;
        }
        ensure!(data.len() % values.len() == 0 && matches!(data.len() / values.len(), 1 | 2 | 4 | 8), "bytepack-width", "maximum {max}: {} bytes for {} values", data.len(), values.len());
        let width = data.len() / values.len();
        let back: Vec<u64> = ByteUnpacker::new(data, width).collect();
        ensure!(back == values, "bytepack-round-trip", "maximum {max} packed in {width} byte(s): wrote {values:?}, read {back:?}");
    }
    obs.inner += 1;
    Ok(())
}
