//! C27 — Repetition/definition levels encode nesting losslessly.
//!
//! (a) validity/offsets -> `RepDefBuilder` -> `serialize` -> `RepDefUnraveler` /
//!     `CompositeRepDefUnraveler` gives back the same *logical* structure (validity pushed down
//!     below null structs / fixed-size lists, nothing behind null lists), whole, after cutting the
//!     levels with `RepDefSlicer` at value boundaries, and across pages serialized separately;
//! (b) control words: `build_control_word_iterator` -> bytes -> `ControlWordParser` is the identity;
//! (c) row -> item translation: a real 2.1 file with list columns (mini-block / full-zip forced by
//!     `lance-encoding:structural-encoding`) read by sorted row indices returns those rows' items.
//!
//! The oracle of (a) is a plain model of the nesting (`logical`), of (b) the input pairs, of (c) the
//! generated rows.

use crate::engine::*;
use crate::{ensure, fail};
use arrow_array::cast::AsArray;
use arrow_array::types::Int32Type;
use arrow_array::{Array, ArrayRef, Int32Array, LargeListArray, ListArray, RecordBatch, StringArray, StructArray, UInt32Array};
use arrow_buffer::{BooleanBuffer, NullBuffer, OffsetBuffer, ScalarBuffer};
use arrow_schema::{DataType, Field as AField, Fields, Schema as ASchema};
use futures::TryStreamExt;
use lance_core::cache::LanceCache;
use lance_core::datatypes::Schema as LSchema;
use lance_encoding::decoder::{DecoderPlugins, FilterExpression};
use lance_encoding::repdef::{
    build_control_word_iterator, CompositeRepDefUnraveler, ControlWordParser, DefinitionInterpretation, RepDefBuilder, RepDefUnraveler, SerializedRepDefs,
};
use lance_encoding::version::LanceFileVersion;
use lance_file::reader::{FileReader, FileReaderOptions};
use lance_file::writer::{FileWriter, FileWriterOptions};
use lance_io::object_store::ObjectStore as LanceObjectStore;
use lance_io::scheduler::{ScanScheduler, SchedulerConfig};
use lance_io::utils::CachedFileSize;
use lance_io::ReadBatchParams;
use object_store::path::Path;
use proptest::prelude::*;
use serde::{Deserialize, Serialize};
use std::collections::HashMap;
use std::sync::Arc;

pub struct C27;

// ---------------------------------------------------------------------------
// input

#[derive(Clone, Copy, Debug, Serialize, Deserialize, PartialEq, Eq)]
pub enum Kind {
    List,
    LargeList,
    Fsl(u8),
    Struct,
}

impl Kind {
    fn is_list(&self) -> bool {
        matches!(self, Kind::List | Kind::LargeList)
    }
    fn short(&self) -> String {
        match self {
            Kind::List => "L".into(),
            Kind::LargeList => "LL".into(),
            Kind::Fsl(d) => format!("F{d}"),
            Kind::Struct => "S".into(),
        }
    }
}

fn kinds_name(k: &[Kind]) -> String {
    if k.is_empty() {
        "leaf".into()
    } else {
        k.iter().map(|x| x.short()).collect::<Vec<_>>().join(">")
    }
}

/// per layer generated streams, read cyclically (position i uses v[i % len])
#[derive(Clone, Debug, Serialize, Deserialize, PartialEq)]
pub struct LayerSpec {
    /// None = the array has no validity buffer
    pub validity: Option<Vec<bool>>,
    pub lens: Vec<u8>,
    /// length of the garbage range behind a null list
    pub garbage: Vec<u8>,
    /// first offset (sliced list arrays do not start at 0)
    pub first: u8,
}

#[derive(Clone, Debug, Serialize, Deserialize, PartialEq)]
pub struct BatchSpec {
    pub rows: u16,
    pub layers: Vec<LayerSpec>,
    pub leaf: Option<Vec<bool>>,
}

#[derive(Clone, Debug, Serialize, Deserialize, PartialEq)]
pub struct Nest {
    /// outermost first
    pub kinds: Vec<Kind>,
    /// one RepDefBuilder per batch
    pub batches: Vec<BatchSpec>,
    /// batches[..k] form page 1, the rest page 2 (k from this fraction)
    pub page_split: u16,
    /// value boundaries (fractions) for RepDefSlicer
    pub cuts: Vec<u16>,
    /// hand validity below a null fixed-size list over already pushed down (both are legal inputs)
    pub fsl_pushdown: bool,
}

/// exhaustive family: every completion of one top-layer configuration
#[derive(Clone, Debug, Serialize, Deserialize, PartialEq)]
pub struct Family {
    pub kinds: Vec<Kind>,
    pub rows: u8,
    /// index of the top layer's configuration
    pub top: u32,
    /// max positions per deeper level
    pub cap: u8,
}

#[derive(Clone, Debug, Serialize, Deserialize, PartialEq)]
pub struct Words {
    pub max_rep: u16,
    pub max_def: u16,
    pub max_visible: u16,
    /// fractions mapped onto 0..=max
    pub pairs: Vec<(u16, u16)>,
}

#[derive(Clone, Debug, Serialize, Deserialize, PartialEq)]
pub struct ReadSpec {
    pub picks: Vec<u16>,
    pub batch_size: u16,
    /// read as sorted ranges instead of indices
    pub ranges: bool,
}

fn yes() -> bool {
    true
}

#[derive(Clone, Debug, Serialize, Deserialize, PartialEq)]
pub struct TakeCase {
    /// column type: 0 List<Int32>, 1 LargeList<Int32>, 2 List<Utf8>, 3 List<List<Int32>>,
    /// 4 List<Struct<x:Int32,s:Utf8>>, 5 Struct<l:List<Int32>,k:Int32>
    pub col: u8,
    pub fullzip: bool,
    pub rows: u16,
    pub seed: u64,
    pub null_list_pct: u8,
    pub empty_pct: u8,
    pub null_item_pct: u8,
    pub null_struct_pct: u8,
    /// every k-th row holds a long list (0 = never)
    pub long_every: u16,
    pub long_len: u16,
    pub max_len: u8,
    /// null lists keep a non-empty range of garbage items
    pub garbage: bool,
    /// write_batch boundaries (fractions of rows)
    pub batch_cuts: Vec<u16>,
    pub max_page_bytes: Option<u32>,
    /// small values make the writer flush pages often (several pages per column)
    #[serde(default)]
    pub data_cache_bytes: Option<u32>,
    /// keep the first entry of every list valid at every level (definition level 0 at list starts); the
    /// cases without it run into the listed finding C27-allvalid-list-nonzero-def-at-start
    #[serde(default = "yes")]
    pub pin_first: bool,
    pub reads: Vec<ReadSpec>,
}

#[derive(Clone, Debug, Serialize, Deserialize, PartialEq)]
pub enum Input {
    Nest(Nest),
    Family(Family),
    Words(Words),
    Take(TakeCase),
}

// ---------------------------------------------------------------------------
// (a) concrete structures, the logical model and the lance round trip

#[derive(Clone, Debug)]
struct CLayer {
    /// validity handed to the builder (len = positions of the layer); None = no buffer
    validity: Option<Vec<bool>>,
    /// raw list lengths (garbage behind nulls included); empty for non-lists
    lens: Vec<usize>,
    first: usize,
}

#[derive(Clone, Debug)]
struct Concrete {
    rows: usize,
    layers: Vec<CLayer>,
    leaf: Option<Vec<bool>>,
    leaf_count: usize,
}

#[derive(Clone, Debug, PartialEq)]
enum LLayer {
    /// struct / fixed-size-list: effective validity per position, and whether all ancestors of the
    /// position are valid (below a null struct / fixed-size list the validity is not part of the logical
    /// content)
    Validity(Vec<bool>, Vec<bool>),
    /// list: normalised offsets (null lists empty) and validity
    List { offsets: Vec<usize>, validity: Vec<bool> },
}

/// the logical content of a (concatenation of) structure(s): what must come back
#[derive(Clone, Debug, PartialEq)]
struct Logical {
    layers: Vec<LLayer>,
    leaf: Vec<bool>,
    /// all ancestors valid
    leaf_alive: Vec<bool>,
    /// list positions with no items (null or empty): each is one extra level
    specials: usize,
    has_empty: bool,
    has_null_list: bool,
    has_deep_null: bool,
}

fn bit(v: &Option<Vec<bool>>, i: usize) -> bool {
    match v {
        None => true,
        Some(v) => v[i],
    }
}

fn logical(kinds: &[Kind], c: &Concrete) -> Logical {
    let mut alive = vec![true; c.rows];
    let mut layers = vec![];
    let mut specials = 0;
    let (mut has_empty, mut has_null_list, mut has_deep_null) = (false, false, false);
    let mut below_list = false;
    for (k, l) in kinds.iter().zip(c.layers.iter()) {
        match k {
            Kind::Struct => {
                let eff: Vec<bool> = (0..alive.len()).map(|i| alive[i] && bit(&l.validity, i)).collect();
                if below_list && eff.iter().any(|b| !*b) {
                    has_deep_null = true;
                }
                layers.push(LLayer::Validity(eff.clone(), alive.clone()));
                alive = eff;
            }
            Kind::Fsl(d) => {
                let eff: Vec<bool> = (0..alive.len()).map(|i| alive[i] && bit(&l.validity, i)).collect();
                if below_list && eff.iter().any(|b| !*b) {
                    has_deep_null = true;
                }
                layers.push(LLayer::Validity(eff.clone(), alive.clone()));
                alive = eff.iter().flat_map(|b| std::iter::repeat(*b).take(*d as usize)).collect();
            }
            Kind::List | Kind::LargeList => {
                let eff: Vec<bool> = (0..alive.len()).map(|i| alive[i] && bit(&l.validity, i)).collect();
                let mut offsets = vec![0usize];
                for (i, v) in eff.iter().enumerate() {
                    let n = if *v { l.lens[i] } else { 0 };
                    if n == 0 {
                        specials += 1;
                        if *v {
                            has_empty = true;
                        } else {
                            has_null_list = true;
                            if below_list {
                                has_deep_null = true;
                            }
                        }
                    }
                    offsets.push(offsets.last().unwrap() + n);
                }
                alive = vec![true; *offsets.last().unwrap()];
                layers.push(LLayer::List { offsets, validity: eff });
                below_list = true;
            }
        }
    }
    let leaf: Vec<bool> = (0..alive.len()).map(|i| alive[i] && bit(&c.leaf, i)).collect();
    if below_list && leaf.iter().any(|b| !*b) {
        has_deep_null = true;
    }
    Logical { layers, leaf, leaf_alive: alive, specials, has_empty, has_null_list, has_deep_null }
}

fn concat_logical(parts: &[Logical]) -> Logical {
    let mut out = parts[0].clone();
    for p in &parts[1..] {
        for (a, b) in out.layers.iter_mut().zip(p.layers.iter()) {
            match (a, b) {
                (LLayer::Validity(x, xa), LLayer::Validity(y, ya)) => {
                    x.extend_from_slice(y);
                    xa.extend_from_slice(ya);
                }
                (LLayer::List { offsets: o1, validity: v1 }, LLayer::List { offsets: o2, validity: v2 }) => {
                    let base = *o1.last().unwrap();
                    o1.extend(o2.iter().skip(1).map(|o| o + base));
                    v1.extend_from_slice(v2);
                }
                _ => unreachable!(),
            }
        }
        out.leaf.extend_from_slice(&p.leaf);
        out.leaf_alive.extend_from_slice(&p.leaf_alive);
        out.specials += p.specials;
        out.has_empty |= p.has_empty;
        out.has_null_list |= p.has_null_list;
        out.has_deep_null |= p.has_deep_null;
    }
    out
}

fn nulls(v: &Option<Vec<bool>>) -> Option<NullBuffer> {
    v.as_ref().map(|v| NullBuffer::new(BooleanBuffer::from(v.clone())))
}

/// the calls the in-tree struct / list / primitive encoders make, outermost first
fn make_builder(kinds: &[Kind], c: &Concrete) -> Result<RepDefBuilder, Failure> {
    let mut b = RepDefBuilder::default();
    let mut n = c.rows;
    for (k, l) in kinds.iter().zip(c.layers.iter()) {
        match k {
            Kind::Struct => match nulls(&l.validity) {
                Some(v) => b.add_validity_bitmap(v),
                None => b.add_no_null(n),
            },
            Kind::Fsl(d) => {
                b.add_fsl(nulls(&l.validity), *d as usize, n);
                n *= *d as usize;
            }
            Kind::List | Kind::LargeList => {
                let garbage_expected = (0..n).any(|i| !bit(&l.validity, i) && l.lens[i] > 0);
                let mut offs: Vec<i64> = vec![l.first as i64];
                for len in &l.lens {
                    offs.push(offs.last().unwrap() + *len as i64);
                }
                let got = if *k == Kind::List {
                    let o32: Vec<i32> = offs.iter().map(|o| *o as i32).collect();
                    b.add_offsets(OffsetBuffer::new(ScalarBuffer::from(o32)), nulls(&l.validity))
                } else {
                    b.add_offsets(OffsetBuffer::new(ScalarBuffer::from(offs)), nulls(&l.validity))
                };
                ensure!(
                    got == garbage_expected,
                    "add-offsets-garbage-flag",
                    "add_offsets returned {got} but the offsets {} garbage behind null lists (lens {:?}, validity {:?})",
                    if garbage_expected { "have" } else { "have no" },
                    l.lens,
                    l.validity
                );
                n = (0..n).map(|i| if bit(&l.validity, i) { l.lens[i] } else { 0 }).sum();
            }
        }
    }
    debug_assert_eq!(n, c.leaf_count);
    match nulls(&c.leaf) {
        Some(v) => b.add_validity_bitmap(v),
        None => b.add_no_null(n),
    }
    Ok(b)
}

fn norm_validity(v: Option<NullBuffer>, n: usize) -> Vec<bool> {
    match v {
        None => vec![true; n],
        Some(nb) => nb.iter().collect(),
    }
}

/// equal length, and equal wherever the position is not below a null ancestor
fn same_where_alive(got: &[bool], want: &[bool], alive: &[bool]) -> bool {
    got.len() == want.len() && (0..got.len()).all(|i| !alive[i] || got[i] == want[i])
}

fn show_bits(v: &[bool]) -> String {
    let s: String = v.iter().take(80).map(|b| if *b { '1' } else { '0' }).collect();
    if v.len() > 80 {
        format!("{s}…(len {})", v.len())
    } else {
        format!("{s}(len {})", v.len())
    }
}

fn show_usize(v: &[usize]) -> String {
    if v.len() <= 60 {
        format!("{v:?}")
    } else {
        format!("{:?}…(len {})", &v[..60], v.len())
    }
}

/// unravel innermost first, like the structural decoders do, and compare with the model
fn unravel_and_compare(variant: &str, unravelers: Vec<RepDefUnraveler>, kinds: &[Kind], want: &Logical, ctx: &str) -> CheckResult {
    let mut comp = CompositeRepDefUnraveler::new(unravelers);
    let leaf = norm_validity(comp.unravel_validity(want.leaf.len()), want.leaf.len());
    if !same_where_alive(&leaf, &want.leaf, &want.leaf_alive) {
        fail!(format!("{variant}:leaf-validity"), "{ctx}: leaf validity {} but the model says {}", show_bits(&leaf), show_bits(&want.leaf));
    }
    for (li, k) in kinds.iter().enumerate().rev() {
        match (k, &want.layers[li]) {
            (Kind::Struct, LLayer::Validity(w, alive)) => {
                let got = norm_validity(comp.unravel_validity(w.len()), w.len());
                if !same_where_alive(&got, w, alive) {
                    fail!(format!("{variant}:struct-validity"), "{ctx}: layer {li} (struct) validity {} but the model says {}", show_bits(&got), show_bits(w));
                }
            }
            (Kind::Fsl(d), LLayer::Validity(w, alive)) => {
                let got = norm_validity(comp.unravel_fsl_validity(w.len(), *d as usize), w.len());
                if !same_where_alive(&got, w, alive) {
                    fail!(format!("{variant}:fsl-validity"), "{ctx}: layer {li} (fsl {d}) validity {} but the model says {}", show_bits(&got), show_bits(w));
                }
            }
            (Kind::List, LLayer::List { offsets, validity }) => {
                let (o, v) = match comp.unravel_offsets::<i32>() {
                    Ok(r) => r,
                    Err(e) => fail!(format!("{variant}:unravel-offsets-error"), "{ctx}: layer {li}: {e}"),
                };
                let got: Vec<usize> = o.iter().map(|x| *x as usize).collect();
                if &got != offsets {
                    fail!(format!("{variant}:list-offsets"), "{ctx}: layer {li} (list) offsets {} but the model says {}", show_usize(&got), show_usize(offsets));
                }
                let gv = norm_validity(v, validity.len());
                if &gv != validity {
                    fail!(format!("{variant}:list-validity"), "{ctx}: layer {li} (list) validity {} but the model says {}", show_bits(&gv), show_bits(validity));
                }
            }
            (Kind::LargeList, LLayer::List { offsets, validity }) => {
                let (o, v) = match comp.unravel_offsets::<i64>() {
                    Ok(r) => r,
                    Err(e) => fail!(format!("{variant}:unravel-offsets-error"), "{ctx}: layer {li}: {e}"),
                };
                let got: Vec<usize> = o.iter().map(|x| *x as usize).collect();
                if &got != offsets {
                    fail!(format!("{variant}:list-offsets"), "{ctx}: layer {li} (large list) offsets {} but the model says {}", show_usize(&got), show_usize(offsets));
                }
                let gv = norm_validity(v, validity.len());
                if &gv != validity {
                    fail!(format!("{variant}:list-validity"), "{ctx}: layer {li} (large list) validity {} but the model says {}", show_bits(&gv), show_bits(validity));
                }
            }
            _ => unreachable!(),
        }
    }
    Ok(())
}

fn unraveler_of(s: &SerializedRepDefs, num_items: usize) -> RepDefUnraveler {
    RepDefUnraveler::new(
        s.repetition_levels.as_ref().map(|l| l.to_vec()),
        s.definition_levels.as_ref().map(|l| l.to_vec()),
        s.def_meaning.clone().into(),
        num_items as u64,
    )
}

fn check_serialized_shape(s: &SerializedRepDefs, kinds: &[Kind], want: &Logical, ctx: &str) -> CheckResult {
    ensure!(
        s.def_meaning.len() == kinds.len() + 1,
        "serialize:def-meaning-len",
        "{ctx}: def_meaning {:?} for {} layers + leaf",
        s.def_meaning,
        kinds.len()
    );
    ensure!(!s.def_meaning[0].is_list(), "serialize:def-meaning-kind", "{ctx}: innermost meaning {:?} is a list", s.def_meaning[0]);
    for (j, k) in kinds.iter().rev().enumerate() {
        ensure!(
            s.def_meaning[j + 1].is_list() == k.is_list(),
            "serialize:def-meaning-kind",
            "{ctx}: def_meaning {:?} does not match the layers {:?} (innermost first)",
            s.def_meaning,
            kinds
        );
    }
    let total = want.leaf.len() + want.specials;
    if let Some(r) = &s.repetition_levels {
        ensure!(r.len() == total, "serialize:level-count", "{ctx}: {} repetition levels for {} items + {} empty/null lists", r.len(), want.leaf.len(), want.specials);
        let max_rep = kinds.iter().filter(|k| k.is_list()).count() as u16;
        ensure!(r.iter().all(|x| *x <= max_rep), "serialize:level-range", "{ctx}: repetition level above {max_rep}: {:?}", &r[..r.len().min(60)]);
        if total > 0 {
            ensure!(r[0] == max_rep, "serialize:first-rep", "{ctx}: first repetition level {} is not {max_rep}", r[0]);
        }
    } else {
        ensure!(!kinds.iter().any(|k| k.is_list()) || total == 0, "serialize:missing-rep", "{ctx}: no repetition levels although there are list layers");
    }
    if let Some(d) = &s.definition_levels {
        ensure!(d.len() == total, "serialize:level-count", "{ctx}: {} definition levels for {} items + {} empty/null lists", d.len(), want.leaf.len(), want.specials);
        let max_def: u16 = s.def_meaning.iter().map(|m| m.num_def_levels()).sum();
        ensure!(d.iter().all(|x| *x <= max_def), "serialize:level-range", "{ctx}: definition level above {max_def}: {:?}", &d[..d.len().min(60)]);
    }
    Ok(())
}

fn levels_of(buf: &lance_encoding::buffer::LanceBuffer) -> Vec<u16> {
    buf.chunks_exact(2).map(|c| u16::from_le_bytes([c[0], c[1]])).collect()
}

/// cut the serialized levels at value boundaries with RepDefSlicer (what encode_miniblock does per
/// chunk) and check the pieces; then unravel (1) the concatenation in one unraveler (what the
/// mini-block decoder does) and (2) the pieces compositely
fn slicer_variants(s: &SerializedRepDefs, kinds: &[Kind], want: &Logical, cuts: &[usize], ctx: &str, obs: &mut Obs, env: &Env, unravel: bool) -> CheckResult {
    let n = want.leaf.len();
    if n == 0 || (s.repetition_levels.is_none() && s.definition_levels.is_none()) {
        return Ok(());
    }
    // chunk sizes: every chunk >= 1 value, the last takes the rest
    let mut sizes = vec![];
    let mut prev = 0;
    for c in cuts {
        if *c > prev && *c < n {
            sizes.push(*c - prev);
            prev = *c;
        }
    }
    let mut rep_pieces: Vec<Vec<u16>> = vec![];
    let mut def_pieces: Vec<Vec<u16>> = vec![];
    if let Some(mut sl) = s.rep_slicer() {
        for k in &sizes {
            rep_pieces.push(levels_of(&sl.slice_next(*k)));
        }
        rep_pieces.push(levels_of(&sl.slice_rest()));
        ensure!(sl.num_levels_remaining() == 0, "slicer:remaining", "{ctx}: {} repetition levels left after slice_rest", sl.num_levels_remaining());
    }
    if let Some(mut sl) = s.def_slicer() {
        for k in &sizes {
            def_pieces.push(levels_of(&sl.slice_next(*k)));
        }
        def_pieces.push(levels_of(&sl.slice_rest()));
        ensure!(sl.num_levels_remaining() == 0, "slicer:remaining", "{ctx}: {} definition levels left after slice_rest", sl.num_levels_remaining());
    }
    let pieces = sizes.len() + 1;
    if !rep_pieces.is_empty() && !def_pieces.is_empty() {
        for i in 0..pieces {
            ensure!(
                rep_pieces[i].len() == def_pieces[i].len(),
                "slicer:rep-def-misaligned",
                "{ctx}: piece {i} (sizes {sizes:?}): {} repetition but {} definition levels",
                rep_pieces[i].len(),
                def_pieces[i].len()
            );
        }
    }
    if let Some(r) = &s.repetition_levels {
        let cat: Vec<u16> = rep_pieces.iter().flatten().copied().collect();
        ensure!(cat.as_slice() == r.as_ref(), "slicer:concat", "{ctx}: repetition pieces (sizes {sizes:?}) do not concatenate to the whole");
    }
    if let Some(d) = &s.definition_levels {
        let cat: Vec<u16> = def_pieces.iter().flatten().copied().collect();
        ensure!(cat.as_slice() == d.as_ref(), "slicer:concat", "{ctx}: definition pieces (sizes {sizes:?}) do not concatenate to the whole");
    }
    // every piece covers exactly the requested number of values
    let mut values_per_piece = sizes.clone();
    values_per_piece.push(n - sizes.iter().sum::<usize>());
    for i in 0..pieces {
        let levels = if !def_pieces.is_empty() { def_pieces[i].len() } else { rep_pieces[i].len() };
        let visible = match (s.max_visible_level, def_pieces.get(i)) {
            (Some(mv), Some(d)) => d.iter().filter(|x| **x <= mv).count(),
            _ => levels,
        };
        ensure!(
            visible == values_per_piece[i],
            "slicer:value-count",
            "{ctx}: piece {i} of sizes {values_per_piece:?} holds {visible} visible values in {levels} levels (def piece {:?}, max_visible_level {:?})",
            def_pieces.get(i).map(|d| &d[..d.len().min(40)]),
            s.max_visible_level
        );
    }
    if !unravel {
        return Ok(());
    }
    // (1) what DecodeMiniBlockTask does: concatenate the chunks' levels, one unraveler
    let cat_rep: Option<Vec<u16>> = s.repetition_levels.as_ref().map(|_| rep_pieces.iter().flatten().copied().collect());
    let cat_def: Option<Vec<u16>> = s.definition_levels.as_ref().map(|_| def_pieces.iter().flatten().copied().collect());
    let u = RepDefUnraveler::new(cat_rep, cat_def, s.def_meaning.clone().into(), n as u64);
    unravel_and_compare("slices-concat", vec![u], kinds, want, ctx)?;
    // (2) the pieces compositely.  RepDefUnraveler::decimate (fixed-size-list layers) assumes whole rows
    // per unraveler, so only pieces that hold whole fixed-size-list rows are legal there.
    let row_items: usize = kinds.iter().map(|k| if let Kind::Fsl(d) = k { *d as usize } else { 1 }).product();
    if values_per_piece.iter().all(|v| v % row_items == 0) {
        let us: Vec<RepDefUnraveler> = (0..pieces)
            .map(|i| RepDefUnraveler::new(rep_pieces.get(i).cloned(), def_pieces.get(i).cloned(), s.def_meaning.clone().into(), values_per_piece[i] as u64))
            .collect();
        if pieces >= 2 && nodef_truncate_bug(kinds, s.definition_levels.is_none()) {
            obs.label("composite-nodef-nested-lists");
            if env.known(NODEF_TRUNCATE) {
                obs.known_hit(NODEF_TRUNCATE, truncate_str(ctx, 300));
                return Ok(());
            }
        }
        unravel_and_compare("slices-composite", us, kinds, want, &format!("{ctx} pieces {values_per_piece:?}"))?;
    }
    Ok(())
}

/// known finding C27-unravel-offsets-nodef-truncate: without definition levels unravel_offsets truncates
/// its repetition levels to `offsets.len() - 1`, but `offsets` is shared by all unravelers of a composite;
/// every unraveler but the first keeps stale entries which the next (outer) list layer then reads
fn nodef_truncate_bug(kinds: &[Kind], later_unraveler_without_def: bool) -> bool {
    later_unraveler_without_def && kinds.iter().filter(|k| k.is_list()).count() >= 2
}

const NODEF_TRUNCATE: &str = "C27-unravel-offsets-nodef-truncate";

/// known finding C27-allvalid-layer-num-items: RepDefUnraveler::unravel_validity appends `num_items`
/// (the number of LEAF items) for an AllValidItem layer; for a struct / fixed-size-list layer above a list
/// (or above an fsl) the layer has a different number of positions.  Only visible when another unraveler
/// of the composite has nulls in that layer (otherwise the layer is skipped).
fn allvalid_num_items_bug(kinds: &[Kind], pages: &[(&SerializedRepDefs, &Logical)]) -> bool {
    for (li, k) in kinds.iter().enumerate() {
        if k.is_list() {
            continue;
        }
        let m = kinds.len() - li;
        let any_nullable = pages.iter().any(|(p, _)| p.def_meaning[m] != DefinitionInterpretation::AllValidItem);
        if !any_nullable {
            continue;
        }
        for (p, w) in pages {
            if p.def_meaning[m] == DefinitionInterpretation::AllValidItem {
                let positions = match &w.layers[li] {
                    LLayer::Validity(v, _) => v.len(),
                    _ => unreachable!(),
                };
                if positions != w.leaf.len() {
                    return true;
                }
            }
        }
    }
    false
}

const ALLVALID_NUM_ITEMS: &str = "C27-allvalid-layer-num-items";

#[allow(clippy::too_many_arguments)]
fn pages_variant(us: Vec<RepDefUnraveler>, kinds: &[Kind], want: &Logical, p1: &SerializedRepDefs, w1: &Logical, p2: &SerializedRepDefs, w2: &Logical, ctx: &str, obs: &mut Obs, env: &Env) -> CheckResult {
    if allvalid_num_items_bug(kinds, &[(p1, w1), (p2, w2)]) {
        obs.label("composite-allvalid-layer-above-list");
        if env.known(ALLVALID_NUM_ITEMS) {
            obs.known_hit(ALLVALID_NUM_ITEMS, truncate_str(ctx, 300));
            return Ok(());
        }
    }
    if nodef_truncate_bug(kinds, p2.definition_levels.is_none() && p2.repetition_levels.is_some()) {
        obs.label("composite-nodef-nested-lists");
        if env.known(NODEF_TRUNCATE) {
            obs.known_hit(NODEF_TRUNCATE, truncate_str(ctx, 300));
            return Ok(());
        }
    }
    unravel_and_compare("pages", us, kinds, want, ctx)
}

fn describe_concrete(kinds: &[Kind], c: &Concrete) -> String {
    let mut s = format!("{} rows={}", kinds_name(kinds), c.rows);
    for (k, l) in kinds.iter().zip(c.layers.iter()) {
        s.push_str(&format!(" | {} v={}", k.short(), match &l.validity { None => "none".to_string(), Some(v) => show_bits(v) }));
        if k.is_list() {
            s.push_str(&format!(" lens={:?} first={}", &l.lens[..l.lens.len().min(40)], l.first));
        }
    }
    s.push_str(&format!(" | leaf v={}", match &c.leaf { None => "none".to_string(), Some(v) => show_bits(v) }));
    s
}

/// known finding C27-allvalid-list-nonzero-def-at-start: RepDefUnraveler::unravel_offsets computes the
/// highest visible definition level of an AllValidList layer as 0, so a list of such a layer whose first
/// entry carries any definition level (null item, null struct, empty/null inner list) is dropped or
/// turned into a null list.  Exact predicate on the serialized levels.
fn allvalid_list_bug(s: &SerializedRepDefs) -> bool {
    let (Some(rep), Some(def)) = (&s.repetition_levels, &s.definition_levels) else { return false };
    let mut r = 0u16;
    for m in &s.def_meaning {
        if m.is_list() {
            r += 1;
            if *m == DefinitionInterpretation::AllValidList && rep.iter().zip(def.iter()).any(|(rp, d)| *rp >= r && *d != 0) {
                return true;
            }
        }
    }
    false
}

const ALLVALID: &str = "C27-allvalid-list-nonzero-def-at-start";

/// one page (= one serialize call over the batches' builders): all variants.  The bool says that the page
/// ran into a listed known finding and its unravel variants were skipped.
fn check_page(kinds: &[Kind], batches: &[Concrete], cuts_frac: &[u16], ctx: &str, obs: &mut Obs, env: &Env) -> Result<(SerializedRepDefs, Logical, bool), Failure> {
    let want = concat_logical(&batches.iter().map(|c| logical(kinds, c)).collect::<Vec<_>>());
    let builders = batches.iter().map(|c| make_builder(kinds, c)).collect::<Result<Vec<_>, _>>()?;
    let s = RepDefBuilder::serialize(builders);
    check_serialized_shape(&s, kinds, &want, ctx)?;
    if allvalid_list_bug(&s) {
        obs.label("allvalid-list-nonzero-def-at-start");
        if env.known(ALLVALID) {
            obs.known_hit(ALLVALID, truncate_str(ctx, 300));
            // the slicer does not depend on the unraveler: still check the pieces
            let mut cuts: Vec<usize> = cuts_frac.iter().map(|c| idx(*c, want.leaf.len())).collect();
            cuts.sort_unstable();
            cuts.dedup();
            slicer_variants(&s, kinds, &want, &cuts, ctx, obs, env, false)?;
            return Ok((s, want, true));
        }
    }
    unravel_and_compare("whole", vec![unraveler_of(&s, want.leaf.len())], kinds, &want, ctx)?;
    let mut cuts: Vec<usize> = cuts_frac.iter().map(|c| idx(*c, want.leaf.len())).collect();
    cuts.sort_unstable();
    cuts.dedup();
    slicer_variants(&s, kinds, &want, &cuts, ctx, obs, env, true)?;
    Ok((s, want, false))
}

// ---- expansion of a random spec

const MAX_POSITIONS: usize = 3000;

fn cyc_bool(v: &Option<Vec<bool>>, n: usize) -> Option<Vec<bool>> {
    v.as_ref().map(|v| if v.is_empty() { vec![true; n] } else { (0..n).map(|i| v[i % v.len()]).collect() })
}

fn expand(kinds: &[Kind], spec: &BatchSpec, fsl_pushdown: bool) -> Concrete {
    let rows = spec.rows.max(1) as usize;
    let mut n = rows;
    // positions that lie below a null struct (the struct encoder pushes its nulls down)
    let mut struct_dead = vec![false; n];
    // positions below a null fixed-size list
    let mut fsl_dead = vec![false; n];
    let mut layers = vec![];
    let default = LayerSpec { validity: None, lens: vec![1], garbage: vec![0], first: 0 };
    for (li, k) in kinds.iter().enumerate() {
        let ls = spec.layers.get(li).unwrap_or(&default);
        let own = cyc_bool(&ls.validity, n);
        let force = |i: usize| struct_dead[i] || (fsl_pushdown && fsl_dead[i]);
        let passed: Option<Vec<bool>> = if (0..n).any(force) {
            Some((0..n).map(|i| !force(i) && bit(&own, i)).collect())
        } else {
            own
        };
        match k {
            Kind::Struct => {
                struct_dead = (0..n).map(|i| struct_dead[i] || !bit(&passed, i)).collect();
                layers.push(CLayer { validity: passed, lens: vec![], first: 0 });
            }
            Kind::Fsl(d) => {
                let d = *d as usize;
                fsl_dead = (0..n).flat_map(|i| std::iter::repeat(fsl_dead[i] || !bit(&passed, i)).take(d)).collect();
                struct_dead = (0..n).flat_map(|i| std::iter::repeat(struct_dead[i]).take(d)).collect();
                layers.push(CLayer { validity: passed, lens: vec![], first: 0 });
                n *= d;
            }
            Kind::List | Kind::LargeList => {
                let mut lens = vec![];
                let mut total = 0usize;
                for i in 0..n {
                    let valid = bit(&passed, i);
                    let mut l = if valid {
                        if ls.lens.is_empty() { 1 } else { ls.lens[i % ls.lens.len()] as usize }
                    } else if ls.garbage.is_empty() {
                        0
                    } else {
                        ls.garbage[i % ls.garbage.len()] as usize
                    };
                    if valid && total + l > MAX_POSITIONS {
                        l = 0;
                    }
                    if valid {
                        total += l;
                    }
                    lens.push(l);
                }
                layers.push(CLayer { validity: passed, lens, first: ls.first as usize });
                n = total;
                struct_dead = vec![false; n];
                fsl_dead = vec![false; n];
            }
        }
    }
    let own = cyc_bool(&spec.leaf, n);
    let force = |i: usize| struct_dead[i] || (fsl_pushdown && fsl_dead[i]);
    let leaf = if (0..n).any(force) { Some((0..n).map(|i| !force(i) && bit(&own, i)).collect()) } else { own };
    Concrete { rows, layers, leaf, leaf_count: n }
}

// ---- exhaustive families

/// all configurations of one layer: (validity handed over, raw lens)
fn layer_options(kind: Kind, must_null: &[bool], free: &[bool], cap: usize) -> Vec<(Option<Vec<bool>>, Vec<usize>)> {
    // must_null[i]: below a null struct => handed over as null; free[i]: below a null fixed-size list =>
    // the bit is redundant, fixed to an alternating pattern (not pushed down on purpose)
    let n = must_null.len();
    let choose: Vec<usize> = (0..n).filter(|i| !must_null[*i] && !free[*i]).collect();
    let all_open = choose.len() == n;
    let mut out = vec![];
    match kind {
        Kind::Struct | Kind::Fsl(_) => {
            if all_open {
                out.push((None, vec![]));
            }
            for m in 0..(1u32 << choose.len()) {
                let mut v: Vec<bool> = (0..n).map(|i| !must_null[i] && i % 2 == 0).collect();
                for (b, i) in choose.iter().enumerate() {
                    v[*i] = m >> b & 1 == 1;
                }
                out.push((Some(v), vec![]));
            }
        }
        Kind::List | Kind::LargeList => {
            // per open position: 0 = null without garbage, 1 = null with one garbage item, 2 = empty, 3 = one item, 4 = two items
            let with_buffer = 5usize.pow(choose.len() as u32);
            for m in 0..with_buffer {
                let mut v = vec![false; n];
                let mut lens: Vec<usize> = (0..n).map(|i| i % 2).collect();
                let mut mm = m;
                let mut items = 0;
                for i in &choose {
                    let c = mm % 5;
                    mm /= 5;
                    match c {
                        0 => lens[*i] = 0,
                        1 => lens[*i] = 1,
                        2 => {
                            v[*i] = true;
                            lens[*i] = 0;
                        }
                        c => {
                            v[*i] = true;
                            lens[*i] = c - 2;
                            items += c - 2;
                        }
                    }
                }
                if items <= cap {
                    out.push((Some(v), lens));
                }
            }
            if all_open {
                for m in 0..3usize.pow(n as u32) {
                    let mut lens = vec![0; n];
                    let mut mm = m;
                    for l in lens.iter_mut() {
                        *l = mm % 3;
                        mm /= 3;
                    }
                    if lens.iter().sum::<usize>() <= cap {
                        out.push((None, lens));
                    }
                }
            }
        }
    }
    out
}

fn leaf_options(must_null: &[bool], free: &[bool]) -> Vec<Option<Vec<bool>>> {
    layer_options(Kind::Struct, must_null, free, usize::MAX).into_iter().map(|(v, _)| v).collect()
}

fn family_rec(
    kinds: &[Kind],
    level: usize,
    rows: usize,
    top: Option<usize>,
    cap: usize,
    must_null: Vec<bool>,
    free: Vec<bool>,
    layers: &mut Vec<CLayer>,
    f: &mut dyn FnMut(&Concrete) -> CheckResult,
) -> CheckResult {
    let n = must_null.len();
    if level == kinds.len() {
        let opts = leaf_options(&must_null, &free);
        for (oi, leaf) in opts.into_iter().enumerate() {
            if let Some(t) = top {
                if oi != t {
                    continue;
                }
            }
            let c = Concrete { rows, layers: layers.clone(), leaf, leaf_count: n };
            f(&c)?;
        }
        return Ok(());
    }
    let opts = layer_options(kinds[level], &must_null, &free, cap);
    for (oi, (validity, lens)) in opts.into_iter().enumerate() {
        if let Some(t) = top {
            if oi != t {
                continue;
            }
        }
        let (mn, fr): (Vec<bool>, Vec<bool>) = match kinds[level] {
            Kind::Struct => ((0..n).map(|i| must_null[i] || !bit(&validity, i)).collect(), free.clone()),
            Kind::Fsl(d) => {
                let d = d as usize;
                if n * d > cap {
                    continue;
                }
                (
                    (0..n).flat_map(|i| std::iter::repeat(must_null[i]).take(d)).collect(),
                    (0..n).flat_map(|i| std::iter::repeat(free[i] || !bit(&validity, i)).take(d)).collect(),
                )
            }
            Kind::List | Kind::LargeList => {
                let items: usize = (0..n).map(|i| if bit(&validity, i) { lens[i] } else { 0 }).sum();
                (vec![false; items], vec![false; items])
            }
        };
        layers.push(CLayer { validity, lens, first: if level % 2 == 1 { 3 } else { 0 } });
        family_rec(kinds, level + 1, rows, None, cap, mn, fr, layers, f)?;
        layers.pop();
    }
    Ok(())
}

fn top_option_count(kinds: &[Kind], rows: usize, cap: usize) -> usize {
    let mn = vec![false; rows];
    if kinds.is_empty() {
        leaf_options(&mn, &mn).len()
    } else {
        layer_options(kinds[0], &mn, &mn, cap).len()
    }
}

fn nestings(depth: usize) -> Vec<Vec<Kind>> {
    let alphabet = [Kind::List, Kind::LargeList, Kind::Fsl(1), Kind::Fsl(2), Kind::Struct];
    let mut all: Vec<Vec<Kind>> = vec![vec![]];
    let mut frontier: Vec<Vec<Kind>> = vec![vec![]];
    for _ in 0..depth {
        let mut next = vec![];
        for f in &frontier {
            for k in alphabet {
                let mut n = f.clone();
                n.push(k);
                // RepDefUnraveler::decimate: "Not yet supported FSL<...List<...>>" (todo!()), and nothing in
                // tree puts a fixed-size-list layer next to list layers
                let has_fsl = n.iter().any(|k| matches!(k, Kind::Fsl(_)));
                let has_list = n.iter().any(|k| k.is_list());
                if has_fsl && has_list {
                    continue;
                }
                next.push(n);
            }
        }
        all.extend(next.iter().cloned());
        frontier = next;
    }
    all
}

// ---------------------------------------------------------------------------
// (c) file round trip model

#[derive(Clone, Debug, PartialEq)]
enum V {
    Null,
    Int(i32),
    Str(String),
    List(Vec<V>),
    Struct(Vec<V>),
}

#[derive(Clone, Debug)]
enum Ty {
    Int,
    Str,
    List(Box<Ty>, bool),
    Struct(Vec<(String, Ty)>),
}

impl Ty {
    fn arrow(&self) -> DataType {
        match self {
            Ty::Int => DataType::Int32,
            Ty::Str => DataType::Utf8,
            Ty::List(c, large) => {
                let f = Arc::new(AField::new("item", c.arrow(), true));
                if *large {
                    DataType::LargeList(f)
                } else {
                    DataType::List(f)
                }
            }
            Ty::Struct(fs) => DataType::Struct(Fields::from(fs.iter().map(|(n, t)| AField::new(n.clone(), t.arrow(), true)).collect::<Vec<_>>())),
        }
    }
}

struct Sm(u64);
impl Sm {
    fn next(&mut self) -> u64 {
        self.0 = self.0.wrapping_add(0x9E37_79B9_7F4A_7C15);
        let mut z = self.0;
        z = (z ^ (z >> 30)).wrapping_mul(0xBF58_476D_1CE4_E5B9);
        z = (z ^ (z >> 27)).wrapping_mul(0x94D0_49BB_1331_11EB);
        z ^ (z >> 31)
    }
    fn pct(&mut self, p: u8) -> bool {
        self.next() % 100 < p as u64
    }
    fn below(&mut self, n: u64) -> u64 {
        if n == 0 {
            0
        } else {
            self.next() % n
        }
    }
}

fn col_type(col: u8) -> Ty {
    match col % 6 {
        0 => Ty::List(Box::new(Ty::Int), false),
        1 => Ty::List(Box::new(Ty::Int), true),
        2 => Ty::List(Box::new(Ty::Str), false),
        3 => Ty::List(Box::new(Ty::List(Box::new(Ty::Int), false)), false),
        4 => Ty::List(Box::new(Ty::Struct(vec![("x".into(), Ty::Int), ("s".into(), Ty::Str)])), false),
        _ => Ty::Struct(vec![("l".into(), Ty::List(Box::new(Ty::Int), false)), ("k".into(), Ty::Int)]),
    }
}

/// `pin`: the value is the first entry of a list and must carry definition level 0 all the way down
/// (only while the known finding C27-allvalid-list-nonzero-def-at-start is listed)
fn gen_value(ty: &Ty, t: &TakeCase, r: &mut Sm, ctr: &mut i32, depth: usize, long: bool, pin: bool, sanitize: bool) -> V {
    match ty {
        Ty::Int => {
            *ctr += 1;
            if r.pct(t.null_item_pct) && !pin {
                V::Null
            } else {
                V::Int(*ctr)
            }
        }
        Ty::Str => {
            *ctr += 1;
            if r.pct(t.null_item_pct) && !pin {
                V::Null
            } else {
                // unique strings: no dictionary encoding
                V::Str(format!("s{}-{}", *ctr, "x".repeat((r.below(6)) as usize)))
            }
        }
        Ty::List(c, _) => {
            if r.pct(t.null_list_pct) && !pin {
                return V::Null;
            }
            if r.pct(t.empty_pct) && !pin {
                return V::List(vec![]);
            }
            let n = if long && depth == 0 {
                t.long_len as usize
            } else if depth == 0 {
                1 + r.below(t.max_len.max(1) as u64) as usize
            } else {
                1 + r.below(t.max_len.clamp(1, 4) as u64) as usize
            };
            V::List((0..n).map(|i| gen_value(c, t, r, ctr, depth + 1, false, sanitize && i == 0, sanitize)).collect())
        }
        Ty::Struct(fs) => {
            if r.pct(t.null_struct_pct) && !pin {
                return V::Null;
            }
            V::Struct(fs.iter().map(|(_, c)| gen_value(c, t, r, ctr, depth, long, pin, sanitize)).collect())
        }
    }
}

fn garbage_value(ty: &Ty) -> V {
    match ty {
        Ty::Int => V::Int(-7),
        Ty::Str => V::Str("garbage".into()),
        Ty::List(c, _) => V::List(vec![garbage_value(c)]),
        Ty::Struct(fs) => V::Struct(fs.iter().map(|(_, c)| garbage_value(c)).collect()),
    }
}

fn build_array(ty: &Ty, rows: &[&V], garbage: bool) -> ArrayRef {
    match ty {
        Ty::Int => Arc::new(Int32Array::from(rows.iter().map(|v| if let V::Int(i) = v { Some(*i) } else { None }).collect::<Vec<_>>())),
        Ty::Str => Arc::new(StringArray::from(rows.iter().map(|v| if let V::Str(s) = v { Some(s.as_str()) } else { None }).collect::<Vec<_>>())),
        Ty::List(c, large) => {
            let g = garbage_value(c);
            let mut child: Vec<&V> = vec![];
            let mut offs: Vec<i64> = vec![0];
            let mut valid = vec![];
            for (i, v) in rows.iter().enumerate() {
                match v {
                    V::List(items) => {
                        child.extend(items.iter());
                        valid.push(true);
                    }
                    _ => {
                        if garbage && i % 2 == 0 {
                            child.push(&g);
                            child.push(&g);
                        }
                        valid.push(false);
                    }
                }
                offs.push(child.len() as i64);
            }
            let values = build_array(c, &child, garbage);
            let f = Arc::new(AField::new("item", c.arrow(), true));
            let nb = if valid.iter().all(|b| *b) { None } else { Some(NullBuffer::new(BooleanBuffer::from(valid))) };
            if *large {
                Arc::new(LargeListArray::new(f, OffsetBuffer::new(ScalarBuffer::from(offs)), values, nb))
            } else {
                Arc::new(ListArray::new(f, OffsetBuffer::new(ScalarBuffer::from(offs.iter().map(|o| *o as i32).collect::<Vec<_>>())), values, nb))
            }
        }
        Ty::Struct(fs) => {
            let gs: Vec<V> = fs.iter().map(|(_, c)| if garbage { garbage_value(c) } else { V::Null }).collect();
            let mut cols: Vec<ArrayRef> = vec![];
            for (fi, (_, c)) in fs.iter().enumerate() {
                let child: Vec<&V> = rows.iter().map(|v| if let V::Struct(vs) = v { &vs[fi] } else { &gs[fi] }).collect();
                cols.push(build_array(c, &child, garbage));
            }
            let valid: Vec<bool> = rows.iter().map(|v| matches!(v, V::Struct(_))).collect();
            let nb = if valid.iter().all(|b| *b) { None } else { Some(NullBuffer::new(BooleanBuffer::from(valid))) };
            let fields = Fields::from(fs.iter().map(|(n, t)| AField::new(n.clone(), t.arrow(), true)).collect::<Vec<_>>());
            Arc::new(StructArray::new(fields, cols, nb))
        }
    }
}

fn extract(ty: &Ty, arr: &ArrayRef) -> Result<Vec<V>, String> {
    if arr.data_type() != &ty.arrow() {
        return Err(format!("array type {:?}, expected {:?}", arr.data_type(), ty.arrow()));
    }
    Ok(match ty {
        Ty::Int => arr.as_primitive::<Int32Type>().iter().map(|v| v.map(V::Int).unwrap_or(V::Null)).collect(),
        Ty::Str => arr.as_string::<i32>().iter().map(|v| v.map(|s| V::Str(s.to_string())).unwrap_or(V::Null)).collect(),
        Ty::List(c, large) => {
            let (offs, values, nb): (Vec<usize>, ArrayRef, Option<NullBuffer>) = if *large {
                let l = arr.as_list::<i64>();
                (l.offsets().iter().map(|o| *o as usize).collect(), l.values().clone(), l.nulls().cloned())
            } else {
                let l = arr.as_list::<i32>();
                (l.offsets().iter().map(|o| *o as usize).collect(), l.values().clone(), l.nulls().cloned())
            };
            let items = extract(c, &values)?;
            (0..arr.len())
                .map(|i| {
                    if nb.as_ref().map(|n| n.is_null(i)).unwrap_or(false) {
                        V::Null
                    } else {
                        V::List(items[offs[i]..offs[i + 1]].to_vec())
                    }
                })
                .collect()
        }
        Ty::Struct(fs) => {
            let s = arr.as_struct();
            let cols = fs.iter().enumerate().map(|(i, (_, c))| extract(c, s.column(i))).collect::<Result<Vec<_>, _>>()?;
            (0..arr.len()).map(|i| if s.is_null(i) { V::Null } else { V::Struct(cols.iter().map(|c| c[i].clone()).collect()) }).collect()
        }
    })
}

/// any null Int32 item inside a list (the fixed-width leaf columns)
fn has_null_int(rows: &[V]) -> bool {
    // a null leaf shows up as V::Null inside a List or inside a Struct inside a List; null lists / structs
    // are also V::Null, so look at the shape conservatively: any Null below the top level counts
    fn below(v: &V, depth: usize) -> bool {
        match v {
            V::Null => depth > 0,
            V::List(items) => items.iter().any(|i| below(i, depth + 1)),
            V::Struct(fs) => fs.iter().any(|f| below(f, depth + 1)),
            _ => false,
        }
    }
    rows.iter().any(|r| below(r, 0))
}

fn show_v(v: &V) -> String {
    let s = format!("{v:?}");
    truncate_str(&s, 300)
}

async fn take_case(t: &TakeCase, obs: &mut Obs, env: &Env) -> CheckResult {
    let ty = col_type(t.col);
    let rows_n = t.rows.max(1) as usize;
    let mut r = Sm(t.seed);
    let mut ctr = 0i32;
    // while the finding is listed, keep the first entry of every list fully valid so that the reads below
    // still check the row -> item translation
    let sanitize = t.pin_first;
    if !sanitize {
        obs.label("take-unpinned-list-starts");
        if env.known(ALLVALID) {
            obs.known_hit(ALLVALID, "take: lists may start with a null entry");
            return Ok(());
        }
    }
    let model: Vec<V> = (0..rows_n)
        .map(|i| {
            // at most 8 long lists per file (cost)
            let long = t.long_every > 0 && i % t.long_every as usize == (t.long_every as usize - 1) && i / (t.long_every as usize) < 8;
            gen_value(&ty, t, &mut r, &mut ctr, 0, long, false, sanitize)
        })
        .collect();
    if std::env::var("VERIF_DEBUG").is_ok() {
        eprintln!("[debug] model: {}", truncate_str(&format!("{model:?}"), 3000));
    }
    // known finding: the full-zip reader computes max_visible_def over ALL non-list layers (filter) while
    // the writer (and the mini-block reader) only count the layers below the first list (take_while); a
    // nullable struct ABOVE a list makes them disagree and the reader mis-sizes the rows
    const FULLZIP_VISIBLE: &str = "C27-fullzip-max-visible-def-struct-above-list";
    if t.fullzip && t.col % 6 == 5 && model.iter().any(|v| *v == V::Null) {
        obs.label("take-fullzip-null-struct-above-list");
        if env.known(FULLZIP_VISIBLE) {
            obs.known_hit(FULLZIP_VISIBLE, "take: Struct<List<Int32>,Int32> with a null struct, full-zip");
            return Ok(());
        }
    }
    let mut md = HashMap::new();
    md.insert("lance-encoding:structural-encoding".to_string(), if t.fullzip { "fullzip" } else { "miniblock" }.to_string());
    let aschema = Arc::new(ASchema::new(vec![AField::new("c", ty.arrow(), true).with_metadata(md)]));
    let lschema = match LSchema::try_from(aschema.as_ref()) {
        Ok(s) => s,
        Err(e) => fail!("take:harness", "schema: {e}"),
    };
    let os = Arc::new(LanceObjectStore::memory());
    let path = Path::from("c27/file.lance");
    let ow = match os.create(&path).await {
        Ok(w) => w,
        Err(e) => fail!("take:harness", "create: {e}"),
    };
    let opts = FileWriterOptions {
        max_page_bytes: t.max_page_bytes.map(|v| v as u64),
        data_cache_bytes: t.data_cache_bytes.map(|v| v as u64),
        format_version: Some(LanceFileVersion::V2_1),
        ..Default::default()
    };
    let mut w = match FileWriter::try_new(ow, lschema, opts) {
        Ok(w) => w,
        Err(e) => fail!("take:write-error", "FileWriter::try_new: {e}"),
    };
    let mut cuts: Vec<usize> = t.batch_cuts.iter().map(|c| idx(*c, rows_n + 1)).collect();
    cuts.push(0);
    cuts.push(rows_n);
    cuts.sort_unstable();
    cuts.dedup();
    for wnd in cuts.windows(2) {
        let refs: Vec<&V> = model[wnd[0]..wnd[1]].iter().collect();
        let arr = build_array(&ty, &refs, t.garbage);
        let rb = match RecordBatch::try_new(aschema.clone(), vec![arr]) {
            Ok(b) => b,
            Err(e) => fail!("take:harness", "record batch: {e}"),
        };
        if let Err(e) = w.write_batch(&rb).await {
            fail!("take:write-error", "write_batch rows {}..{}: {e}", wnd[0], wnd[1]);
        }
    }
    match w.finish().await {
        Ok(n) => ensure!(n as usize == rows_n, "take:row-count", "finish() = {n}, wrote {rows_n}"),
        Err(e) => fail!("take:write-error", "finish: {e}"),
    }
    drop(w);
    let sched = ScanScheduler::new(os.clone(), SchedulerConfig::default_for_testing());
    let cache = LanceCache::with_capacity(16 * 1024 * 1024);
    let fs = match sched.open_file(&path, &CachedFileSize::unknown()).await {
        Ok(f) => f,
        Err(e) => fail!("take:open-error", "open_file: {e}"),
    };
    let reader = match FileReader::try_open(fs, None, Arc::<DecoderPlugins>::default(), &cache, FileReaderOptions::default()).await {
        Ok(r) => r,
        Err(e) => fail!("take:open-error", "try_open: {e}"),
    };
    let mut pages = 0;
    let mut layouts = vec![];
    for ci in &reader.metadata().column_infos {
        pages = pages.max(ci.page_infos.len());
        for p in ci.page_infos.iter() {
            let d = format!("{:?}", p.encoding);
            for l in ["MiniBlockLayout", "FullZipLayout", "AllNullLayout"] {
                if d.contains(l) && !layouts.contains(&l) {
                    layouts.push(l);
                }
            }
        }
    }
    for l in &layouts {
        obs.label(format!("take-layout-{l}"));
    }
    // (dictionary encoded pages always use the mini-block layout, whatever the metadata says)
    if !t.fullzip {
        ensure!(!layouts.contains(&"FullZipLayout"), "take:forced-encoding", "structural-encoding=miniblock but a page uses the full-zip layout");
    }
    obs.label(format!("take-pages-{}", match pages { 0 => "0", 1 => "1", 2..=4 => "2-4", _ => "5+" }));
    if pages >= 2 && t.fullzip && t.col % 6 != 2 && has_null_int(&model) {
        // known finding: FixedFullZipDecodeTask hands `num_rows` to RepDefUnraveler::new as the number of
        // items; when the leaf layer has nulls in one page and none in another the all-valid page
        // contributes one validity entry per ROW instead of per item
        const FZ_NUM_ROWS: &str = "C27-fullzip-fixed-num-rows-as-num-items";
        obs.label("take-fullzip-fixed-mixed-leaf-nullness");
        if env.known(FZ_NUM_ROWS) {
            obs.known_hit(FZ_NUM_ROWS, "take: full-zip fixed-width items with nulls over several pages");
            return Ok(());
        }
    }
    if pages >= 2 {
        // composite unravelling over several pages: two listed findings make some column shapes unreadable
        if t.col % 6 == 3 && env.known(NODEF_TRUNCATE) {
            obs.known_hit(NODEF_TRUNCATE, "take: List<List<Int32>> over several pages");
            return Ok(());
        }
        if t.col % 6 == 5 && env.known(ALLVALID_NUM_ITEMS) {
            obs.known_hit(ALLVALID_NUM_ITEMS, "take: Struct<List<Int32>,Int32> over several pages");
            return Ok(());
        }
    }
    let mut max_span = 0usize;
    for (ri, rd) in t.reads.iter().enumerate() {
        let mut picks: Vec<usize> = rd.picks.iter().map(|p| idx(*p, rows_n)).collect();
        picks.sort_unstable();
        picks.dedup();
        if picks.is_empty() {
            continue;
        }
        let (params, want_rows): (ReadBatchParams, Vec<usize>) = if rd.ranges {
            // pairs of picks become ranges
            let mut ranges = vec![];
            let mut rows = vec![];
            for p in picks.chunks(2) {
                let (a, b) = (p[0], if p.len() == 2 { p[1] } else { (p[0] + 1).min(rows_n) });
                if b > a {
                    ranges.push(a as u64..b as u64);
                    rows.extend(a..b);
                }
            }
            if ranges.is_empty() {
                continue;
            }
            (ReadBatchParams::Ranges(ranges.into()), rows)
        } else {
            (ReadBatchParams::Indices(UInt32Array::from(picks.iter().map(|p| *p as u32).collect::<Vec<_>>())), picks.clone())
        };
        if std::env::var("VERIF_DEBUG").is_ok() {
            for r in want_rows.iter().take(6) {
                eprintln!("[debug] row {r}: {}", show_v(&model[*r]));
            }
        }
        let what = format!("read#{ri} {} rows {:?} batch_size {}", if rd.ranges { "ranges" } else { "indices" }, &want_rows[..want_rows.len().min(30)], rd.batch_size);
        let stream = match reader.read_stream(params, rd.batch_size.max(1) as u32, 4, FilterExpression::no_filter()) {
            Ok(s) => s,
            Err(e) => fail!("take:read-error", "{what}: read_stream: {e}"),
        };
        let batches: Vec<RecordBatch> = match stream.try_collect().await {
            Ok(b) => b,
            Err(e) => fail!("take:read-error", "{what}: {e}"),
        };
        let mut got: Vec<V> = vec![];
        for b in &batches {
            match extract(&ty, b.column(0)) {
                Ok(v) => got.extend(v),
                Err(e) => fail!("take:decoded-malformed", "{what}: {e}"),
            }
        }
        ensure!(got.len() == want_rows.len(), "take:num-rows", "{what}: {} rows came back for {} requested", got.len(), want_rows.len());
        for (k, row) in want_rows.iter().enumerate() {
            if got[k] != model[*row] {
                fail!(
                    "take:row-items",
                    "{what}: position {k} (row {row}) = {} but the row written is {} (col type {}, {} layout)",
                    show_v(&got[k]),
                    show_v(&model[*row]),
                    t.col % 6,
                    if t.fullzip { "full-zip" } else { "mini-block" }
                );
            }
        }
        max_span = max_span.max(want_rows.len());
        obs.inner += 1;
    }
    let has_null = model.iter().any(|v| *v == V::Null);
    let has_empty = format!("{model:?}").contains("List([])");
    if has_null && has_empty && max_span >= 2 && rows_n >= 50 {
        obs.label("nontrivial");
        obs.nontrivial(format!("take|col{}|{}|pages{}|long{}|batches{}", t.col % 6, if t.fullzip { "fullzip" } else { "miniblock" }, pages.min(5), (t.long_every > 0) as u8, cuts.len().min(4)));
    }
    Ok(())
}

// ---------------------------------------------------------------------------

impl Property for C27 {
    type Input = Input;
    fn id(&self) -> &'static str {
        "C27"
    }
    fn rule(&self) -> String {
        "Four kinds of cases. (a-random) a nesting of <= 4 layers from {list, large-list, fixed-size-list(1-3), struct} (fixed-size-list never together with lists: RepDefUnraveler::decimate is a documented todo!() there and nothing in tree builds it), 1-3 batches of <= 300 rows each given by per-layer cyclic streams of validity bits (or no validity buffer), list lengths (0 = empty), garbage lengths behind null lists and a non-zero first offset; positions per level capped at 3000. The calls are exactly those of the in-tree encoders, outermost first: struct -> add_validity_bitmap/add_no_null with its nulls pushed down into the children, list -> add_offsets(raw offsets, validity) (the returned garbage flag is checked) followed by children without the garbage, fsl -> add_fsl (children below a null fsl with or without push-down), leaf -> add_validity_bitmap/add_no_null. serialize() is checked for shape (level counts = items + empty/null lists, def_meaning kinds, level ranges, first repetition level) and unravelled innermost first (unravel_validity / unravel_offsets<i32|i64> / unravel_fsl_validity) in these variants: whole; levels cut with RepDefSlicer at generated value boundaries (pieces must hold exactly the requested values, rep and def pieces aligned, concatenating to the whole) then unravelled as one concatenation (what the mini-block decoder does) and compositely piece by piece; two pages serialized separately from a split of the batches and unravelled compositely (what a batch spanning two pages does). Oracle: a plain model: list offsets normalised (null lists empty) and list validity exactly; struct / fsl / leaf validity compared wherever no ancestor is null (below a null ancestor the bits are not logical content). (a-exhaustive) families: for every nesting of depth <= 2 (quick) / 3 (thorough) over {list, large-list, fsl(1), fsl(2), struct}, rows 1..4 (depth 3: 1..3) and every configuration of the top layer, ALL completions: per struct/fsl/leaf position valid|null plus the no-validity-buffer variant, per list position null|null+1 garbage item|empty|1 item|2 items plus the no-buffer variants; positions per deeper level capped at 4 (quick), 6 (thorough depth <= 2), 4 (thorough depth 3); bits below a null struct are pushed down (as the struct encoder does), bits below a null fixed-size list are fixed to an alternating pattern; each shape is checked whole and with RepDefSlicer cuts after the first value and in the middle; the number of shapes is inner_evaluations of the evidence (quick: 6 894 families = 3.18 million shapes, thorough: 11 573 families = 191.7 million shapes). (b) control words: max_rep/max_def at every bit-width boundary up to 15 bits each (levels are < 2^15 by SPECIAL_THRESHOLD), rep present iff max_rep>0, def iff max_def>0, <= 200 pairs, consumed with `while let Some(..) = append_next(..)` like the in-tree writers: bit widths, bytes per word, descriptors and parse()/parse_desc() must reproduce the pairs. (c) a 2.1 file on an in-memory store with one list column (List<Int32>, LargeList<Int32>, List<Utf8>, List<List<Int32>>, List<Struct<Int32,Utf8>>, Struct<List<Int32>,Int32>; null/empty lists, null items/structs, optional garbage behind null lists, periodic long lists spanning mini-block chunks, 1-14 write batches, small data_cache_bytes so that columns have several pages, optional small max_page_bytes) with lance-encoding:structural-encoding = miniblock|fullzip on the root field, read with sorted unique row indices or sorted ranges and generated batch sizes; every returned row must equal the generated row. 85 % of these cases keep the first entry of every list valid (pin_first) because of a listed finding. Non-trivial (a) = >= 1 empty list, >= 1 null list and >= 1 null below a list, distinct by (nesting, def_meaning, batches, variants); (b) = both level kinds and >= 2 pairs, by bit widths; (c) = nulls and empties present, >= 50 rows and a read of >= 2 rows, by (column type, layout, pages, long lists, batches).".into()
    }
    fn assumptions(&self) -> Vec<String> {
        vec![
            "RepDefBuilder layers are added outermost first, each layer's length equals the previous layer's item count after garbage removal (the builder asserts this)".into(),
            "validity below a null struct is already pushed down (StructStructuralEncoder::pushdown_nulls) and garbage behind null lists is removed from the children (ListStructuralEncoder)".into(),
            "fixed-size-list layers are not combined with list layers (RepDefUnraveler::decimate: todo!(\"Not yet supported FSL<...List<...>>\"))".into(),
            "repetition/definition levels are < 2^15 (SPECIAL_THRESHOLD); a batch has >= 1 row".into(),
            "row indices handed to the reader are sorted and unique".into(),
        ]
    }
    fn cases(&self, tier: Tier) -> u32 {
        tier.pick(8_000, 120_000)
    }
    fn strategy(&self, _tier: Tier) -> BoxedStrategy<Input> {
        prop_oneof![
            12 => nest_strategy().prop_map(Input::Nest),
            3 => words_strategy().prop_map(Input::Words),
            2 => take_strategy().prop_map(Input::Take),
        ]
        .boxed()
    }
    fn enumerate(&self, tier: Tier) -> Vec<Input> {
        let mut out = vec![];
        let depth = tier.pick(2, 3);
        for kinds in nestings(depth) {
            let (max_rows, cap) = match (tier, kinds.len()) {
                (Tier::Quick, _) => (4, 4),
                (Tier::Thorough, 3) => (3, 4),
                (Tier::Thorough, _) => (4, 6),
            };
            for rows in 1..=max_rows {
                let n = top_option_count(&kinds, rows, cap);
                for top in 0..n {
                    out.push(Input::Family(Family { kinds: kinds.clone(), rows: rows as u8, top: top as u32, cap: cap as u8 }));
                }
            }
        }
        out
    }
    fn enumeration_is_exhaustive(&self, _tier: Tier) -> bool {
        true
    }
    fn max_shrink_iters(&self) -> u32 {
        600
    }

    fn check(&self, input: &Input, obs: &mut Obs, env: &Env) -> CheckResult {
        match input {
            Input::Nest(n) => check_nest(n, obs, env),
            Input::Family(f) => check_family(f, obs, env),
            Input::Words(w) => check_words(w, obs, env),
            Input::Take(t) => {
                obs.label("part-c-take");
                obs.label(format!("take-col{}-{}", t.col % 6, if t.fullzip { "fullzip" } else { "miniblock" }));
                env.block_on(take_case(t, obs, env))
            }
        }
    }
}

fn valid_kinds(kinds: &[Kind]) -> bool {
    let has_fsl = kinds.iter().any(|k| matches!(k, Kind::Fsl(_)));
    let has_list = kinds.iter().any(|k| k.is_list());
    !(has_fsl && has_list) && kinds.iter().all(|k| !matches!(k, Kind::Fsl(0)))
}

fn check_nest(n: &Nest, obs: &mut Obs, env: &Env) -> CheckResult {
    obs.label("part-a-random");
    if !valid_kinds(&n.kinds) || n.batches.is_empty() {
        obs.label("nest-skipped-unsupported-mix");
        return Ok(());
    }
    let kinds = &n.kinds;
    let batches: Vec<Concrete> = n.batches.iter().map(|b| expand(kinds, b, n.fsl_pushdown)).collect();
    let ctx = format!(
        "{} batches [{}]",
        batches.len(),
        batches.iter().map(|c| describe_concrete(kinds, c)).collect::<Vec<_>>().join(" || ")
    );
    let ctx = truncate_str(&ctx, 2500);
    obs.label(format!("depth-{}", kinds.len()));
    obs.label(format!("batches-{}", batches.len()));
    let (s, want, skipped) = check_page(kinds, &batches, &n.cuts, &ctx, obs, env)?;
    obs.inner += 1;
    // two pages, serialized separately, unravelled compositely
    let mut variants = 1;
    if batches.len() >= 2 {
        let k = 1 + idx(n.page_split, batches.len() - 1);
        let (p1, want1, skip1) = check_page(kinds, &batches[..k], &[], &format!("page 1 of 2: {ctx}"), obs, env)?;
        let (p2, want2, skip2) = check_page(kinds, &batches[k..], &[], &format!("page 2 of 2: {ctx}"), obs, env)?;
        let us = vec![unraveler_of(&p1, want1.leaf.len()), unraveler_of(&p2, want2.leaf.len())];
        if p1.def_meaning != p2.def_meaning {
            obs.label("pages-different-def-meaning");
        }
        if !(skip1 || skip2) {
            pages_variant(us, kinds, &want, &p1, &want1, &p2, &want2, &format!("pages split at batch {k} (def_meaning {:?} / {:?}): {ctx}", p1.def_meaning, p2.def_meaning), obs, env)?;
        }
        obs.inner += 3;
        variants += 1;
    }
    if want.has_empty {
        obs.label("has-empty-list");
    }
    if want.has_null_list {
        obs.label("has-null-list");
    }
    if want.has_deep_null {
        obs.label("has-null-below-list");
    }
    if batches.iter().zip(n.batches.iter()).any(|(c, _)| c.layers.iter().zip(kinds.iter()).any(|(l, k)| k.is_list() && (0..l.lens.len()).any(|i| !bit(&l.validity, i) && l.lens[i] > 0))) {
        obs.label("has-garbage-behind-null");
    }
    let _ = skipped;
    if want.has_empty && want.has_null_list && want.has_deep_null {
        obs.label("nontrivial");
        obs.nontrivial(format!("nest|{}|{:?}|b{}|v{}|cuts{}", kinds_name(kinds), s.def_meaning, batches.len(), variants, n.cuts.len().min(3)));
    }
    Ok(())
}

fn check_family(f: &Family, obs: &mut Obs, env: &Env) -> CheckResult {
    obs.label("part-a-exhaustive");
    obs.label(format!("family-depth-{}", f.kinds.len()));
    if !valid_kinds(&f.kinds) {
        return Ok(());
    }
    let kinds = f.kinds.clone();
    let rows = f.rows as usize;
    let mut count = 0u64;
    let mut any_nt = false;
    let mut layers = vec![];
    let mut local_obs = Obs::default();
    let mut run = |c: &Concrete| -> CheckResult {
        count += 1;
        let ctx = describe_concrete(&kinds, c);
        // one cut in the middle and one after the first value
        let (_, want, _) = check_page(&kinds, std::slice::from_ref(c), &[32768, 1], &ctx, &mut local_obs, env)?;
        if want.has_empty && want.has_null_list && want.has_deep_null {
            any_nt = true;
        }
        Ok(())
    };
    family_rec(&kinds, 0, rows, Some(f.top as usize), f.cap as usize, vec![false; rows], vec![false; rows], &mut layers, &mut run)?;
    obs.inner += count;
    for l in local_obs.labels {
        obs.label(l);
    }
    // one entry per finding is enough for a family
    let mut seen = std::collections::BTreeSet::new();
    for (id, d) in local_obs.known_hits {
        if seen.insert(id.clone()) {
            obs.known_hit(&id, d);
        }
    }
    if any_nt {
        obs.nontrivial(format!("family|{}|rows{}|top{}", kinds_name(&kinds), rows, f.top));
    }
    Ok(())
}

fn check_words(w: &Words, obs: &mut Obs, env: &Env) -> CheckResult {
    obs.label("part-b-words");
    let max_rep = w.max_rep.min(32767);
    let max_def = w.max_def.min(32767);
    let rep: Option<Vec<u16>> = if max_rep > 0 { Some(w.pairs.iter().map(|p| idx(p.0, max_rep as usize + 1) as u16).collect()) } else { None };
    let def: Option<Vec<u16>> = if max_def > 0 { Some(w.pairs.iter().map(|p| idx(p.1, max_def as usize + 1) as u16).collect()) } else { None };
    let len = w.pairs.len();
    let max_visible = w.max_visible.min(max_def);
    let mut it = build_control_word_iterator(rep.as_deref(), max_rep, def.as_deref(), max_def, max_visible, len);
    let bits = |m: u16| if m == 0 { 0 } else { 16 - m.leading_zeros() as u8 };
    let (br, bd) = (it.bits_rep(), it.bits_def());
    ensure!(br == bits(max_rep) && bd == bits(max_def), "words:bit-widths", "max_rep {max_rep} max_def {max_def}: iterator says {br}/{bd} bits, expected {}/{}", bits(max_rep), bits(max_def));
    let bpw = it.bytes_per_word();
    let total = br as usize + bd as usize;
    let want_bpw = if total == 0 { 0 } else if total <= 8 { 1 } else if total <= 16 { 2 } else { 4 };
    ensure!(bpw == want_bpw, "words:bytes-per-word", "{br}+{bd} bits: {bpw} bytes per word, expected {want_bpw}");
    ensure!(it.has_repetition() == (max_rep > 0), "words:has-repetition", "has_repetition() = {} with max_rep {max_rep}", it.has_repetition());
    obs.label(format!("words-{}B-{}{}", bpw, if max_rep > 0 { "rep" } else { "" }, if max_def > 0 { "def" } else { "" }));
    let mut buf: Vec<u8> = vec![];
    let mut descs = vec![];
    // the in-tree consumers loop `while let Some(..) = append_next(..)`; the 2-byte single-level iterator
    // unwraps past the end instead of returning None
    let unary16 = bpw == 2 && (max_rep == 0) != (max_def == 0);
    let known = "C27-unary16-iterator-end";
    let mut i = 0;
    loop {
        if unary16 && i == len && env.known(known) {
            obs.known_hit(known, format!("max_rep {max_rep} max_def {max_def}: not iterating past the end"));
            break;
        }
        match it.append_next(&mut buf) {
            Some(d) => descs.push(d),
            None => break,
        }
        i += 1;
        ensure!(i <= len, "words:too-many", "the iterator produced more than {len} words");
    }
    ensure!(descs.len() == len, "words:count", "{} words for {len} pairs", descs.len());
    ensure!(buf.len() == len * bpw, "words:buffer-size", "{} bytes for {len} words of {bpw} bytes", buf.len());
    let parser = ControlWordParser::new(br, bd);
    ensure!(parser.bytes_per_word() == bpw, "words:parser-bytes-per-word", "parser {} vs iterator {bpw}", parser.bytes_per_word());
    ensure!(parser.has_rep() == (max_rep > 0), "words:parser-has-rep", "parser.has_rep() = {} with max_rep {max_rep}", parser.has_rep());
    let (mut prep, mut pdef) = (vec![], vec![]);
    for k in 0..len {
        let src = &buf[k * bpw..];
        parser.parse(src, &mut prep, &mut pdef);
        let r = rep.as_ref().map(|r| r[k]).unwrap_or(0);
        let d = def.as_ref().map(|d| d[k]).unwrap_or(0);
        let desc = &descs[k];
        let want_new_row = max_rep == 0 || r == max_rep;
        let want_visible = if max_rep > 0 && max_def > 0 { d <= max_visible } else { true };
        let want_valid = max_def == 0 || d == 0;
        ensure!(
            desc.is_new_row == want_new_row && desc.is_visible == want_visible && desc.is_valid_item == want_valid,
            "words:descriptor",
            "pair #{k} (rep {r}/{max_rep}, def {d}/{max_def}, max visible {max_visible}): iterator descriptor {desc:?}, expected new_row={want_new_row} visible={want_visible} valid={want_valid}"
        );
        let pd = parser.parse_desc(src, max_rep, max_visible);
        ensure!(
            pd.is_new_row == want_new_row && pd.is_visible == want_visible && pd.is_valid_item == want_valid,
            "words:parse-desc",
            "pair #{k} (rep {r}/{max_rep}, def {d}/{max_def}, max visible {max_visible}): parse_desc {pd:?}, expected new_row={want_new_row} visible={want_visible} valid={want_valid}"
        );
    }
    if let Some(r) = &rep {
        ensure!(&prep == r, "words:rep-roundtrip", "max_rep {max_rep} max_def {max_def}: parsed repetition {:?} != {:?}", &prep[..prep.len().min(30)], &r[..r.len().min(30)]);
    } else {
        ensure!(prep.is_empty(), "words:rep-roundtrip", "parser produced repetition levels although there are none");
    }
    if let Some(d) = &def {
        ensure!(&pdef == d, "words:def-roundtrip", "max_rep {max_rep} max_def {max_def}: parsed definition {:?} != {:?}", &pdef[..pdef.len().min(30)], &d[..d.len().min(30)]);
    } else {
        ensure!(pdef.is_empty(), "words:def-roundtrip", "parser produced definition levels although there are none");
    }
    obs.inner += 1;
    if len >= 2 && max_rep > 0 && max_def > 0 {
        obs.nontrivial(format!("words|{br}|{bd}"));
    }
    Ok(())
}

// ---------------------------------------------------------------------------
// strategies

fn kind_strategy() -> impl Strategy<Value = Kind> {
    prop_oneof![4 => Just(Kind::List), 2 => Just(Kind::LargeList), 1 => (1u8..4).prop_map(Kind::Fsl), 3 => Just(Kind::Struct)]
}

fn kinds_strategy() -> impl Strategy<Value = Vec<Kind>> {
    prop::collection::vec(kind_strategy(), 0..5).prop_map(|mut k| {
        // keep the mix legal: drop fixed-size lists when lists are present
        if k.iter().any(|x| x.is_list()) {
            k.retain(|x| !matches!(x, Kind::Fsl(_)));
        }
        k
    })
}

fn validity_strategy() -> impl Strategy<Value = Option<Vec<bool>>> {
    prop_oneof![
        2 => Just(None),
        6 => prop::collection::vec(prop::bool::weighted(0.75), 1..40).prop_map(Some),
        1 => prop::collection::vec(prop::bool::weighted(0.2), 1..10).prop_map(Some),
        1 => Just(Some(vec![true])),
        1 => Just(Some(vec![false])),
    ]
}

fn layer_spec_strategy() -> impl Strategy<Value = LayerSpec> {
    (
        validity_strategy(),
        prop::collection::vec(prop_oneof![3 => Just(0u8), 4 => 1u8..4, 2 => 4u8..12, 1 => 12u8..60], 1..30),
        prop::collection::vec(prop_oneof![2 => Just(0u8), 2 => 1u8..5], 1..6),
        prop_oneof![3 => Just(0u8), 1 => 1u8..20],
    )
        .prop_map(|(validity, lens, garbage, first)| LayerSpec { validity, lens, garbage, first })
}

fn batch_strategy() -> impl Strategy<Value = BatchSpec> {
    (prop_oneof![3 => 1u16..8, 3 => 8u16..60, 1 => 60u16..300], prop::collection::vec(layer_spec_strategy(), 4), validity_strategy())
        .prop_map(|(rows, layers, leaf)| BatchSpec { rows, layers, leaf })
}

fn nest_strategy() -> impl Strategy<Value = Nest> {
    (kinds_strategy(), prop::collection::vec(batch_strategy(), 1..4), any::<u16>(), prop::collection::vec(any::<u16>(), 0..5), any::<bool>())
        .prop_map(|(kinds, batches, page_split, cuts, fsl_pushdown)| Nest { kinds, batches, page_split, cuts, fsl_pushdown })
}

fn level_max_strategy() -> impl Strategy<Value = u16> {
    prop_oneof![
        2 => Just(0u16),
        3 => 1u16..8,
        2 => prop_oneof![Just(15u16), Just(16), Just(31), Just(32), Just(63), Just(64), Just(127), Just(128), Just(255), Just(256)],
        1 => prop_oneof![Just(511u16), Just(512), Just(1023), Just(4095), Just(4096), Just(16383), Just(16384), Just(32767)],
        1 => 1u16..32768,
    ]
}

fn words_strategy() -> impl Strategy<Value = Words> {
    (level_max_strategy(), level_max_strategy(), any::<u16>(), prop::collection::vec((prop_oneof![any::<u16>(), Just(65535u16), Just(0u16)], prop_oneof![any::<u16>(), Just(65535u16), Just(0u16)]), 0..200))
        .prop_map(|(max_rep, max_def, max_visible, pairs)| Words { max_rep, max_def, max_visible, pairs })
}

fn read_strategy() -> impl Strategy<Value = ReadSpec> {
    (prop::collection::vec(any::<u16>(), 1..40), prop_oneof![Just(1u16), 2u16..20, Just(1024u16)], prop::bool::weighted(0.3)).prop_map(|(picks, batch_size, ranges)| ReadSpec { picks, batch_size, ranges })
}

fn take_strategy() -> impl Strategy<Value = TakeCase> {
    (
        (0u8..6, any::<bool>(), prop_oneof![1 => 1u16..50, 3 => 50u16..600, 2 => 600u16..3000], any::<u64>()),
        (prop_oneof![Just(0u8), Just(10), Just(40)], prop_oneof![Just(0u8), Just(10), Just(40)], prop_oneof![Just(0u8), Just(15), Just(60)], prop_oneof![Just(0u8), Just(15)]),
        (prop_oneof![2 => Just(0u16), 2 => 5u16..200], prop_oneof![500u16..1500, 1500u16..6000], prop_oneof![1u8..4, 4u8..30], any::<bool>()),
        (
            prop_oneof![1 => prop::collection::vec(any::<u16>(), 0..3), 2 => prop::collection::vec(any::<u16>(), 3..14)],
            prop_oneof![2 => Just(None), 1 => (1024u32..65536).prop_map(Some)],
            prop_oneof![1 => Just(None), 2 => (64u32..4000).prop_map(Some), 1 => (4000u32..40000).prop_map(Some)],
            prop::collection::vec(read_strategy(), 1..4),
            prop::bool::weighted(0.85),
        ),
    )
        .prop_map(|((col, fullzip, rows, seed), (null_list_pct, empty_pct, null_item_pct, null_struct_pct), (long_every, long_len, max_len, garbage), (batch_cuts, max_page_bytes, data_cache_bytes, reads, pin_first))| TakeCase {
            col,
            fullzip,
            rows,
            seed,
            null_list_pct,
            empty_pct,
            null_item_pct,
            null_struct_pct,
            long_every,
            long_len,
            max_len,
            garbage,
            batch_cuts,
            max_page_bytes,
            data_cache_bytes,
            pin_first,
            reads,
        })
}
